package props

// C07 — with rollback mitigation, nothing the cluster could still roll back is delivered (DESIGN §5 C07).
//  (a) min-rule, pure: exhaustive over replica tables
//  (b) gate: real observer with mitigation enabled, feeder vs. reporter goroutines
//  (c) integration on Layer B: real rollbackMitigation polling OBSERVE_SEQNO on a multi-node simnode

import (
	"encoding/json"
	"fmt"
	"os"
	"strings"
	"sync"
	"sync/atomic"
	"testing"
	"time"

	"github.com/Trendyol/go-dcp/couchbase"
	"github.com/Trendyol/go-dcp/models"
	"github.com/Trendyol/go-dcp/tracing"
	"github.com/couchbase/gocbcore/v10"
	"pgregory.net/rapid"

	"verif/simnode"
)

// ---------- (a) min rule ----------

// table entry: nil = absent copy; otherwise (uuid, persisted seq); (0,0) = never reported
type c07Table []*[2]uint64

// independent model from the statement
func c07MinModel(t c07Table) uint64 {
	var uuid uint64
	var min uint64
	first := true
	for _, e := range t {
		if e == nil {
			continue
		}
		if first {
			uuid, min, first = e[0], e[1], false
			continue
		}
		if e[0] != uuid {
			return 0 // copies disagree on the history branch
		}
		if e[1] < min {
			min = e[1]
		}
	}
	if first {
		return 0 // all absent
	}
	return min
}

func c07ExecMin(t c07Table) (d string) {
	defer func() {
		if r := recover(); r != nil {
			d = fmt.Sprintf("table %s: panic %v", c07Str(t), r)
		}
	}()
	got := uint64(couchbase.VerifMinSeqNo(t))
	if want := c07MinModel(t); got != want {
		return fmt.Sprintf("table %s: threshold %d, rule says %d", c07Str(t), got, want)
	}
	return ""
}

func c07Str(t c07Table) string {
	s := "["
	for i, e := range t {
		if i > 0 {
			s += " "
		}
		if e == nil {
			s += "absent"
		} else {
			s += fmt.Sprintf("(%x,%d)", e[0], e[1])
		}
	}
	return s + "]"
}

func TestC07_MinRuleExhaustive(t *testing.T) {
	seqs := []uint64{0, 1, 2, 7, 1 << 40, ^uint64(0)}
	uuids := []uint64{0xA, 0xB, 0xC}
	var alphabet []*[2]uint64
	alphabet = append(alphabet, nil, &[2]uint64{0, 0})
	for _, u := range uuids {
		for _, s := range seqs {
			alphabet = append(alphabet, &[2]uint64{u, s})
		}
	}
	sh, nsh := shard()
	var n, nt int64
	idx := 0
	for copies := 1; copies <= 4; copies++ {
		tbl := make(c07Table, copies)
		var rec func(i int)
		rec = func(i int) {
			if i == copies {
				idx++
				if idx%nsh != sh {
					return
				}
				if d := c07ExecMin(tbl); d != "" {
					violation(t, "C07", "c07min", c07Enc(tbl), "%s", d)
				}
				n++
				present := 0
				for _, e := range tbl {
					if e != nil {
						present++
					}
				}
				if present >= 2 {
					nt++
					if nt == 5 || nt == 5000 {
						addSample("C07", map[string]any{"replica_table": c07Str(tbl), "threshold": c07MinModel(tbl)})
					}
				}
				return
			}
			for _, a := range alphabet {
				tbl[i] = a
				rec(i + 1)
			}
		}
		rec(0)
	}
	recordEnum("C07", n, nt, map[string]int64{"min_rule_tables": n})
	addNote("C07", fmt.Sprintf("min-rule: all tables of 1..4 copies over an alphabet of %d entries (absent, never-reported, 3 vbUUIDs x 6 seqnos) enumerated", len(alphabet)))
}

type c07EncT [][]string

func c07Enc(t c07Table) c07EncT {
	var out c07EncT
	for _, e := range t {
		if e == nil {
			out = append(out, nil)
		} else {
			out = append(out, []string{fmt.Sprint(e[0]), fmt.Sprint(e[1])})
		}
	}
	return out
}

func c07Dec(e c07EncT) c07Table {
	var t c07Table
	for _, x := range e {
		if len(x) != 2 {
			t = append(t, nil)
			continue
		}
		var p [2]uint64
		fmt.Sscan(x[0], &p[0])
		fmt.Sscan(x[1], &p[1])
		t = append(t, &p)
	}
	return t
}

func TestC07_MinRuleRapid(t *testing.T) {
	entry := rapid.OneOf(
		rapid.Just((*[2]uint64)(nil)),
		rapid.Custom(func(t *rapid.T) *[2]uint64 {
			return &[2]uint64{rapid.SampledFrom([]uint64{0, 1, 2, ^uint64(0)}).Draw(t, "uuid"), genU64().Draw(t, "seq")}
		}),
	)
	rapid.Check(t, func(rt *rapid.T) {
		tbl := c07Table(rapid.SliceOfN(entry, 1, 4).Draw(rt, "table"))
		if d := c07ExecMin(tbl); d != "" {
			violation(rt, "C07", "c07min", c07Enc(tbl), "%s", d)
		}
		present := 0
		for _, e := range tbl {
			if e != nil {
				present++
			}
		}
		record("C07", c07Enc(tbl), present >= 2, "min_rule_sampled")
	})
}

// ---------- (b) gate ----------

type c07Gate struct {
	Events  []uint64 `json:"events"`   // seqnos of the document events fed (increasing)
	Reports []uint64 `json:"reports"`  // thresholds reported, in order (any order, repeats, zeros, decreasing)
	GapUs   []int    `json:"gap_us"`   // pause before each report (microseconds)
	CloseAt int      `json:"close_at"` // close the observer after this many reports (-1 = never)
	// kind of each event (cyclic; empty = all mutations): mut del exp, cc cd cf sc sd cm (system events), adv (seqno advanced)
	Kinds []string `json:"kinds,omitempty"`
	// Catchup > 0: the stream was reopened after a server rollback: the observer drops document events at or below this
	// position (already checkpointed) - the first event above it ends the catch-up and waits at the gate like any other
	Catchup uint64 `json:"catchup,omitempty"`
	// SnapType: the snapshot type bits of the markers (1 memory, 2 disk = a backfill, 4 checkpoint, 16 history ...): what the
	// active node read from its disk has not necessarily been persisted by every replica - the gate applies all the same
	SnapType uint32 `json:"snap_type,omitempty"`
	// ReopenAt k > 0: after k reports the stream is requested again inside the session (after a transient end / a rollback) with
	// the same observer, and the answer names the vbUUID ReopenUUID (1 = the one it had, else a new branch): the threshold
	// applied to the stream does not go down for that, and what it covers is delivered
	ReopenAt   int    `json:"reopen_at,omitempty"`
	ReopenUUID uint64 `json:"reopen_uuid,omitempty"`
}

// seqno of any event the observer hands to the stream (document, system, seqno-advanced)
func c07ListenerSeq(a models.ListenerArgs) (uint64, bool) {
	switch v := a.Event.(type) {
	case models.DcpMutation:
		return v.SeqNo, true
	case models.DcpDeletion:
		return v.SeqNo, true
	case models.DcpExpiration:
		return v.SeqNo, true
	case models.DcpSeqNoAdvanced:
		return v.SeqNo, true
	case models.DcpCollectionCreation:
		return v.SeqNo, true
	case models.DcpCollectionDeletion:
		return v.SeqNo, true
	case models.DcpCollectionFlush:
		return v.SeqNo, true
	case models.DcpScopeCreation:
		return v.SeqNo, true
	case models.DcpScopeDeletion:
		return v.SeqNo, true
	case models.DcpCollectionModification:
		return v.SeqNo, true
	}
	return 0, false
}

func c07ExecGate(sc c07Gate) (string, map[string]bool) {
	labels := map[string]bool{}
	cfg := laConfig()
	cfg.RollbackMitigation.Disabled = false
	cfg.RollbackMitigation.Interval = 5 * time.Millisecond // the gate polls every interval/5 = 1 ms
	var maxIssued atomic.Uint64                            // max non-zero threshold issued so far (set BEFORE the call)
	var closedFlag atomic.Bool
	type got struct {
		seq     uint64
		maxSeen uint64
		closed  bool
	}
	var mu sync.Mutex
	var deliveredList []got
	obs := couchbase.NewObserver(cfg, 3, ^uint64(0), func(a models.ListenerArgs) {
		if seq, ok := c07ListenerSeq(a); ok {
			mu.Lock()
			deliveredList = append(deliveredList, got{seq, maxIssued.Load(), closedFlag.Load()})
			mu.Unlock()
		}
	}, func(models.DcpStreamEndContext) {}, map[uint32]string{}, tracing.NewTracerComponent())
	obs.SetVbUUID(1)
	if sc.Catchup > 0 {
		obs.SetCatchup(gocbcore.SeqNo(sc.Catchup))
		labels["catchup_after_rollback"] = true
	}
	kindOf := func(i int) string {
		if len(sc.Kinds) > 0 {
			return sc.Kinds[i%len(sc.Kinds)]
		}
		return "mut"
	}
	// an event is handed to the listener unless the catch-up drops it (seqno-advanced is a control event: never dropped)
	forwarded := func(i int) bool { return sc.Catchup == 0 || sc.Events[i] > sc.Catchup || kindOf(i) == "adv" }
	feederDone := make(chan struct{})
	var fed atomic.Int64
	go func() { // gocbcore's read loop: blocks inside the gate
		defer close(feederDone)
		if len(sc.Events) == 0 {
			return
		}
		obs.SnapshotMarker(models.DcpSnapshotMarker{VbID: 3, StartSeqNo: sc.Events[0], EndSeqNo: sc.Events[len(sc.Events)-1], SnapshotType: gocbcore.SnapshotState(sc.SnapType)})
		for i, s := range sc.Events {
			kind := "mut"
			if len(sc.Kinds) > 0 {
				kind = sc.Kinds[i%len(sc.Kinds)]
			}
			if kind == "adv" && i+1 < len(sc.Events) {
				// a seqno-advanced event closes its snapshot: the server announces the next one
				feedEvent(obs, 3, srvEvent{Seq: s, Kind: kind, Key: "k"})
				obs.SnapshotMarker(models.DcpSnapshotMarker{VbID: 3, StartSeqNo: sc.Events[i+1], EndSeqNo: sc.Events[len(sc.Events)-1], SnapshotType: gocbcore.SnapshotState(sc.SnapType)})
			} else {
				feedEvent(obs, 3, srvEvent{Seq: s, Kind: kind, Key: "k"})
			}
			fed.Add(1)
		}
	}()
	var prevPersist gocbcore.SeqNo
	closed := false
	reopened := false
	reopen := func() string {
		reopened = true
		obs.SetVbUUID(gocbcore.VbUUID(sc.ReopenUUID))
		labels["stream_requested_again_inside_the_session"] = true
		if sc.ReopenUUID != 1 {
			labels["reopened_on_another_vbuuid"] = true
		}
		if p := obs.GetPersistSeqNo(); p < prevPersist {
			return fmt.Sprintf("threshold went down: %d -> %d when the stream was requested again inside the session (vbUUID %d -> %d)", prevPersist, p, 1, sc.ReopenUUID)
		}
		return ""
	}
	for i, r := range sc.Reports {
		if sc.ReopenAt > 0 && i == sc.ReopenAt {
			if d := reopen(); d != "" {
				return d, labels
			}
		}
		if i == sc.CloseAt {
			closedFlag.Store(true)
			obs.Close()
			closed = true
			labels["closed_mid_run"] = true
			break
		}
		if g := sc.GapUs[i%len(sc.GapUs)]; g > 0 {
			time.Sleep(time.Duration(g) * time.Microsecond)
		}
		if r != 0 {
			for {
				m := maxIssued.Load()
				if r <= m || maxIssued.CompareAndSwap(m, r) {
					break
				}
			}
		}
		obs.SetPersistSeqNo(gocbcore.SeqNo(r))
		p := obs.GetPersistSeqNo()
		if p < prevPersist {
			return fmt.Sprintf("threshold went down: %d -> %d after report %d", prevPersist, p, r), labels
		}
		if r != 0 && uint64(p) != maxIssued.Load() {
			return fmt.Sprintf("threshold is %d after reports with maximum %d", p, maxIssued.Load()), labels
		}
		prevPersist = p
	}
	if sc.ReopenAt > 0 && !reopened && !closed {
		if d := reopen(); d != "" {
			return d, labels
		}
	}
	final := maxIssued.Load()
	// every event covered by the final threshold must come through (no lost wake-up): bound = 400 x the 1 ms poll
	wantDelivered := 0
	for i, s := range sc.Events {
		if s <= final && forwarded(i) {
			wantDelivered++
		}
	}
	nForwarded := 0
	for i := range sc.Events {
		if forwarded(i) {
			nForwarded++
		}
	}
	if !closed {
		deadline := time.Now().Add(400 * time.Millisecond * 5)
		for {
			mu.Lock()
			n := len(deliveredList)
			mu.Unlock()
			if n >= wantDelivered {
				break
			}
			if deadlinePassed(deadline) {
				return fmt.Sprintf("threshold %d covers %d events but only %d were delivered (lost wake-up)", final, wantDelivered, n), labels
			}
			time.Sleep(200 * time.Microsecond)
		}
		if wantDelivered < nForwarded {
			labels["events_left_waiting"] = true
			time.Sleep(3 * time.Millisecond) // a wrong gate would let the next one through now
		}
		closedFlag.Store(true)
		obs.Close()
	}
	// closing releases the waiting feeder without delivering
	select {
	case <-feederDone:
	case <-time.After(5 * time.Second):
		return "closing the stream did not release the waiting events", labels
	}
	mu.Lock()
	defer mu.Unlock()
	waited := false
	for i, g := range deliveredList {
		// (an event still waiting in the gate when the stream is closed has seq > every threshold issued: if it
		// were delivered on release it would show up here; deliveries racing with Close itself are not judged)
		if g.maxSeen < g.seq {
			return fmt.Sprintf("event seq %d reached the listener while the highest threshold ever reported was %d (closed=%v)", g.seq, g.maxSeen, g.closed), labels
		}
		if i > 0 && deliveredList[i-1].seq >= g.seq {
			return "events delivered out of order", labels
		}
	}
	if len(deliveredList) > wantDelivered && !closed {
		return fmt.Sprintf("%d events delivered, the threshold %d covers only %d", len(deliveredList), final, wantDelivered), labels
	}
	if len(sc.Events) > 0 && len(sc.Reports) > 0 && sc.Reports[0] < sc.Events[0] {
		waited = true
	}
	if waited {
		labels["event_had_to_wait"] = true
	}
	return "", labels
}

func TestC07_Gate(t *testing.T) {
	rapid.Check(t, func(rt *rapid.T) {
		sc := c07Gate{CloseAt: -1}
		n := rapid.IntRange(0, 8).Draw(rt, "nev")
		seq := uint64(0)
		for i := 0; i < n; i++ {
			seq += rapid.Uint64Range(1, 4).Draw(rt, "gap")
			sc.Events = append(sc.Events, seq)
		}
		sc.Reports = rapid.SliceOfN(rapid.OneOf(rapid.Uint64Range(0, seq+3), rapid.SampledFrom([]uint64{0, 0, 1})), 0, 10).Draw(rt, "reports")
		sc.GapUs = rapid.SliceOfN(rapid.SampledFrom([]int{0, 0, 50, 300, 1500}), 1, 4).Draw(rt, "gaps")
		if rapid.IntRange(0, 3).Draw(rt, "closes") == 3 && len(sc.Reports) > 0 {
			sc.CloseAt = rapid.IntRange(0, len(sc.Reports)-1).Draw(rt, "closeat")
		}
		if n > 0 && rapid.IntRange(0, 2).Draw(rt, "catchup") == 0 {
			sc.Catchup = rapid.Uint64Range(1, seq).Draw(rt, "catchupat")
		}
		sc.SnapType = rapid.SampledFrom([]uint32{0, 1, 1, 2, 2, 6, 5, 18}).Draw(rt, "snaptype")
		if rapid.IntRange(0, 2).Draw(rt, "reopen") == 0 {
			sc.ReopenAt = rapid.IntRange(1, len(sc.Reports)+1).Draw(rt, "reopenat")
			sc.ReopenUUID = rapid.SampledFrom([]uint64{1, 2, 2, 0xABCDEF}).Draw(rt, "reopenuuid")
		}
		if rapid.Bool().Draw(rt, "mixedkinds") {
			sc.Kinds = rapid.SliceOfN(rapid.SampledFrom([]string{"mut", "mut", "del", "exp", "adv", "adv", "cc", "cd", "cf", "sc", "sd", "cm"}), 1, 8).Draw(rt, "kinds")
		}
		d, labels := c07ExecGate(sc)
		if d != "" {
			violation(rt, "C07", "c07gate", sc, "%s", d)
		}
		record("C07", sc, labels["event_had_to_wait"], append(labelList(labels), "gate_cases")...)
	})
}

func init() {
	registerReplay("c07min", func(raw json.RawMessage) string {
		var e c07EncT
		if err := json.Unmarshal(raw, &e); err != nil {
			return err.Error()
		}
		return c07ExecMin(c07Dec(e))
	})
	registerReplay("c07gate", func(raw json.RawMessage) string {
		var sc c07Gate
		if err := json.Unmarshal(raw, &sc); err != nil {
			return err.Error()
		}
		d, _ := c07ExecGate(sc)
		return d
	})
}

// ---------- (c) integration on Layer B ----------

// One step changes the report of ONE copy of one vBucket (or bumps the config revision); the harness then
// waits until that copy has answered two further OBSERVE_SEQNO requests with the new state. The library's
// observe loop only starts a round after every callback of the previous round ran, so after the second
// request the first new reply has certainly been processed: the synchronisation is by request count, not by
// time. With single-copy steps no mixed intermediate table exists, so the threshold in effect is exactly
// max over the steps so far of rule(table) and the oracle is two-sided.
type c07Step struct {
	Vb      int    `json:"vb"`
	Copy    int    `json:"copy"`
	UUID    uint64 `json:"uuid"`
	Persist uint64 `json:"persist"`
	Feed    int    `json:"feed,omitempty"` // number of events the server streams on that vBucket after the step
	Bump    bool   `json:"bump,omitempty"` // config revision bump instead of a report change
	// Move: instead of a report change, the replica at chain index Copy (>= 1) moves to a server that holds no copy of
	// the vBucket yet (new cluster map revision, same number of replicas); the new copy has its own report
	Move bool `json:"move,omitempty"`
	// Epoch (with Move or Bump): the new map starts a new revision epoch and its revision number is LOWER than the
	// last one of the old epoch (an unsafe failover does that)
	Epoch bool `json:"epoch,omitempty"`
}

type c07Integ struct {
	Replicas   int       `json:"replicas"`
	Unassigned [][2]int  `json:"unassigned,omitempty"` // (vb index, copy index >= 1) mapped to -1
	NVb        int       `json:"nvb"`
	TmpFailPct int       `json:"tmpfail_pct"`
	Steps      []c07Step `json:"steps"`
	// SlowPoll: the library polls every 250 ms instead of every 4 ms (a cluster map change is then learnt between two
	// poll rounds, as it practically always is with production intervals)
	SlowPoll bool `json:"slow_poll,omitempty"`
	// FailoverForm: a poll naming another vbUUID than the copy's current one (the library asks every copy of a vBucket with
	// the vbUUID it saw last) is answered in OBSERVE_SEQNO's hard-failover form instead of the ordinary one
	FailoverForm bool `json:"failover_form,omitempty"`
}

func c07ExecInteg(sc c07Integ) (string, map[string]bool) {
	labels := map[string]bool{}
	const servers, numVb = 4, 8
	c := simnodeNew(servers, numVb, sc.Replicas)
	for _, u := range sc.Unassigned {
		if u[1] >= 1 && u[1] <= sc.Replicas {
			c.VbMap[u[0]%sc.NVb][u[1]] = -1
			labels["unassigned_replica"] = true
		}
	}
	e := newLBFromCluster(c)
	defer e.close()
	e.cfg.RollbackMitigation.Disabled = false
	e.cfg.RollbackMitigation.Interval = 4 * time.Millisecond
	if sc.SlowPoll {
		e.cfg.RollbackMitigation.Interval = 250 * time.Millisecond
	}
	e.cfg.RollbackMitigation.ConfigWatchInterval = 10 * time.Millisecond
	var hookN atomic.Int64
	c.Lock()
	c.ObserveFailoverForm = sc.FailoverForm
	for v := 0; v < numVb; v++ {
		c.High[uint16(v)] = 1000
	}
	if sc.TmpFailPct > 0 {
		c.Hook = func(en *simnodeEntry) simnodeAction {
			// every k-th OBSERVE_SEQNO fails once (its retry is the next request and succeeds): transient, not a storm
			if en.Cmd == cmdObserveSeqNo && hookN.Add(1)%int64(100/sc.TmpFailPct) == 0 {
				return simnodeAction{Kind: simnodeStatus, Status: statusTmpFail}
			}
			return simnodeAction{}
		}
		labels["observe_tmpfail"] = true
	}
	c.Unlock()
	var mu sync.Mutex
	consumed := map[uint16][]uint64{}
	cons := &fakeConsumer{}
	cons.onEvent = func(d *delivered) {
		mu.Lock()
		consumed[d.Vb] = append(consumed[d.Vb], d.Seq)
		mu.Unlock()
		d.Ctx.Ack()
	}
	nConsumed := func(vb uint16) int {
		mu.Lock()
		defer mu.Unlock()
		return len(consumed[vb])
	}
	fm := newFakeMeta()
	disc := &fakeDiscovery{}
	disc.set(0, uint16(sc.NVb-1))
	st := newRealStream(e, fm, cons, disc, make(chan struct{}, 1))
	if ok, pv := within(30*time.Second, func() { st.Open() }); !ok || pv != nil {
		return fmt.Sprintf("Open() with rollback mitigation: returned=%v panic=%v", ok, pv), labels
	}
	defer within(30*time.Second, func() { st.Close(false) })

	// wait until (vb, server) answered k successful OBSERVE_SEQNO requests that arrived after `since`
	syncCopy := func(vb uint16, srv int, since time.Duration, k int) bool {
		deadline := time.Now().Add(8 * time.Second)
		for {
			n := 0
			for _, en := range c.Log() {
				if en.Cmd == cmdObserveSeqNo && en.Vb == vb && en.Node == srv && en.T > since && en.Replied && en.Reply == 0 {
					n++
				}
			}
			if n >= k {
				return true
			}
			if deadlinePassed(deadline) {
				return false
			}
			time.Sleep(time.Millisecond)
		}
	}
	// wait until the library has started over under a newer cluster map: it re-reads every failover log then
	waitRestart := func(since time.Duration) bool {
		deadline := time.Now().Add(5 * time.Second)
		for !deadlinePassed(deadline) {
			for _, en := range c.Log() {
				if en.Cmd == cmdGetFailoverLog && en.T > since {
					return true
				}
			}
			time.Sleep(time.Millisecond)
		}
		return false
	}
	// model
	type cp = c07Copy
	table := map[uint16][]*cp{} // nil entry = copy not listed in the map
	threshold := map[uint16]uint64{}
	rule := func(vb uint16) uint64 {
		var uuid, min uint64
		first := true
		for _, x := range table[vb] {
			if x == nil {
				continue
			}
			if first {
				uuid, min, first = x.uuid, x.seq, false
				continue
			}
			if x.uuid != uuid {
				return 0
			}
			if x.seq < min {
				min = x.seq
			}
		}
		if first {
			return 0
		}
		return min
	}
	for v := 0; v < sc.NVb; v++ {
		for _, srv := range c.VbMap[v] {
			if srv < 0 {
				table[uint16(v)] = append(table[uint16(v)], nil)
			} else {
				table[uint16(v)] = append(table[uint16(v)], &cp{})
			}
		}
	}
	next := map[uint16]uint64{}
	sent := map[uint16][]uint64{}
	// expectation check: exactly the events covered by the threshold are delivered
	check := func(vb uint16) string {
		want := 0
		for _, q := range sent[vb] {
			if q <= threshold[vb] {
				want++
			} else {
				break // later events queue behind the first uncovered one
			}
		}
		deadline := time.Now().Add(5 * time.Second)
		for nConsumed(vb) < want {
			if deadlinePassed(deadline) {
				return fmt.Sprintf("vb %d: every listed copy has reported persisted >= %d under one vbUUID (table %s), but only %d of the %d covered events were delivered", vb, threshold[vb], c07ModelStr(table[vb]), nConsumed(vb), want)
			}
			time.Sleep(500 * time.Microsecond)
		}
		if want < len(sent[vb]) {
			labels["event_waits"] = true
			time.Sleep(3 * e.cfg.RollbackMitigation.Interval) // a wrong gate lets it through within a poll or two
		}
		if n := nConsumed(vb); n > want {
			mu.Lock()
			got := append([]uint64(nil), consumed[vb]...)
			mu.Unlock()
			return fmt.Sprintf("vb %d: event seq %d reached the consumer, but the copies never all reported persisted >= %d under one vbUUID (best agreed threshold so far %d; reports now %s)", vb, got[want], got[want], threshold[vb], c07ModelStr(table[vb]))
		}
		if want > 0 {
			labels["event_delivered"] = true
		}
		return ""
	}
	for _, stp := range sc.Steps {
		vb := uint16(stp.Vb % sc.NVb)
		since := c.Since()
		if stp.Move {
			row := c.VbMap[vb]
			k := stp.Copy % len(row)
			free := -1
			for srv := 0; srv < servers; srv++ {
				used := false
				for _, x := range row {
					used = used || x == srv
				}
				if !used {
					free = srv
					break
				}
			}
			if k == 0 || row[k] < 0 || free < 0 {
				continue
			}
			if sc.SlowPoll {
				// move right after a poll round: the next round under the old map is a whole interval away
				t0 := c.Since()
				syncCopy(vb, row[k], t0, 1)
				syncCopy(vb, row[0], t0, 1)
				since = c.Since()
			}
			c.Lock()
			c.VbMap[vb][k] = free
			p := c.Persist[[2]int{int(vb), free}]
			var activeSet atomic.Bool
			if stp.Persist > 0 {
				// the active copy's report changes at the moment the library starts over under the new map (it re-reads
				// the failover logs then - visible on the wire), i.e. before its first poll round under that map; the
				// moved copy's first two answers are slow. So the active's new value is the first thing the library learns
				// under the new map, before the moved copy has said anything. (Changing it at the instant of the move
				// would race with the library's last rounds under the OLD map, where the old copy still counts.)
				prev := c.Hook
				var slow atomic.Int32
				active := row[0]
				c.Hook = func(en *simnodeEntry) simnodeAction {
					if en.Cmd == cmdGetFailoverLog && en.Vb == vb && activeSet.CompareAndSwap(false, true) {
						c.Lock()
						c.Persist[[2]int{int(vb), active}] = [2]uint64{stp.UUID, stp.Persist}
						c.Unlock()
					}
					if en.Cmd == cmdObserveSeqNo && en.Vb == vb && en.Node == free && slow.Add(1) <= 2 {
						return simnodeAction{Kind: simnodeDelay, Delay: 40 * time.Millisecond}
					}
					if prev != nil {
						return prev(en)
					}
					return simnodeAction{}
				}
			}
			c.Unlock()
			if stp.Epoch {
				c.BumpEpoch(1)
				labels["new_epoch_lower_rev"] = true
			} else {
				c.BumpRev()
			}
			labels["replica_moved"] = true
			table[vb][k] = &cp{p[0], p[1]} // the copy now listed at that place has its own (possibly empty) report
			// Between the map change and the library's start-over the cluster is in exactly this state (the active copy's
			// report flips only at the start-over), and the library can learn it: the old round's request to the node that
			// lost the copy is answered NOT_MY_VBUCKET with the new map and gocbcore re-sends it to the new copy. A
			// threshold justified by this state is justified.
			if r := rule(vb); r > threshold[vb] {
				threshold[vb] = r
				labels["threshold_from_rerouted_old_round"] = true
			}
			if !waitRestart(since) {
				return fmt.Sprintf("vb %d: the cluster map changed (replica %d moved to another node, epoch bump=%v) but the library never started over under the new map (no re-read of the failover logs within 5 s): it keeps judging by a map that is no longer the cluster's", vb, k, stp.Epoch), labels
			}
			time.Sleep(3 * e.cfg.RollbackMitigation.ConfigWatchInterval)
			since = c.Since()
			for v := 0; v < sc.NVb; v++ {
				for _, srv := range c.VbMap[v] {
					if srv >= 0 && !syncCopy(uint16(v), srv, since, 2) {
						return fmt.Sprintf("vb %d: polling of server %d stopped after a replica moved", v, srv), labels
					}
				}
			}
			if stp.Persist > 0 {
				if !activeSet.Load() {
					return "HARNESS: no failover-log request after a cluster map change (the library did not start over?)", labels
				}
				table[vb][0] = &cp{stp.UUID, stp.Persist}
				labels["replica_moved_with_active_report"] = true
			}
			if os.Getenv("VERIF_DEBUG") != "" {
				for _, en := range c.Log() {
					if en.T > since-500*time.Millisecond && (en.Cmd == cmdObserveSeqNo || en.Cmd == cmdGetFailoverLog) {
						fmt.Printf("DBG t=%v node=%d cmd=%v vb=%d reply=%v obs=(%x,%d) repT=%v\n", en.T, en.Node, en.Cmd, en.Vb, en.Reply, en.ObsUUID, en.ObsPersist, en.RepT)
					}
				}
				fmt.Println("DBG consumed", nConsumed(vb), "threshold", threshold[vb], "vbmap", c.VbMap[vb])
			}
			if r := rule(vb); r > threshold[vb] {
				threshold[vb] = r
			}
		} else if stp.Bump {
			if stp.Epoch {
				c.BumpEpoch(1)
				labels["new_epoch_lower_rev"] = true
			} else {
				c.BumpRev()
			}
			labels["config_bump"] = true
			// the new generation starts from scratch and re-learns every copy
			if !waitRestart(since) {
				return fmt.Sprintf("the cluster map revision changed (epoch bump=%v) but the library never started over under the new map within 5 s", stp.Epoch), labels
			}
			time.Sleep(3 * e.cfg.RollbackMitigation.ConfigWatchInterval)
			since = c.Since()
			for v := 0; v < sc.NVb; v++ {
				for _, srv := range c.VbMap[v] {
					if srv >= 0 && !syncCopy(uint16(v), srv, since, 2) {
						return fmt.Sprintf("vb %d: polling of server %d stopped after a config revision bump", v, srv), labels
					}
				}
			}
		} else {
			row := c.VbMap[vb]
			k := stp.Copy % len(row)
			srv := row[k]
			if srv < 0 {
				continue
			}
			old := *table[vb][k]
			c.Lock()
			c.Persist[[2]int{int(vb), srv}] = [2]uint64{stp.UUID, stp.Persist}
			c.Unlock()
			table[vb][k] = &cp{stp.UUID, stp.Persist}
			if old.uuid != stp.UUID && old.seq == stp.Persist && old.uuid != 0 {
				labels["uuid_flip_same_seq"] = true
			}
			if !syncCopy(vb, srv, since, 2) {
				return fmt.Sprintf("vb %d: server %d is no longer polled", vb, srv), labels
			}
			if r := rule(vb); r > threshold[vb] {
				threshold[vb] = r
			}
			if k > 0 {
				labels["replica_report"] = true
			}
		}
		for i := 0; i < stp.Feed; i++ {
			if s := c.Stream(vb); s != nil {
				next[vb]++
				s.Marker(next[vb], next[vb])
				s.Mutation(simnodeDoc(next[vb]))
				sent[vb] = append(sent[vb], next[vb])
			}
		}
		for v := range sent {
			if d := check(v); d != "" {
				return d, labels
			}
		}
	}
	for _, en := range c.Log() {
		if en.ObsFailoverForm {
			labels["observe_failover_form_reply"] = true
			break
		}
	}
	return "", labels
}

type c07Copy struct{ uuid, seq uint64 }

func c07ModelStr(t []*c07Copy) string {
	s := "["
	for i, x := range t {
		if i > 0 {
			s += " "
		}
		if x == nil {
			s += "unassigned"
		} else {
			s += fmt.Sprintf("(%x,%d)", x.uuid, x.seq)
		}
	}
	return s + "]"
}

func TestC07_Integration(t *testing.T) {
	rapid.Check(t, func(rt *rapid.T) {
		sc := c07Integ{Replicas: rapid.IntRange(0, 3).Draw(rt, "replicas"), NVb: rapid.IntRange(1, 2).Draw(rt, "nvb"),
			TmpFailPct: rapid.SampledFrom([]int{0, 0, 0, 10, 25}).Draw(rt, "tmpfail")}
		if sc.Replicas > 0 && rapid.IntRange(0, 2).Draw(rt, "hasUnassigned") == 0 {
			sc.Unassigned = append(sc.Unassigned, [2]int{rapid.IntRange(0, sc.NVb-1).Draw(rt, "uvb"), rapid.IntRange(1, sc.Replicas).Draw(rt, "ucopy")})
		}
		uu := rapid.SampledFrom([]uint64{0xA1, 0xA1, 0xA1, 0xB2})
		n := rapid.IntRange(2, 12).Draw(rt, "nsteps")
		last := map[[2]int]uint64{}
		for i := 0; i < n; i++ {
			stp := c07Step{Vb: rapid.IntRange(0, sc.NVb-1).Draw(rt, "vb"), Copy: rapid.IntRange(0, sc.Replicas).Draw(rt, "copy"), UUID: uu.Draw(rt, "uuid")}
			key := [2]int{stp.Vb, stp.Copy}
			switch rapid.IntRange(0, 5).Draw(rt, "kind") {
			case 0: // the copy changes its history branch but not its seqno
				stp.Persist = last[key]
			case 1: // regression
				stp.Persist = last[key] / 2
			default:
				stp.Persist = last[key] + rapid.Uint64Range(0, 3).Draw(rt, "adv")
			}
			last[key] = stp.Persist
			stp.Feed = rapid.SampledFrom([]int{0, 0, 1, 1, 2}).Draw(rt, "feed")
			stp.Bump = rapid.IntRange(0, 19).Draw(rt, "bump") == 19
			if !stp.Bump && sc.Replicas >= 1 && sc.Replicas <= 2 && rapid.IntRange(0, 7).Draw(rt, "move") == 0 {
				stp.Move = true
				stp.Copy = rapid.IntRange(1, sc.Replicas).Draw(rt, "movecopy")
				if rapid.Bool().Draw(rt, "moveplain") {
					stp.Persist = 0 // the move alone
				}
			}
			if (stp.Bump || stp.Move) && rapid.IntRange(0, 2).Draw(rt, "epoch") == 0 {
				stp.Epoch = true
			}
			sc.Steps = append(sc.Steps, stp)
		}
		if sc.Replicas >= 1 && sc.Replicas <= 2 && len(sc.Unassigned) == 0 && rapid.IntRange(0, 2).Draw(rt, "movetrap") == 0 {
			// directed suffix: every replica is ahead of the active copy, one replica then moves to a fresh server, and
			// the active copy catches up - the moved copy has not reported anything yet
			vb := rapid.IntRange(0, sc.NVb-1).Draw(rt, "trapvb")
			base := uint64(20 + rapid.IntRange(0, 3).Draw(rt, "trapbase"))
			for k := 1; k <= sc.Replicas; k++ {
				sc.Steps = append(sc.Steps, c07Step{Vb: vb, Copy: k, UUID: 0xA1, Persist: base + 5})
			}
			if rapid.Bool().Draw(rt, "trapslow") {
				sc.SlowPoll = true
				if len(sc.Steps) > 3+sc.Replicas {
					sc.Steps = sc.Steps[len(sc.Steps)-3-sc.Replicas:] // every step costs two poll rounds
				}
			}
			sc.Steps = append(sc.Steps, c07Step{Vb: vb, Copy: 0, UUID: 0xA1, Persist: base, Feed: int(base) + 4},
				c07Step{Vb: vb, Copy: rapid.IntRange(1, sc.Replicas).Draw(rt, "trapcopy"), Move: true, UUID: 0xA1, Persist: base + 5, Feed: 1, Epoch: rapid.IntRange(0, 2).Draw(rt, "trapepoch") == 0})
		}
		sc.FailoverForm = rapid.Bool().Draw(rt, "failoverform")
		if sc.FailoverForm && sc.Replicas >= 1 && len(sc.Unassigned) == 0 && !sc.SlowPoll && rapid.IntRange(0, 1).Draw(rt, "failovertrap") == 0 {
			// directed suffix: the replicas are ahead of the active copy, events up to their position wait; then the active
			// copy is replaced by one on a NEW history branch that has persisted as much as the replicas (a promoted
			// replica): the copies disagree on the branch, the waiting events keep waiting
			vb := rapid.IntRange(0, sc.NVb-1).Draw(rt, "fovb")
			base := uint64(30 + rapid.IntRange(0, 3).Draw(rt, "fobase"))
			for k := 1; k <= sc.Replicas; k++ {
				sc.Steps = append(sc.Steps, c07Step{Vb: vb, Copy: k, UUID: 0xA1, Persist: base + 5})
			}
			sc.Steps = append(sc.Steps, c07Step{Vb: vb, Copy: 0, UUID: 0xA1, Persist: base, Feed: int(base) + 4},
				c07Step{Vb: vb, Copy: 0, UUID: 0xC3, Persist: base + 5, Feed: 1})
		}
		journal("C07", "c07integ", sc)
		d, labels := c07ExecInteg(sc)
		if strings.Contains(d, "were delivered") || strings.Contains(d, "polled") || strings.Contains(d, "polling") || strings.Contains(d, "never started over") {
			// liveness is bounded by real time: only a miss that repeats in a fresh environment is reported
			countDiscarded("C07")
			d, labels = c07ExecInteg(sc)
		}
		journalDone()
		if d != "" {
			violation(rt, "C07", "c07integ", sc, "%s", d)
		}
		record("C07", sc, sc.Replicas > 0 && labels["replica_report"] && labels["event_delivered"] && labels["event_waits"], append(labelList(labels), "integration_cases")...)
	})
}

func init() {
	registerReplay("c07integ", func(raw json.RawMessage) string {
		var sc c07Integ
		if err := json.Unmarshal(raw, &sc); err != nil {
			return err.Error()
		}
		d, _ := c07ExecInteg(sc)
		return d
	})
}

// ---------- (d) no lost wake-up at start-up ----------
// The copies of a quiet vBucket have persisted everything long ago and report the same state in every poll round. A session
// that opens then (start-up, or the reopen of a rebalance) must deliver the events the server streams - they are covered by
// the threshold from the first round on - however long the checkpoint load takes relative to the poll interval.
type c07Startup struct {
	NVb         int    `json:"nvb"`
	Persist     uint64 `json:"persist"`
	Events      int    `json:"events"`        // per vBucket, seqnos 1..Events (<= Persist)
	LoadDelayMs int    `json:"load_delay_ms"` // how long the metadata store takes to answer the checkpoint load
	PollMs      int    `json:"poll_ms"`       // rollbackMitigation.interval
}

func c07ExecStartup(sc c07Startup) string {
	e := lbShared(1, 64, 0)
	e.cfg.RollbackMitigation.Disabled = false
	e.cfg.RollbackMitigation.Interval = time.Duration(sc.PollMs) * time.Millisecond
	e.cfg.RollbackMitigation.ConfigWatchInterval = 500 * time.Millisecond
	c := e.c
	c.Lock()
	for v := 0; v < sc.NVb; v++ {
		c.Failover[uint16(v)] = []simnode.FailoverEntry{{UUID: 0xA1, Seq: 0}}
		c.Persist[[2]int{v, 0}] = [2]uint64{0xA1, sc.Persist}
	}
	for v := 0; v < 64; v++ {
		c.High[uint16(v)] = sc.Persist
	}
	c.Unlock()
	fm := newFakeMeta()
	fm.loadDelay = time.Duration(sc.LoadDelayMs) * time.Millisecond
	cons := &fakeConsumer{}
	cons.onEvent = func(d *delivered) { d.Ctx.Ack() }
	disc := &fakeDiscovery{}
	disc.set(0, uint16(sc.NVb-1))
	st := newRealStream(e, fm, cons, disc, make(chan struct{}, 1))
	if ok, pv := within(30*time.Second, func() { st.Open() }); !ok || pv != nil {
		return fmt.Sprintf("Open() with rollback mitigation: returned=%v panic=%v", ok, pv)
	}
	defer within(30*time.Second, func() { st.Close(false) })
	for v := 0; v < sc.NVb; v++ {
		s := c.Stream(uint16(v))
		if s == nil {
			return fmt.Sprintf("no open stream for vb %d on the node", v)
		}
		s.Marker(1, uint64(sc.Events))
		for q := 1; q <= sc.Events; q++ {
			s.Mutation(simnode.DocEvent{Seq: uint64(q), Rev: uint64(q), Cas: (1_700_000_000 + uint64(q)) * 1_000_000_000, Key: []byte(fmt.Sprintf("k%d", q)), Value: []byte(`{}`)})
		}
	}
	want := sc.NVb * sc.Events
	deadline := time.Now().Add(6 * time.Second)
	for cons.count() < want {
		if deadlinePassed(deadline) {
			return fmt.Sprintf("every copy has reported persisted seq %d (the same in every poll round, interval %d ms) since before the session opened; %d events with seqnos <= %d were streamed, %d reached the consumer within 6 s (checkpoint load took %d ms): the threshold that covers them was never applied - lost wake-up at start-up", sc.Persist, sc.PollMs, want, sc.Events, cons.count(), sc.LoadDelayMs)
		}
		time.Sleep(time.Millisecond)
	}
	return ""
}

func TestC07_StartupWakeup(t *testing.T) {
	rapid.Check(t, func(rt *rapid.T) {
		sc := c07Startup{NVb: rapid.IntRange(1, 3).Draw(rt, "nvb"), Persist: rapid.Uint64Range(5, 50).Draw(rt, "persist"),
			LoadDelayMs: rapid.SampledFrom([]int{0, 0, 10, 30, 60}).Draw(rt, "loaddelay"), PollMs: rapid.SampledFrom([]int{2, 4, 8, 40}).Draw(rt, "poll")}
		sc.Events = rapid.IntRange(1, int(sc.Persist)).Draw(rt, "events")
		if sc.Events > 8 {
			sc.Events = 8
		}
		journal("C07", "c07startup", sc)
		d := c07ExecStartup(sc)
		journalDone()
		if d != "" {
			violation(rt, "C07", "c07startup", sc, "%s", d)
		}
		labs := []string{"startup_cases"}
		if sc.LoadDelayMs > 2*sc.PollMs {
			labs = append(labs, "first_poll_round_before_the_observers_exist")
		}
		record("C07", sc, sc.LoadDelayMs > 2*sc.PollMs, labs...)
	})
}

func init() {
	registerReplay("c07startup", func(raw json.RawMessage) string {
		var sc c07Startup
		if err := json.Unmarshal(raw, &sc); err != nil {
			return err.Error()
		}
		return c07ExecStartup(sc)
	})
}

// the committed replay of the repaired defect: a regression is a violation
func TestC07_Fixed(t *testing.T) {
	for _, f := range []string{"findings/C07_first_persist_dispatch_lost_at_open.json"} {
		if d := runReplayFile(verifRoot() + "/" + f); d != "" {
			violation(t, "C07", "c07startup", c07Startup{NVb: 1, Persist: 10, Events: 8, LoadDelayMs: 30, PollMs: 4}, "regression of a repaired defect (%s): %s", f, d)
		}
		record("C07", f, false, "fixed_replay")
	}
}
