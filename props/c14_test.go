package props

// C14 — the library never feeds on its own writes (DESIGN §5 C14).
//  (a) keys: every KV write of cbMetadata / cbMembership has a key under the reserved prefix, injective in
//      (group, vBucket); dotted group names are rejected (fail-stop, observed in a child process)
//  (b) filter: reserved-prefix events never reach the consumer, advance the position, do not flag the
//      vBucket for saving (history engine with the C14 oracle; the delivery side is C03's)
//  (c) closed loop on Layer B: checkpoint writes into the streamed bucket come back as mutations and
//      must not trigger further checkpoint writes

import (
	"bytes"
	"encoding/json"
	"fmt"
	"strconv"
	"strings"
	"sync"
	"sync/atomic"
	"testing"
	"time"
	"unicode/utf8"

	"github.com/Trendyol/go-dcp/couchbase"
	"github.com/Trendyol/go-dcp/helpers"
	"github.com/Trendyol/go-dcp/models"
	"github.com/asaskevich/EventBus"
	"github.com/couchbase/gocbcore/v10"
	"github.com/couchbase/gocbcore/v10/memd"
	"pgregory.net/rapid"
)

const reservedPrefix = "_connector:cbgo:"

func isKVWrite(c memd.CmdCode) bool {
	switch c {
	case memd.CmdSet, memd.CmdAdd, memd.CmdReplace, memd.CmdSubDocMultiMutation, memd.CmdDelete, memd.CmdAppend, memd.CmdPrepend:
		return true
	}
	return false
}

// independent right-to-left decoder of a checkpoint key
func c14Decode(key string) (group string, vb int, ok bool) {
	if !strings.HasPrefix(key, reservedPrefix) {
		return "", 0, false
	}
	rest := key[len(reservedPrefix):]
	i := strings.LastIndex(rest, ":")
	if i < 0 {
		return "", 0, false
	}
	n, err := strconv.Atoi(rest[i+1:])
	if err != nil || strconv.Itoa(n) != rest[i+1:] {
		return "", 0, false
	}
	head := rest[:i]
	if !strings.HasSuffix(head, ":checkpoint") {
		return "", 0, false
	}
	return strings.TrimSuffix(head, ":checkpoint"), n, true
}

type c14Keys struct {
	Groups []string `json:"groups"`
	Vbs    []int    `json:"vbs"`
}

func c14ExecKeys(sc c14Keys) string {
	e := lbShared(1, 64, 0)
	seen := map[string][2]any{}
	for gi, g := range sc.Groups {
		e.cfg.Dcp.Group.Name = g
		md := couchbase.NewCBMetadata(e.client, e.cfg)
		state := map[uint16]*models.CheckpointDocument{}
		dirty := map[uint16]bool{}
		for _, v := range sc.Vbs {
			state[uint16(v)] = c02DocOf(ckTuple{UUID: 1, Seq: uint64(gi + 1), Start: 0, End: 9}, "u")
			dirty[uint16(v)] = true
		}
		e.c.ResetLog()
		if err := md.Save(state, dirty, "u"); err != nil {
			return fmt.Sprintf("group %q: Save failed: %v", g, err)
		}
		keys := map[string]bool{}
		for _, en := range e.c.Log() {
			if isKVWrite(en.Cmd) {
				keys[en.Key] = true
			}
		}
		if len(keys) != len(sc.Vbs) {
			return fmt.Sprintf("group %q: %d distinct keys written for %d vBuckets: %v", g, len(keys), len(sc.Vbs), keys)
		}
		for k := range keys {
			if !strings.HasPrefix(k, reservedPrefix) {
				return fmt.Sprintf("group %q: checkpoint written under key %q outside the reserved prefix", g, k)
			}
			dg, dv, ok := c14Decode(k)
			if !ok || dg != g {
				return fmt.Sprintf("group %q: key %q does not decode back to its (group, vBucket) (got %q,%d ok=%v)", g, k, dg, dv, ok)
			}
			if prev, dup := seen[k]; dup && (prev[0] != g || prev[1] != dv) {
				return fmt.Sprintf("key %q is shared by (%q,%v) and (%q,%d)", k, prev[0], prev[1], g, dv)
			}
			seen[k] = [2]any{g, dv}
			found := false
			for _, v := range sc.Vbs {
				found = found || v == dv
			}
			if !found {
				return fmt.Sprintf("group %q: key %q names vBucket %d which was not saved", g, k, dv)
			}
			// the library's own filter recognises its keys in every document event kind
			kb := []byte(k)
			if !helpers.IsMetadata(models.DcpMutation{DcpMutation: &gocbcore.DcpMutation{Key: kb}}) ||
				!helpers.IsMetadata(models.DcpDeletion{DcpDeletion: &gocbcore.DcpDeletion{Key: kb}}) ||
				!helpers.IsMetadata(models.DcpExpiration{DcpExpiration: &gocbcore.DcpExpiration{Key: kb}}) {
				return fmt.Sprintf("key %q written by the library is not recognised by its own event filter", k)
			}
		}
		// and they load back under the same keys
		ids := make([]uint16, 0, len(sc.Vbs))
		for _, v := range sc.Vbs {
			ids = append(ids, uint16(v))
		}
		got, exist, err := md.Load(ids, "u")
		if err != nil || !exist {
			return fmt.Sprintf("group %q: Load after Save: exist=%v err=%v", g, exist, err)
		}
		for _, v := range ids {
			if d, ok := got.Load(v); !ok || d.Checkpoint.SeqNo != uint64(gi+1) {
				return fmt.Sprintf("group %q vb %d: loaded another group's checkpoint (seq %v)", g, v, d)
			}
		}
	}
	return ""
}

func c14GroupGen() *rapid.Generator[string] {
	return rapid.OneOf(
		rapid.StringMatching(`[a-zA-Z0-9_-]{0,12}`),
		rapid.SampledFrom([]string{"", "g", "g:checkpoint:1", ":checkpoint:", "a:checkpoint", "checkpoint", "1", "12:3", "a:b:c", "g:", ":g", "_connector:cbgo:g", "ünï", "日本", "a b", "g:checkpoint:12:checkpoint"}),
		rapid.Map(rapid.String(), func(s string) string {
			s = strings.ReplaceAll(strings.ToValidUTF8(s, ""), ".", "")
			for len(s) > 60 || !utf8.ValidString(s) {
				s = s[:len(s)/2]
				s = strings.ToValidUTF8(s, "")
			}
			return s
		}),
	)
}

func TestC14_Keys(t *testing.T) {
	rapid.Check(t, func(rt *rapid.T) {
		sc := c14Keys{}
		sc.Groups = rapid.SliceOfNDistinct(c14GroupGen(), 1, 4, func(s string) string { return s }).Draw(rt, "groups")
		long := 0
		if rapid.IntRange(0, 3).Draw(rt, "longnames") == 0 {
			// long names with a long common part (tenant / pipeline prefixes) that differ only at the end; the longest
			// checkpoint key still fits a Couchbase key (250 bytes: 16 prefix + name + 12 ":checkpoint:" + 5 digits)
			long = rapid.OneOf(rapid.IntRange(40, 193), rapid.SampledFrom([]int{64, 100, 128, 150, 180, 187, 188, 189, 190, 193})).Draw(rt, "commonlen")
			common := strings.Repeat(rapid.SampledFrom([]string{"t", "tenant-a_", "x:"}).Draw(rt, "commonunit"), long)[:long]
			for i, g := range sc.Groups {
				if len(g) > 12 {
					g = strings.ToValidUTF8(g[:12], "")
				}
				sc.Groups[i] = common + g
			}
			seen := map[string]bool{}
			for i, g := range sc.Groups {
				for seen[g] {
					g += "_"
				}
				seen[g], sc.Groups[i] = true, g
			}
		}
		sc.Vbs = rapid.SliceOfNDistinct(rapid.OneOf(rapid.IntRange(0, 1023), rapid.IntRange(0, 65535), rapid.SampledFrom([]int{0, 1, 12, 112, 65535})), 1, 4, func(i int) int { return i }).Draw(rt, "vbs")
		journal("C14", "c14keys", sc)
		d := c14ExecKeys(sc)
		journalDone()
		if d != "" {
			violation(rt, "C14", "c14keys", sc, "%s", d)
		}
		tricky := false
		for _, g := range sc.Groups {
			tricky = tricky || strings.ContainsAny(g, ":0123456789")
		}
		labs := []string{"key_cases"}
		if long > 0 && len(sc.Groups) >= 2 {
			labs = append(labs, "long_names_sharing_a_prefix")
			if long >= 150 {
				labs = append(labs, "long_names_sharing_150_bytes_or_more")
			}
		}
		record("C14", sc, (tricky || long > 0) && len(sc.Groups) >= 2, labs...)
	})
}

// ---- dotted group names are rejected (fail-stop): child process ----

type c14Dot struct {
	Group string `json:"group"`
	Op    string `json:"op"` // load | save
}

func c14ChildDot(raw json.RawMessage) any {
	var sc c14Dot
	_ = json.Unmarshal(raw, &sc)
	e := newLBFresh(1, 16, 0)
	e.cfg.Dcp.Group.Name = sc.Group
	md := couchbase.NewCBMetadata(e.client, e.cfg)
	if sc.Op == "save" {
		err := md.Save(map[uint16]*models.CheckpointDocument{3: c02DocOf(ckTuple{Seq: 1, End: 1}, "u")}, map[uint16]bool{3: true}, "u")
		return map[string]any{"returned": true, "err": fmt.Sprint(err), "writes": len(e.c.KVKeys())}
	}
	_, exist, err := md.Load([]uint16{3}, "u")
	return map[string]any{"returned": true, "exist": exist, "err": fmt.Sprint(err)}
}

func c14ExecDot(sc c14Dot) string {
	r := runChild("c14dot", sc, 60*time.Second)
	dotted := strings.Contains(sc.Group, ".")
	if dotted {
		if r.Exit == 0 || r.TimeOut {
			return fmt.Sprintf("group name %q (ambiguous: contains a dot) was accepted: %s", sc.Group, r.Result)
		}
		if !strings.Contains(r.Stderr, "unsupported group name includes dot") {
			return fmt.Sprintf("group name %q: process died for another reason: %s", sc.Group, r.Stderr)
		}
		return ""
	}
	if r.Exit != 0 {
		return fmt.Sprintf("group name %q without a dot was rejected (exit %d): %s", sc.Group, r.Exit, r.Stderr)
	}
	return ""
}

func TestC14_DottedGroup(t *testing.T) {
	rapid.Check(t, func(rt *rapid.T) {
		sc := c14Dot{Op: rapid.SampledFrom([]string{"load", "save"}).Draw(rt, "op")}
		base := rapid.StringMatching(`[a-z:]{0,6}`).Draw(rt, "base")
		if rapid.IntRange(0, 3).Draw(rt, "dot") > 0 {
			pos := rapid.IntRange(0, len(base)).Draw(rt, "pos")
			base = base[:pos] + "." + base[pos:]
		}
		sc.Group = base
		if d := c14ExecDot(sc); d != "" {
			violation(rt, "C14", "c14dot", sc, "%s", d)
		}
		record("C14", sc, strings.Contains(sc.Group, "."), "dotted_group_cases")
	})
}

// ---- membership documents (register, heartbeat, index) ----

type c14Member struct {
	Group string `json:"group"`
}

// keys written by the membership instances of earlier cases of this process (the node is shared; an instance's last heart-beat
// may still be on its way when the next case has begun)
var c14EarlierKeys = map[string]bool{}

func c14ExecMember(sc c14Member) string {
	e := lbShared(1, 64, 0)
	e.cfg.Dcp.Group.Name = sc.Group
	e.cfg.Dcp.Group.Membership.RebalanceDelay = time.Millisecond
	e.cfg.Dcp.Group.Membership.Config = map[string]string{"heartbeatInterval": "3ms", "monitorInterval": "4ms", "heartbeatToleranceDuration": "5s", "timeout": "2s"}
	bus := EventBus.New()
	var ms interface{ Close() }
	ok, pv := within(20*time.Second, func() { ms = couchbase.NewCBMembership(e.cfg, e.client, bus) })
	if !ok || pv != nil {
		return fmt.Sprintf("NewCBMembership(group %q): returned=%v panic=%v", sc.Group, ok, pv)
	}
	time.Sleep(25 * time.Millisecond)
	ms.Close()
	// the heart-beat and monitor loops notice the stop after their current sleep: wait until the node has been quiet
	// for a while, so that nothing of this case reaches into the next one (shared node)
	for t0, last := time.Now(), -1; time.Since(t0) < 3*time.Second; {
		n := len(e.c.Log())
		if n == last {
			break
		}
		last = n
		time.Sleep(25 * time.Millisecond)
	}
	n := 0
	defer func() {
		for _, en := range e.c.Log() {
			if isKVWrite(en.Cmd) {
				c14EarlierKeys[en.Key] = true
			}
		}
	}()
	for _, en := range e.c.Log() {
		if isKVWrite(en.Cmd) {
			if c14EarlierKeys[en.Key] {
				continue // a last write of an earlier case's instance (its own document, on the shared node), not of this one
			}
			n++
			if !strings.HasPrefix(en.Key, reservedPrefix+sc.Group+":instance:") {
				return fmt.Sprintf("membership wrote key %q outside %q", en.Key, reservedPrefix+sc.Group+":instance:")
			}
			if !helpers.IsMetadata(models.DcpMutation{DcpMutation: &gocbcore.DcpMutation{Key: []byte(en.Key)}}) {
				return fmt.Sprintf("membership key %q is not recognised by the event filter", en.Key)
			}
		}
	}
	if n < 3 {
		return fmt.Sprintf("only %d membership writes observed (register, index, heartbeat expected)", n)
	}
	return ""
}

func TestC14_MembershipKeys(t *testing.T) {
	rapid.Check(t, func(rt *rapid.T) {
		sc := c14Member{Group: rapid.OneOf(rapid.StringMatching(`[a-zA-Z0-9_:-]{0,10}`), rapid.SampledFrom([]string{"", "g", "a:instance:all", "instance", "x:y"}),
			// up to the longest name whose heartbeat key (16 prefix + name + 10 ":instance:" + 36 uuid) fits a 250-byte key
			rapid.Map(rapid.IntRange(11, 188), func(n int) string { return strings.Repeat("grp-", 47)[:n] })).Draw(rt, "group")}
		if d := c14ExecMember(sc); d != "" {
			violation(rt, "C14", "c14member", sc, "%s", d)
		}
		record("C14", sc, strings.Contains(sc.Group, ":"), "membership_key_cases")
	})
}

// ---- (b) filter: history engine with the C14 oracle ----

func TestC14_FilterHistory(t *testing.T) {
	w := hWeights{deliver: 44, ack: 24, save: 14, savefail: 3, savebegin: 5, saveend: 5, crash: 3, failover: 3, end: 3, transientOnly: true, absorbed: 38, maxVb: scale(5, 10), minOps: 1, maxOps: scale(60, 200)}
	// internal-key kinds dominate the absorbed events of this unit
	known := isKnown("C01", sigF1)
	rapid.Check(t, func(rt *rapid.T) {
		sc := genHistory(rt, w)
		internal := false
		for i := range sc.Ops {
			if sc.Ops[i].Op == "deliver" && isAbsorbedKind(sc.Ops[i].Kind) && sc.Ops[i].Kind != "ikey" && sc.Ops[i].Kind != "txn" && i%3 != 0 {
				sc.Ops[i].Kind = []string{"ikey", "txn"}[i%2]
			}
			internal = internal || sc.Ops[i].Kind == "ikey" || sc.Ops[i].Kind == "txn"
		}
		// where the connector keeps its own documents must not matter to the filter
		switch rapid.IntRange(0, 3).Draw(rt, "placement") {
		case 1:
			sc.MetaBucket = "other-bucket"
		case 2:
			sc.File = true
		}
		// reserved-key events also arrive while an earlier document event of the vBucket is still unacknowledged (batching
		// consumers): they advance the position all the same (what that does to C01 is the known finding F1, not C14's)
		sc.KeepF1 = rapid.Bool().Draw(rt, "keepf1")
		if sc.MetaBucket == "" && !sc.File && rapid.IntRange(0, 3).Draw(rt, "finite") == 0 {
			// finite mode over a bucket that already holds its events: what the library itself wrote in earlier runs is
			// often the LAST item of a vBucket (a checkpoint written at the end of the previous run)
			sc.Finite = true
			for v := sc.Lo; v <= sc.Hi; v++ {
				kinds := rapid.SliceOfN(rapid.SampledFrom([]string{"mut", "mut", "del", "ikey", "txn", "cc"}), 1, 5).Draw(rt, "pre")
				if rapid.Bool().Draw(rt, "internaltail") {
					kinds = append(kinds, []string{"ikey", "txn"}[len(kinds)%2])
				}
				sc.Pre = append(sc.Pre, kinds)
			}
			internal = true
		}
		journal("C14", "c14hist", sc)
		v, labels, _ := runHistory(&sc, known != nil, "C14")
		if sc.MetaBucket != "" {
			labels["metadata_in_other_bucket"] = true
		}
		if sc.File {
			labels["metadata_in_file"] = true
		}
		if sc.Finite {
			labels["finite_mode_over_existing_events"] = true
		}
		journalDone()
		if v != nil {
			violation(rt, v.Prop, "c14hist", sc, "%s", v.Detail)
		}
		record("C14", sc, internal && labels["save_ok"], append(labelList(labels), "filter_histories")...)
	})
}

// ---- (c) closed loop ----

type c14Loop struct {
	NVb    int   `json:"nvb"`
	Burst  []int `json:"burst"` // vb index of each user mutation of the burst
	TickMs int   `json:"tick_ms"`
}

func c14ExecLoop(sc c14Loop) (string, map[string]bool) {
	labels := map[string]bool{}
	e := lbShared(1, 16, 0)
	e.cfg.Dcp.Group.Name = "loop"
	e.cfg.Checkpoint.Type = "auto"
	e.cfg.Checkpoint.Interval = time.Duration(sc.TickMs) * time.Millisecond
	c := e.c
	c.Lock()
	for v := 0; v < 16; v++ {
		c.High[uint16(v)] = 1 << 40
	}
	c.Unlock()
	var mu sync.Mutex
	next := map[uint16]uint64{}
	var writes, feedback atomic.Int64
	var lastWrite atomic.Int64
	keyLog := map[string]int{}
	// every KV write into the (same) bucket is streamed back as a mutation on the key's vBucket
	// one server event = marker + mutation, sent atomically per vBucket stream
	send := func(vb uint16, key []byte) bool {
		mu.Lock()
		defer mu.Unlock()
		s := c.Stream(vb)
		if s == nil {
			return false
		}
		next[vb]++
		seq := next[vb]
		s.Marker(seq, seq)
		d := simnodeDoc(seq)
		if key != nil {
			d.Key = key
		}
		s.Mutation(d)
		return true
	}
	c.OnKVWrite = func(key string, vb uint16) {
		writes.Add(1)
		lastWrite.Store(time.Now().UnixNano())
		mu.Lock()
		keyLog[key]++
		mu.Unlock()
		if send(vb, []byte(key)) {
			feedback.Add(1)
		}
	}
	md := couchbase.NewCBMetadata(e.client, e.cfg) // metadata bucket == source bucket
	cons := &fakeConsumer{}
	var userSeen atomic.Int64
	cons.onEvent = func(d *delivered) {
		userSeen.Add(1)
		d.Ctx.Ack()
	}
	disc := &fakeDiscovery{}
	disc.set(0, uint16(sc.NVb-1))
	st := streamNew(e, md, cons, disc)
	if ok, pv := within(30*time.Second, func() { st.Open() }); !ok || pv != nil {
		return fmt.Sprintf("Open(): returned=%v panic=%v", ok, pv), labels
	}
	defer within(30*time.Second, func() { st.Close(false) })
	for _, b := range sc.Burst {
		send(uint16(b%sc.NVb), nil)
		time.Sleep(200 * time.Microsecond)
	}
	// quiescence: no checkpoint write for 12 ticks, within a generous bound
	tick := time.Duration(sc.TickMs) * time.Millisecond
	deadline := time.Now().Add(4*time.Second + 200*tick)
	for {
		lw := lastWrite.Load()
		// the burst was acknowledged, its checkpoints were written, and nothing has been written for 12 ticks since
		if userSeen.Load() >= int64(len(sc.Burst)) && lw != 0 && time.Since(time.Unix(0, lw)) > 12*tick+20*time.Millisecond {
			break
		}
		if deadlinePassed(deadline) {
			return fmt.Sprintf("checkpoint writes never stop after a burst of %d user events: %d writes so far, %d fed back (the library feeds on its own writes)", len(sc.Burst), writes.Load(), feedback.Load()), labels
		}
		time.Sleep(tick / 2)
	}
	for _, k := range c.KVKeys() {
		if !strings.HasPrefix(k, reservedPrefix) {
			return fmt.Sprintf("key %q written outside the reserved prefix", k), labels
		}
	}
	for _, d := range cons.snapshot() {
		if m, ok := d.Event.(models.DcpMutation); ok && bytes.HasPrefix(m.Key, []byte(reservedPrefix)) {
			return fmt.Sprintf("the consumer was shown the library's own checkpoint document %q", m.Key), labels
		}
	}
	// each per-vBucket write needs a fresh acknowledged user event (create-then-upsert = up to 3 KV ops per write)
	if w := writes.Load(); w > int64(3*len(sc.Burst)) {
		mu.Lock()
		defer mu.Unlock()
		return fmt.Sprintf("%d KV writes for a burst of %d user events: %v", w, len(sc.Burst), keyLog), labels
	}
	if feedback.Load() > 0 {
		labels["feedback_on_assigned_vb"] = true
	}
	return "", labels
}

func TestC14_ClosedLoop(t *testing.T) {
	rapid.Check(t, func(rt *rapid.T) {
		sc := c14Loop{NVb: rapid.SampledFrom([]int{16, 16, 16, 8, 4}).Draw(rt, "nvb"), TickMs: rapid.SampledFrom([]int{3, 5, 8}).Draw(rt, "tick")}
		sc.Burst = rapid.SliceOfN(rapid.IntRange(0, 15), 1, 12).Draw(rt, "burst")
		journal("C14", "c14loop", sc)
		d, labels := c14ExecLoop(sc)
		journalDone()
		if d != "" {
			violation(rt, "C14", "c14loop", sc, "%s", d)
		}
		record("C14", sc, labels["feedback_on_assigned_vb"], append(labelList(labels), "closed_loop_cases")...)
	})
}

func init() {
	registerChild("c14dot", c14ChildDot)
	reg := func(unit string, f func(raw json.RawMessage) string) { registerReplay(unit, f) }
	reg("c14keys", func(raw json.RawMessage) string {
		var sc c14Keys
		if err := json.Unmarshal(raw, &sc); err != nil {
			return err.Error()
		}
		return c14ExecKeys(sc)
	})
	reg("c14dot", func(raw json.RawMessage) string {
		var sc c14Dot
		if err := json.Unmarshal(raw, &sc); err != nil {
			return err.Error()
		}
		return c14ExecDot(sc)
	})
	reg("c14member", func(raw json.RawMessage) string {
		var sc c14Member
		if err := json.Unmarshal(raw, &sc); err != nil {
			return err.Error()
		}
		return c14ExecMember(sc)
	})
	reg("c14hist", histReplayer(func() bool { return false }, "C14"))
	reg("c14loop", func(raw json.RawMessage) string {
		var sc c14Loop
		if err := json.Unmarshal(raw, &sc); err != nil {
			return err.Error()
		}
		d, _ := c14ExecLoop(sc)
		return d
	})
}
