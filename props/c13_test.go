package props

// C13 — graceful shutdown is clean from every lifecycle state (DESIGN §5 C13).
// The real dcp.Start()/Close() (VerifNewDcp hook) runs in a child process per case; Close() arrives in a
// generated lifecycle state, reached through barriers in the fakes (consumer, store, OpenStream) and the
// lifecycle callbacks. A crash or a hang of the child is the violation.

import (
	"encoding/json"
	"fmt"
	"io"
	"net/http"
	"os"
	"runtime"
	"strings"
	"sync"
	"sync/atomic"
	"testing"
	"time"

	godcp "github.com/Trendyol/go-dcp"
	"github.com/Trendyol/go-dcp/couchbase"
	"github.com/Trendyol/go-dcp/helpers"
	"github.com/Trendyol/go-dcp/membership"
	"github.com/Trendyol/go-dcp/models"
	"github.com/couchbase/gocbcore/v10"
	"pgregory.net/rapid"
)

const sigF4 = "close_in_rebalance_window"

type c13Scenario struct {
	State    string `json:"state"` // idle | consumer_blocked | save_inflight_ok | save_inflight_fail | rebalance_closed | rebalance_delay | rebalance_reopen
	NVb      int    `json:"nvb"`
	Events   []int  `json:"events"`   // per vBucket: delivered before Close
	Acked    []int  `json:"acked"`    // per vBucket: acknowledged (in order)
	Auto     bool   `json:"auto"`     // checkpoint.type auto (interval 20 ms) or manual
	Health   bool   `json:"health"`   // health check on (interval 15 ms)
	API      bool   `json:"api"`      // HTTP API on
	Signal   bool   `json:"signal"`   // SIGTERM to the process instead of Dcp.Close()
	Mitigate bool   `json:"mitigate"` // rollback mitigation on (Layer B: real client on an in-process simulated node)
	DelayMs  int    `json:"delay_ms"` // rebalance delay
	SlowMs   int    `json:"slow_ms"`  // how long the blocked store / consumer / OpenStream stays blocked after Close was called
	// OldServer: the server is 5.0.0 (< 5.5.0: the library closes streams one at a time and relies on the stream-end
	// notification that follows each close)
	OldServer bool `json:"old_server,omitempty"`
	// CBMember: Couchbase heart-beat membership (real, on the simulated node; only with Mitigate = real client): its
	// heart-beat and monitor loops are background activity that must stop
	CBMember bool `json:"cb_member,omitempty"`
	// EndInClose: while Close() is closing the streams, the server ends another vBucket's stream on its own with this
	// cause (state | slow | backfill | disconnected | socket); only with the interface-level client, current servers
	EndInClose string `json:"end_in_close,omitempty"`
	// PingFails (health check on, interface-level client): the cluster stops answering pings shortly before Close(), so
	// that Close() arrives while the health check sits in the retry wait of a failing round
	PingFails bool `json:"ping_fails,omitempty"`
	// EndedBefore (interface-level client, current servers, >= 2 vBuckets): the server has ended the last vBucket's stream
	// for good before Close() arrives (ok = end of the stream, filter_empty = its collections were dropped); the close request
	// for that vBucket is answered "no such stream", as a node does
	EndedBefore string `json:"ended_before,omitempty"`
	// StreamsEnd (interface-level client, state idle): nobody calls Close(); every vBucket stream ends for good (clean end)
	// and the client stops by itself
	StreamsEnd bool `json:"streams_end,omitempty"`
	// ScrapeInClose (API on, interface-level client): a metrics scrape (GET /metrics of the client's own API) is waiting for
	// the answer of its sequence-number query when Close() arrives; the answer comes while Close() is between tearing the
	// observers down and marking the stream closed (inside the AfterStreamStop callback)
	ScrapeInClose bool `json:"scrape_in_close,omitempty"`
}

type c13Result struct {
	Ready                 bool              `json:"ready"`
	CloseReturned         bool              `json:"close_returned"`
	CloseMs               int64             `json:"close_ms"`
	Settled               map[string]uint64 `json:"settled"`  // positions settled before Close was called
	Durable               map[string]uint64 `json:"durable"`  // durable store when Start() returned
	OpenVbs               int               `json:"open_vbs"` // vBucket streams open when Close was called
	CloseStreams          int               `json:"close_streams"`
	DcpClose              int               `json:"dcp_close"`
	ClientClose           int               `json:"client_close"`
	ConsumedAfter         int               `json:"consumed_after"` // ConsumeEvent calls after Start() returned
	WritesAfter           int               `json:"writes_after"`   // per-vBucket store writes in the quiet window
	PingsAfter            int               `json:"pings_after"`
	OpensAfter            int               `json:"opens_after"`
	PingFailedBeforeClose bool              `json:"ping_failed_before_close"`
	OpensInClose          int               `json:"opens_in_close"` // stream requests between the call of Close() and its completion
	ObservesAfter         int               `json:"observes_after"`
	Leftover              []string          `json:"leftover"`         // library frames of goroutines alive after the quiet window
	MemberOpsAfter        int               `json:"member_ops_after"` // KV requests on membership documents in the quiet window
	StreamWasOpen         bool              `json:"stream_was_open"`
	Note                  string            `json:"note"`
}

func c13Child(raw json.RawMessage) any {
	var sc c13Scenario
	_ = json.Unmarshal(raw, &sc)
	res := &c13Result{Settled: map[string]uint64{}, Durable: map[string]uint64{}}
	cfg := laConfig()
	cfg.Dcp.Group.Membership.RebalanceDelay = time.Duration(sc.DelayMs) * time.Millisecond
	maxInterval := time.Duration(sc.DelayMs) * time.Millisecond
	if sc.Auto {
		cfg.Checkpoint.Type = "auto"
		cfg.Checkpoint.Interval = 20 * time.Millisecond
		maxInterval += 20 * time.Millisecond
	}
	if sc.Health {
		cfg.HealthCheck.Disabled = false
		cfg.HealthCheck.Interval = 15 * time.Millisecond
		maxInterval += 15 * time.Millisecond
	}
	if sc.API {
		cfg.API.Disabled = false
		cfg.API.Port = 20000 + os.Getpid()%30000
	}
	cl := newFakeClient(16)
	var client couchbase.Client = cl
	var lb *lbEnv
	if sc.Mitigate {
		lb = newLBFresh(3, 16, 1)
		lb.cfg = cfg
		cfg.Hosts = []string{"127.0.0.1"}
		cfg.RollbackMitigation.Disabled = false
		cfg.RollbackMitigation.Interval = 10 * time.Millisecond
		if sc.State == "gate_blocked" {
			// the gate re-checks every interval/5: an event parked in it wakes up to 60 ms after the stream was closed
			cfg.RollbackMitigation.Interval = 300 * time.Millisecond
		}
		cfg.RollbackMitigation.ConfigWatchInterval = 30 * time.Millisecond
		cfg.ConnectionTimeout = 5 * time.Second
		maxInterval += 30*time.Millisecond + cfg.RollbackMitigation.Interval
		client = couchbase.VerifNewClient(cfg, lb.agent, lb.agent, lb.dcp)
		if sc.CBMember && sc.State != "gate_blocked" {
			cfg.Dcp.Group.Membership.Type = membership.CouchbaseMembershipType
			cfg.Dcp.Group.Membership.Config = map[string]string{"heartbeatInterval": "12ms", "monitorInterval": "15ms", "heartbeatToleranceDuration": "5s", "timeout": "2s"}
			cfg.Dcp.Group.Membership.RebalanceDelay = 5 * time.Millisecond
			maxInterval += 30 * time.Millisecond
		}
		if sc.State == "gate_blocked" {
			// hybrid: the streams are played by the harness (its own feeder goroutine, as in Layer A), the
			// rollback-mitigation polling is real and runs against the simulated cluster
			cl.agent = lb.agent
			cl.snapFn = lb.dcp.ConfigSnapshot
			client = cl
		}
		lb.c.Lock()
		for v := 0; v < 16; v++ {
			lb.c.High[uint16(v)] = 1 << 30
			for srv := 0; srv < 3; srv++ {
				lb.c.Persist[[2]int{v, srv}] = [2]uint64{0xA1, 1 << 30} // everything is persisted everywhere
			}
		}
		lb.c.Unlock()
	}
	fm := newFakeMeta()
	hand := &fakeHandler{}
	var consumeBlock chan struct{}
	var blockedIn atomic.Bool
	cons := &fakeConsumer{}
	cons.onEvent = func(d *delivered) {
		if ch := consumeBlock; ch != nil && d.Kind == "mutation" && string(d.Event.(models.DcpMutation).Key) == "block" {
			blockedIn.Store(true)
			<-ch
		}
	}
	version := &couchbase.Version{Major: 7, Minor: 6}
	if sc.OldServer {
		version = &couchbase.Version{Major: 5, Minor: 0}
		cl.mu.Lock()
		cl.endOnClose = true // every close is followed by STREAM_END(closed), as the node / gocbcore do
		// ... for a stream that is open: the close request for a vBucket whose stream has ended is answered "no such
		// stream", and gocbcore synthesises no end notification then (memdclient.go: FindOpenStream finds nothing)
		cl.closeNotFound = true
		cl.mu.Unlock()
	}
	d := godcp.VerifNewDcp(cfg, client, cons, version, &couchbase.BucketInfo{BucketType: "membase"})
	d.SetMetadata(fm)
	d.SetEventHandler(hand)
	cfg.Dcp.Group.Membership.TotalMembers = 16 / sc.NVb // static membership: member 1 of T owns the first NVb vBuckets
	cfg.Dcp.Group.Membership.MemberNumber = 1
	startDone := make(chan any, 1)
	go func() {
		defer func() { startDone <- recover() }()
		d.Start()
	}()
	select {
	case <-d.WaitUntilReady():
		res.Ready = true
	case <-time.After(30 * time.Second):
		res.Note = "not ready"
		return res
	}
	// the server side: feed through the fake client's observers, or through the simulated node
	var feedMu sync.Mutex
	next := map[uint16]uint64{}
	feed := func(vb uint16, key string) {
		feedMu.Lock()
		next[vb]++
		seq := next[vb]
		feedMu.Unlock()
		if lb != nil && client != couchbase.Client(cl) {
			if s := lb.c.Stream(vb); s != nil {
				s.Marker(seq, seq)
				dd := simnodeDoc(seq)
				dd.Key = []byte(key)
				s.Mutation(dd)
			}
			return
		}
		if o := cl.observer(vb); o != nil {
			o.SnapshotMarker(models.DcpSnapshotMarker{VbID: vb, StartSeqNo: seq, EndSeqNo: seq})
			o.Mutation(gocbcore.DcpMutation{SeqNo: seq, VbID: vb, Key: []byte(key), Cas: 1})
		}
	}
	waitConsumed := func(n int) {
		dl := time.Now().Add(10 * time.Second)
		for cons.count() < n && !deadlinePassed(dl) {
			time.Sleep(200 * time.Microsecond)
		}
	}
	total := 0
	for v := 0; v < sc.NVb; v++ {
		for i := 0; i < sc.Events[v%len(sc.Events)]; i++ {
			feed(uint16(v), "k")
			total++
		}
	}
	waitConsumed(total)
	if strings.HasPrefix(sc.State, "save_inflight") {
		fm.mu.Lock()
		fm.block = true // whichever save comes first (ticker or Commit) stops inside the store
		fm.mu.Unlock()
	}
	acked := map[uint16]int{}
	for _, dv := range cons.snapshot() {
		if acked[dv.Vb] < sc.Acked[int(dv.Vb)%len(sc.Acked)] {
			dv.Ctx.Ack()
			acked[dv.Vb]++
			res.Settled[fmt.Sprint(dv.Vb)] = dv.Seq
		}
	}
	slow := time.Duration(sc.SlowMs) * time.Millisecond
	opensAtClose := -1
	t0 := time.Now()
	var pingFailing atomic.Bool
	var failedPings atomic.Int32
	if sc.PingFails && sc.Health && client == couchbase.Client(cl) {
		cl.mu.Lock()
		cl.pingFn = func() error {
			if pingFailing.Load() {
				failedPings.Add(1)
				return fmt.Errorf("injected ping failure")
			}
			return nil
		}
		cl.mu.Unlock()
	}
	closeNow := func() {
		if sc.PingFails && sc.Health && client == couchbase.Client(cl) {
			pingFailing.Store(true)
			for dl := time.Now().Add(2 * time.Second); failedPings.Load() == 0 && !deadlinePassed(dl); {
				time.Sleep(200 * time.Microsecond)
			}
			res.PingFailedBeforeClose = failedPings.Load() > 0
			t0 = time.Now()
		}
		if sc.EndedBefore != "" && client == couchbase.Client(cl) && sc.NVb >= 2 && !sc.OldServer {
			cl.mu.Lock()
			cl.closeNotFound = true
			cl.mu.Unlock()
			var cause error
			if sc.EndedBefore == "filter_empty" {
				cause = gocbcore.ErrDCPStreamFilterEmpty
			}
			cl.serverEnd(uint16(sc.NVb-1), cause)
		}
		cl.mu.Lock()
		opensAtClose = len(cl.opens)
		cl.mu.Unlock()
		if sc.EndInClose != "" && client == couchbase.Client(cl) && sc.NVb >= 2 && !sc.OldServer {
			var once sync.Once
			cl.mu.Lock()
			cl.onClose = func(vb uint16) {
				once.Do(func() {
					other := uint16((int(vb) + 1) % sc.NVb)
					if sc.State == "gate_blocked" && other == 0 {
						other = uint16((int(vb) + 2) % sc.NVb) // vBucket 0's connection goroutine is the one parked in the gate
					}
					if o := cl.observer(other); o != nil && other != vb {
						o.End(models.DcpStreamEnd{VbID: other}, endCauses[sc.EndInClose])
					}
				})
			}
			cl.mu.Unlock()
		}
		res.StreamWasOpen = sc.State != "rebalance_closed" && sc.State != "rebalance_delay" && sc.State != "rebalance_reopen"
		if lb == nil {
			cl.mu.Lock()
			res.OpenVbs = len(cl.obs)
			cl.mu.Unlock()
		}
		if sc.ScrapeInClose && sc.API && client == couchbase.Client(cl) && res.StreamWasOpen {
			gate := make(chan struct{})
			var arrived atomic.Bool
			cl.mu.Lock()
			cl.seqGate = func(aware bool) {
				if aware && arrived.CompareAndSwap(false, true) {
					<-gate
				}
			}
			cl.mu.Unlock()
			go func() {
				if resp, err := http.Get(fmt.Sprintf("http://127.0.0.1:%d/metrics", cfg.API.Port)); err == nil {
					_, _ = io.Copy(io.Discard, resp.Body)
					resp.Body.Close()
				}
			}()
			for dl := time.Now().Add(3 * time.Second); !arrived.Load() && !deadlinePassed(dl); {
				time.Sleep(200 * time.Microsecond)
			}
			if arrived.Load() {
				hand.hook("ASStop", func() {
					close(gate)
					time.Sleep(8 * time.Millisecond) // the scrape finishes its collection while Close() is still in here
				})
				res.Note += " scrape_in_flight_at_close"
			} else {
				cl.mu.Lock()
				cl.seqGate = nil
				cl.mu.Unlock()
				arrived.Store(true)
				close(gate)
			}
			t0 = time.Now()
		}
		if sc.StreamsEnd && client == couchbase.Client(cl) {
			for v := 0; v < sc.NVb; v++ {
				cl.serverEnd(uint16(v), nil)
			}
		} else if sc.Signal {
			p, _ := os.FindProcess(os.Getpid())
			_ = p.Signal(os.Interrupt)
		} else {
			d.Close()
		}
	}
	t0 = time.Now()
	bus := godcp.VerifBus(d)
	switch sc.State {
	case "idle":
		closeNow()
	case "consumer_blocked":
		consumeBlock = make(chan struct{})
		go feed(0, "block")
		for dl := time.Now().Add(10 * time.Second); !blockedIn.Load() && !deadlinePassed(dl); {
			time.Sleep(200 * time.Microsecond)
		}
		t0 = time.Now()
		closeNow()
		go func() { time.Sleep(slow); close(consumeBlock) }()
	case "gate_blocked":
		// an event above what the cluster has persisted is parked in the rollback-mitigation gate when Close arrives
		lb.c.Lock()
		feedMu.Lock()
		cur := next[0]
		feedMu.Unlock()
		for srv := 0; srv < 3; srv++ {
			lb.c.Persist[[2]int{0, srv}] = [2]uint64{0xA1, cur} // nothing newer is persisted on vBucket 0
		}
		lb.c.Unlock()
		// the library only lowers nothing: the observer's threshold never decreases, so park an event far above it
		// the snapshot marker starts below the threshold (it passes), the mutation lies above it (it parks
		// inside the gate, on the harness's feeder goroutine)
		go func() {
			if o := cl.observer(0); o != nil {
				o.SnapshotMarker(models.DcpSnapshotMarker{VbID: 0, StartSeqNo: cur + 1, EndSeqNo: 1<<30 + 5})
				o.Mutation(gocbcore.DcpMutation{SeqNo: 1<<30 + 5, VbID: 0, Key: []byte("parked"), Cas: 1})
			}
		}()
		feedMu.Lock()
		next[0] = 1<<30 + 5
		feedMu.Unlock()
		time.Sleep(30 * time.Millisecond)
		t0 = time.Now()
		closeNow()
	case "monitor_inflight":
		// Couchbase membership: Close() arrives while a monitor round has its per-instance reads in flight (the node
		// answers them late, i.e. after the connections were closed)
		held := make(chan struct{}, 16)
		lb.c.Lock()
		lb.c.Hook = func(en *simnodeEntry) simnodeAction {
			if en.Cmd == cmdGet && strings.Contains(en.Key, ":instance:") && !strings.HasSuffix(en.Key, ":all") {
				select {
				case held <- struct{}{}:
				default:
				}
				return simnodeAction{Kind: simnodeDelay, Delay: time.Duration(40+sc.SlowMs) * time.Millisecond}
			}
			return simnodeAction{}
		}
		lb.c.Unlock()
		select {
		case <-held:
		case <-time.After(10 * time.Second):
			res.Note = "HARNESS: no monitor round observed"
		}
		t0 = time.Now()
		closeNow()
	case "save_inflight_ok", "save_inflight_fail":
		go d.Commit()
		select {
		case <-fm.entered:
		case <-time.After(5 * time.Second):
			res.Note = "save never reached the store (nothing settled)"
		}
		t0 = time.Now()
		closeNow()
		go func() {
			time.Sleep(slow)
			fm.mu.Lock()
			fm.block = false
			fm.mu.Unlock()
			if sc.State == "save_inflight_fail" {
				fm.release <- saveOutcome{err: errInjected, writes: 0}
			} else {
				fm.release <- saveOutcome{writes: -1}
			}
		}()
	case "rebalance_closed":
		hand.hook("ASStop", func() { t0 = time.Now(); closeNow() })
		bus.Publish(helpers.MembershipChangedBusEventName, &membership.Model{MemberNumber: 1, TotalMembers: 16 / sc.NVb})
	case "rebalance_delay":
		ars := make(chan struct{})
		hand.hook("ARS", func() { close(ars) })
		bus.Publish(helpers.MembershipChangedBusEventName, &membership.Model{MemberNumber: 1, TotalMembers: 16 / sc.NVb})
		select {
		case <-ars:
		case <-time.After(10 * time.Second):
		}
		time.Sleep(time.Duration(sc.DelayMs) * time.Millisecond / 4)
		t0 = time.Now()
		closeNow()
	case "rebalance_reopen":
		entered := make(chan struct{}, 64)
		gate := make(chan struct{})
		cl.mu.Lock()
		cl.onOpen = func(vb uint16) {
			entered <- struct{}{}
			<-gate
		}
		cl.mu.Unlock()
		bus.Publish(helpers.MembershipChangedBusEventName, &membership.Model{MemberNumber: 1, TotalMembers: 16 / sc.NVb})
		select {
		case <-entered:
		case <-time.After(10 * time.Second):
			res.Note = "reopen never started"
		}
		t0 = time.Now()
		closeNow()
		go func() { time.Sleep(slow); close(gate) }()
	}
	select {
	case pv := <-startDone:
		res.CloseReturned = true
		res.CloseMs = time.Since(t0).Milliseconds()
		if pv != nil {
			panic(pv) // a crash is a crash: let the process die with it
		}
	case <-time.After(25 * time.Second):
		res.Note += " Start() did not return within 25 s of Close()"
		return res
	}
	for vb, t := range fm.snapshot() {
		res.Durable[fmt.Sprint(vb)] = t.Seq
	}
	if opensAtClose >= 0 {
		cl.mu.Lock()
		res.OpensInClose = len(cl.opens) - opensAtClose
		cl.mu.Unlock()
	}
	// after Start() returned: nothing may reach the consumer any more
	before := cons.count()
	for v := 0; v < sc.NVb; v++ {
		if sc.State == "gate_blocked" && v == 0 {
			continue // vBucket 0 is fed by the goroutine parked in the gate (one feeder per vBucket)
		}
		feed(uint16(v), "late")
	}
	// grace: one configured interval per component (a sleeping ticker loop may wake once more), then a quiet window
	time.Sleep(maxInterval + 30*time.Millisecond)
	res.ConsumedAfter = cons.count() - before
	// late acknowledgements (a consumer finishing its work after shutdown): a checkpoint schedule that is
	// really stopped cannot persist them any more
	for _, dv := range cons.snapshot() {
		func() {
			defer func() { _ = recover() }()
			dv.Ctx.Ack()
		}()
	}
	fm.mu.Lock()
	w0 := len(fm.calls) // store calls, not only writes: a surviving schedule keeps calling the store
	for _, c := range fm.calls {
		w0 += len(c.Written)
	}
	fm.mu.Unlock()
	cl.mu.Lock()
	p0, o0 := len(cl.pings), len(cl.opens)
	cl.mu.Unlock()
	obs0, mem0 := 0, 0
	isMemberOp := func(key string) bool { return strings.Contains(key, ":instance:") }
	if lb != nil {
		for _, en := range lb.c.Log() {
			if en.Cmd == cmdObserveSeqNo {
				obs0++
			}
			if isMemberOp(en.Key) {
				mem0++
			}
		}
	}
	time.Sleep(3*maxInterval + 100*time.Millisecond)
	fm.mu.Lock()
	res.WritesAfter = len(fm.calls)
	for _, c := range fm.calls {
		res.WritesAfter += len(c.Written)
	}
	res.WritesAfter -= w0
	fm.mu.Unlock()
	if res.WritesAfter > 0 {
		// the schedule's loop may have been asleep when it was stopped: it wakes once more and saves (the late acknowledgements
		// above) - on a busy machine later than the grace. A schedule that was NOT stopped goes on calling the store every
		// interval: what counts is a second window of the same length
		fm.mu.Lock()
		w1 := len(fm.calls)
		for _, c := range fm.calls {
			w1 += len(c.Written)
		}
		fm.mu.Unlock()
		time.Sleep(3*maxInterval + 100*time.Millisecond)
		fm.mu.Lock()
		res.WritesAfter = len(fm.calls)
		for _, c := range fm.calls {
			res.WritesAfter += len(c.Written)
		}
		res.WritesAfter -= w1
		fm.mu.Unlock()
	}
	cl.mu.Lock()
	res.PingsAfter, res.OpensAfter = len(cl.pings)-p0, len(cl.opens)-o0
	res.CloseStreams, res.DcpClose, res.ClientClose = len(cl.closes), cl.dcpClose, cl.close
	cl.mu.Unlock()
	// goroutines still executing library code after shutdown (stack frames inside the go-dcp module)
	buf := make([]byte, 4<<20)
	buf = buf[:runtime.Stack(buf, true)]
	for _, g := range strings.Split(string(buf), "\n\n") {
		// (a goroutine blocked for ever in a channel send is a leak, not an activity: not judged here)
		if strings.Contains(g, "github.com/Trendyol/go-dcp") && !strings.Contains(g, "verif/props.c13Child") && !strings.Contains(strings.SplitN(g, "\n", 2)[0], "[chan send") {
			first := ""
			for _, l := range strings.Split(g, "\n") {
				if strings.Contains(l, "github.com/Trendyol/go-dcp") {
					first = strings.TrimSpace(l)
					break
				}
			}
			res.Leftover = append(res.Leftover, first)
		}
	}
	if lb != nil {
		for _, en := range lb.c.Log() {
			if en.Cmd == cmdObserveSeqNo {
				res.ObservesAfter++
			}
			if isMemberOp(en.Key) {
				res.MemberOpsAfter++
			}
		}
		res.ObservesAfter -= obs0
		res.MemberOpsAfter -= mem0
	}
	return res
}

func c13Exec(sc c13Scenario) string {
	r := runChild("c13", sc, 90*time.Second)
	if r.TimeOut {
		return "shutdown scenario hung: " + firstLine(r.Stderr)
	}
	if r.Exit != 0 {
		return fmt.Sprintf("the process crashed during shutdown in state %s (exit %d): %s", sc.State, r.Exit, firstLine(r.Stderr))
	}
	var res c13Result
	if err := json.Unmarshal(r.Result, &res); err != nil {
		return "no result from the child: " + r.Stdout
	}
	if !res.Ready {
		return "HARNESS: client did not become ready"
	}
	if !res.CloseReturned {
		return fmt.Sprintf("Close() in state %s: %s", sc.State, strings.TrimSpace(res.Note))
	}
	if res.PingFailedBeforeClose && res.CloseMs > 900 {
		return fmt.Sprintf("Close() in state %s while the health check was inside the retry wait of a failing round took %d ms: it sat out the retry wait(s) instead of stopping the check", sc.State, res.CloseMs)
	}
	if res.CloseMs > 20_000 {
		return fmt.Sprintf("Close() in state %s took %d ms", sc.State, res.CloseMs)
	}
	if sc.Auto && res.StreamWasOpen {
		for vb, seq := range res.Settled {
			if res.Durable[vb] < seq {
				return fmt.Sprintf("vb %s: position %d was settled before Close() but the durable checkpoint after shutdown is %d (automatic checkpointing)", vb, seq, res.Durable[vb])
			}
		}
	}
	if !sc.Mitigate {
		if res.StreamWasOpen && res.CloseStreams < res.OpenVbs {
			return fmt.Sprintf("%d vBucket streams were open, CloseStream was called %d times", res.OpenVbs, res.CloseStreams)
		}
		if res.DcpClose != 1 || res.ClientClose != 1 {
			return fmt.Sprintf("connections closed %d/%d times (DcpClose/Close), want once each", res.DcpClose, res.ClientClose)
		}
	}
	if res.ConsumedAfter != 0 {
		return fmt.Sprintf("%d events were handed to the consumer after Close() had returned", res.ConsumedAfter)
	}
	if res.WritesAfter != 0 {
		return fmt.Sprintf("%d checkpoint store calls / writes in the quiet window after shutdown (checkpoint schedule still running)", res.WritesAfter)
	}
	if res.PingsAfter != 0 {
		return fmt.Sprintf("%d pings in the quiet window after shutdown (health check still running)", res.PingsAfter)
	}
	if res.OpensInClose != 0 && !strings.HasPrefix(sc.State, "rebalance_") {
		return fmt.Sprintf("%d vBucket stream(s) were requested after Close() had been invoked (end_in_close=%q): a stream the shutdown does not know of stays open", res.OpensInClose, sc.EndInClose)
	}
	if res.OpensAfter != 0 {
		return fmt.Sprintf("%d stream requests in the quiet window after shutdown (a pending rebalance reopened the stream)", res.OpensAfter)
	}
	if res.MemberOpsAfter != 0 {
		return fmt.Sprintf("%d requests on membership documents in the quiet window after shutdown (heart-beat / monitor loop still running)", res.MemberOpsAfter)
	}
	if len(res.Leftover) != 0 {
		return fmt.Sprintf("%d goroutine(s) still execute library code after shutdown and a quiet window (background activity not stopped): %s", len(res.Leftover), strings.Join(res.Leftover, "; "))
	}
	if res.ObservesAfter != 0 {
		return fmt.Sprintf("%d OBSERVE_SEQNO requests in the quiet window after shutdown (rollback-mitigation polling still running)", res.ObservesAfter)
	}
	return ""
}

var c13States = []string{"idle", "consumer_blocked", "gate_blocked", "save_inflight_ok", "save_inflight_fail", "monitor_inflight", "rebalance_closed", "rebalance_delay", "rebalance_reopen"}

func c13InKnownClass(sc c13Scenario) bool {
	return strings.HasPrefix(sc.State, "rebalance_")
}

func c13Gen(rt *rapid.T) c13Scenario {
	sc := c13Scenario{State: rapid.SampledFrom(c13States).Draw(rt, "state"), NVb: rapid.SampledFrom([]int{1, 2, 4, 8}).Draw(rt, "nvb")}
	sc.Events = rapid.SliceOfN(rapid.IntRange(0, 4), 1, 4).Draw(rt, "events")
	for range sc.Events {
		sc.Acked = append(sc.Acked, rapid.IntRange(0, 4).Draw(rt, "acked"))
	}
	sc.Auto = rapid.IntRange(0, 3).Draw(rt, "auto") > 0
	sc.Health = rapid.Bool().Draw(rt, "health")
	sc.API = rapid.IntRange(0, 4).Draw(rt, "api") == 0
	sc.Signal = rapid.IntRange(0, 4).Draw(rt, "signal") == 0
	sc.Mitigate = rapid.IntRange(0, 3).Draw(rt, "mitigate") == 0
	sc.DelayMs = rapid.SampledFrom([]int{40, 120, 300}).Draw(rt, "delay")
	sc.SlowMs = rapid.SampledFrom([]int{0, 10, 60}).Draw(rt, "slow")
	if sc.State == "gate_blocked" || sc.State == "monitor_inflight" {
		sc.Mitigate = true
	}
	sc.OldServer = rapid.IntRange(0, 3).Draw(rt, "oldserver") == 0
	sc.PingFails = sc.Health && !sc.Mitigate && !strings.HasPrefix(sc.State, "rebalance_") && rapid.IntRange(0, 2).Draw(rt, "pingfails") > 0
	if !sc.OldServer && sc.NVb >= 2 && (!sc.Mitigate || sc.State == "gate_blocked") && !strings.HasPrefix(sc.State, "rebalance_") && rapid.IntRange(0, 2).Draw(rt, "endinclose") == 0 {
		sc.EndInClose = rapid.SampledFrom([]string{"state", "slow", "backfill", "disconnected", "socket"}).Draw(rt, "endcause")
	}
	if !sc.OldServer && sc.NVb >= 2 && !sc.Mitigate && !strings.HasPrefix(sc.State, "rebalance_") && rapid.IntRange(0, 1).Draw(rt, "endedbefore") == 0 {
		sc.EndedBefore = rapid.SampledFrom([]string{"ok", "filter_empty"}).Draw(rt, "endedcause")
	}
	if sc.State == "idle" && !sc.Mitigate && sc.EndedBefore == "" && sc.EndInClose == "" && rapid.IntRange(0, 2).Draw(rt, "streamsend") == 0 {
		sc.StreamsEnd = true
		sc.PingFails = false
	}
	if !sc.Mitigate && !strings.HasPrefix(sc.State, "rebalance_") && !sc.StreamsEnd && rapid.IntRange(0, 3).Draw(rt, "scrapeinclose") == 0 {
		sc.ScrapeInClose, sc.API = true, true
	}
	sc.CBMember = sc.Mitigate && sc.State != "gate_blocked" && !strings.HasPrefix(sc.State, "rebalance_") && rapid.IntRange(0, 3).Draw(rt, "cbmember") > 0
	if sc.State == "monitor_inflight" {
		sc.CBMember = true
	}
	if sc.Mitigate {
		sc.Health = false // the real client's Ping needs a management endpoint the simulated node does not offer
		if sc.State == "rebalance_reopen" {
			sc.State = "rebalance_delay" // the OpenStream barrier lives in the fake client
		}
	}
	if strings.HasPrefix(sc.State, "save_inflight") {
		// something must be settled for a store call to happen
		sc.Events[0], sc.Acked[0] = sc.Events[0]+1, sc.Acked[0]+1
	}
	return sc
}

func TestC13_Shutdown(t *testing.T) {
	n := scale(96, 2400)
	_, nsh := shard()
	known := isKnown("C13", sigF4)
	var scs []c13Scenario
	rapid.Check(t, func(rt *rapid.T) {
		if len(scs) > 0 {
			return
		}
		for i := 0; i < (n+nsh-1)/nsh; i++ {
			sc := c13Gen(rt)
			if known != nil && c13InKnownClass(sc) {
				// known finding: excluded by construction (counted), so that the search continues behind it
				countExcluded("C13")
				sc.State = []string{"idle", "consumer_blocked", "save_inflight_ok", "save_inflight_fail"}[i%4]
				if strings.HasPrefix(sc.State, "save_inflight") {
					sc.Events[0], sc.Acked[0] = sc.Events[0]+1, sc.Acked[0]+1
				}
			}
			scs = append(scs, sc)
		}
	})
	out := make([]string, len(scs))
	var wg sync.WaitGroup
	sem := make(chan struct{}, 10)
	for i := range scs {
		wg.Add(1)
		go func(i int) {
			defer wg.Done()
			sem <- struct{}{}
			defer func() { <-sem }()
			out[i] = c13Exec(scs[i])
		}(i)
	}
	wg.Wait()
	for i, d := range out {
		if strings.HasPrefix(d, "HARNESS:") {
			t.Fatalf("harness trouble: %s (%+v)", d, scs[i])
		}
		if d != "" {
			violation(t, "C13", "c13", scs[i], "%s", d)
		}
		labs := []string{"cases", "state_" + scs[i].State}
		if scs[i].Mitigate {
			labs = append(labs, "rollback_mitigation_on")
		}
		if scs[i].Signal {
			labs = append(labs, "sigterm")
		}
		if scs[i].CBMember {
			labs = append(labs, "couchbase_membership")
		}
		if scs[i].StreamsEnd {
			labs = append(labs, "stopped_by_stream_ends")
		}
		if scs[i].ScrapeInClose {
			labs = append(labs, "scrape_in_flight_at_close")
		}
		if scs[i].EndedBefore != "" {
			labs = append(labs, "stream_ended_for_good_before_close")
		}
		if scs[i].EndInClose != "" {
			labs = append(labs, "server_ends_stream_during_close")
		}
		if scs[i].PingFails {
			labs = append(labs, "close_during_failing_health_round")
		}
		if scs[i].OldServer && scs[i].NVb >= 2 {
			labs = append(labs, "serial_close_server")
		}
		record("C13", scs[i], scs[i].State != "idle", labs...)
	}
}

func TestC13_KnownFindings(t *testing.T) {
	k := isKnown("C13", sigF4)
	if k == nil {
		t.Skip("no known finding listed")
	}
	if d := runReplayFile(verifRoot() + "/" + k.Replay); d != "" {
		noteKnown("C13", k)
	} else {
		addNote("C13", "listed known finding "+sigF4+" no longer reproduces")
	}
	record("C13", "known-finding-replay", false, "known_replay")
}

func init() {
	registerChild("c13", c13Child)
	registerReplay("c13", func(raw json.RawMessage) string {
		var sc c13Scenario
		if err := json.Unmarshal(raw, &sc); err != nil {
			return err.Error()
		}
		return c13Exec(sc)
	})
}
