package props

// Layer A (DESIGN 2.1): fakes at go-dcp's exported interfaces. Real stream / checkpoint /
// observer / metric code runs against them; the harness plays server, store and consumer
// and owns the schedule at the fakes' call boundaries.

import (
	"errors"
	"fmt"
	"sort"
	"sync"
	"sync/atomic"
	"time"

	"github.com/Trendyol/go-dcp/config"
	"github.com/Trendyol/go-dcp/couchbase"
	"github.com/Trendyol/go-dcp/membership"
	"github.com/Trendyol/go-dcp/models"
	"github.com/Trendyol/go-dcp/stream"
	"github.com/Trendyol/go-dcp/wrapper"
	"github.com/couchbase/gocbcore/v10"

	"verif/simnode"
)

// ---------- one real ConfigSnapshot per process ----------

var (
	snapOnce sync.Once
	snapVal  *gocbcore.ConfigSnapshot
	snapErr  error
)

// realSnapshot: checkpoint.NewCheckpoint dereferences a real *gocbcore.ConfigSnapshot, so the
// fake client hands out one taken from a throw-away DCP agent bootstrapped on a simnode.
func realSnapshot() *gocbcore.ConfigSnapshot {
	snapOnce.Do(func() {
		c := simnode.New(1, 64, 0)
		a, err := c.NewDcpAgent("verif-snap")
		if err != nil {
			snapErr = err
			return
		}
		snapVal, snapErr = a.ConfigSnapshot()
		_ = a.Close()
		c.Close()
	})
	if snapErr != nil {
		panic(fmt.Sprintf("harness: cannot bootstrap gocbcore against simnode: %v", snapErr))
	}
	return snapVal
}

// ---------- global step counter (Lamport-style order of observations) ----------

var laClock atomic.Int64

func tick() int64 { return laClock.Add(1) }

// ---------- fake couchbase.Client ----------

type openRec struct {
	At     int64
	Vb     uint16
	Off    models.Offset
	Snap   models.SnapshotMarker
	Err    string
	Filter []uint32
	UUID   uint64 // first failover entry handed to the observer on success (the branch the stream is on)
}

type fakeClient struct {
	couchbase.Client // nil: unimplemented methods panic (none is reachable from the code under test)
	numVb            int

	mu       sync.Mutex
	high     map[uint16]uint64
	failover map[uint16][]gocbcore.FailoverEntry
	obs      map[uint16]couchbase.Observer
	opens    []openRec
	closes   []uint16
	seqCalls int
	pings    []time.Time
	dcpClose int
	close    int

	// fault injection / barriers (all optional)
	openErr     func(vb uint16, nth int) error // nth = how many opens of vb before this one
	seqNoErr    error
	failoverErr func(vb uint16) error
	onOpen      func(vb uint16) // called inside OpenStream before it returns (may block)
	onClose     func(vb uint16) // called inside CloseStream before it returns (may block)
	endOnClose  bool            // emulate the server's STREAM_END(closed) inside CloseStream
	pingFn      func() error
	openCount   map[uint16]int
	inflight    atomic.Int32
	maxInflight atomic.Int32
	// optional real pieces (hybrid: fake streams, real rollback-mitigation polling on a simulated cluster)
	agent   *gocbcore.Agent
	snapFn  func() (*gocbcore.ConfigSnapshot, error)
	seqOmit map[uint16]bool // vBuckets missing from the sequence-number sample
	// collHigh: per vBucket, what the collection-aware sequence-number query answers (the last item of the configured
	// collections), where it differs from the vBucket's high seqno
	collHigh map[uint16]uint64
	live     map[uint16]bool // vBuckets whose stream was requested successfully and not closed since
	// closeNotFound: CloseStream of a vBucket without a live stream is answered "no such stream", as a node does
	closeNotFound bool
	seqGate       func(aware bool) // called at the start of every sequence-number query, outside the lock
	endAsync      time.Duration    // endOnClose: the end notification is delivered this long after CloseStream returned
	closeAt       []vbTime         // when each CloseStream call began
	endAt         []vbTime         // when each asynchronous end notification was handed to the observer
	closing       map[uint16]bool  // vBuckets for which a close request has arrived (reset by a successful OpenStream)
	serverEnded   map[uint16]bool  // vBuckets whose stream the server ended on its own (reset by a successful OpenStream)
}

func newFakeClient(numVb int) *fakeClient {
	return &fakeClient{numVb: numVb, high: map[uint16]uint64{}, failover: map[uint16][]gocbcore.FailoverEntry{},
		obs: map[uint16]couchbase.Observer{}, openCount: map[uint16]int{}}
}

func (f *fakeClient) GetDcpAgentConfigSnapshot() (*gocbcore.ConfigSnapshot, error) {
	if f.snapFn != nil {
		return f.snapFn()
	}
	return realSnapshot(), nil
}
func (f *fakeClient) GetAgentConfigSnapshot() (*gocbcore.ConfigSnapshot, error) {
	return realSnapshot(), nil
}
func (f *fakeClient) GetNumVBuckets() int { return f.numVb }

func (f *fakeClient) GetVBucketSeqNos(aware bool) (*wrapper.ConcurrentSwissMap[uint16, uint64], error) {
	f.mu.Lock()
	gate := f.seqGate
	f.mu.Unlock()
	if gate != nil {
		gate(aware) // the query is on its way to the cluster (a scrape waiting for its answer)
	}
	f.mu.Lock()
	defer f.mu.Unlock()
	f.seqCalls++
	if f.seqNoErr != nil {
		return nil, f.seqNoErr
	}
	m := wrapper.CreateConcurrentSwissMap[uint16, uint64](uint64(f.numVb))
	for i := 0; i < f.numVb; i++ {
		if f.seqOmit[uint16(i)] {
			continue // no node reported this vBucket as active (the real query merges per-node answers)
		}
		h := f.high[uint16(i)]
		if ch, ok := f.collHigh[uint16(i)]; ok && aware {
			h = ch // the collection-aware query: the last item of the configured collections, not the vBucket's high seqno
		}
		m.Store(uint16(i), h)
	}
	return m, nil
}

func (f *fakeClient) failoverOf(vb uint16) []gocbcore.FailoverEntry {
	if l, ok := f.failover[vb]; ok && len(l) > 0 {
		return l
	}
	return []gocbcore.FailoverEntry{{VbUUID: gocbcore.VbUUID(0xabc000 + uint64(vb)), SeqNo: 0}}
}

func (f *fakeClient) GetFailOverLogs(vb uint16) ([]gocbcore.FailoverEntry, error) {
	f.mu.Lock()
	defer f.mu.Unlock()
	if f.failoverErr != nil {
		if err := f.failoverErr(vb); err != nil {
			return nil, err
		}
	}
	return append([]gocbcore.FailoverEntry(nil), f.failoverOf(vb)...), nil
}

func (f *fakeClient) OpenStream(vb uint16, coll map[uint32]string, off *models.Offset, o couchbase.Observer) error {
	f.mu.Lock()
	rec := openRec{At: tick(), Vb: vb, Off: *off}
	if off.SnapshotMarker != nil {
		rec.Snap = *off.SnapshotMarker
	}
	for id := range coll {
		rec.Filter = append(rec.Filter, id)
	}
	sort.Slice(rec.Filter, func(i, j int) bool { return rec.Filter[i] < rec.Filter[j] })
	nth := f.openCount[vb]
	f.openCount[vb]++
	var err error
	if f.openErr != nil {
		err = f.openErr(vb, nth)
	}
	if err != nil {
		rec.Err = err.Error()
	}
	f.opens = append(f.opens, rec)
	onOpen := f.onOpen
	if err == nil {
		f.obs[vb] = o
		if f.live == nil {
			f.live = map[uint16]bool{}
		}
		f.live[vb] = true
		delete(f.closing, vb)
		delete(f.serverEnded, vb)
		// what client.go's OpenStream callback does on success
		o.SetVbUUID(f.failoverOf(vb)[0].VbUUID)
		f.opens[len(f.opens)-1].UUID = uint64(f.failoverOf(vb)[0].VbUUID)
	}
	f.mu.Unlock()
	if onOpen != nil {
		onOpen(vb)
	}
	return err
}

// openCountOf: number of OpenStream calls (successful or not) for a vBucket so far.
func (f *fakeClient) openCountOf(vb uint16) int {
	f.mu.Lock()
	defer f.mu.Unlock()
	return f.openCount[vb]
}

func (f *fakeClient) CloseStream(vb uint16) error {
	n := f.inflight.Add(1)
	for {
		m := f.maxInflight.Load()
		if n <= m || f.maxInflight.CompareAndSwap(m, n) {
			break
		}
	}
	defer f.inflight.Add(-1)
	f.mu.Lock()
	f.closes = append(f.closes, vb)
	f.closeAt = append(f.closeAt, vbTime{vb, time.Now()})
	wasLive := f.live[vb]
	delete(f.live, vb)
	if f.closing == nil {
		f.closing = map[uint16]bool{}
	}
	f.closing[vb] = true
	if f.closeNotFound && !wasLive {
		// what a node answers to DCP_CLOSE_STREAM for a vBucket that has no stream (any more): KEY_ENOENT
		f.mu.Unlock()
		return gocbcore.ErrDocumentNotFound
	}
	o := f.obs[vb]
	onClose, end := f.onClose, f.endOnClose
	f.mu.Unlock()
	if onClose != nil {
		onClose(vb)
		// (the server may have ended this very stream on its own while the close request was on its way: nothing left to confirm)
		f.mu.Lock()
		if f.serverEnded[vb] {
			wasLive = false
		}
		f.mu.Unlock()
	}
	if end && o != nil && wasLive && f.endAsync > 0 {
		// the end notification reaches the observer on the connection's goroutine a little after the close was
		// acknowledged (as gocbcore delivers it), not from inside the CloseStream call
		d := f.endAsync
		go func() {
			time.Sleep(d)
			f.mu.Lock()
			f.endAt = append(f.endAt, vbTime{vb, time.Now()})
			f.mu.Unlock()
			o.End(models.DcpStreamEnd{VbID: vb}, gocbcore.ErrDCPStreamClosed)
		}()
		return nil
	}
	if end && o != nil && wasLive {
		o.End(models.DcpStreamEnd{VbID: vb}, gocbcore.ErrDCPStreamClosed)
	}
	return nil
}

func (f *fakeClient) Ping() (*models.PingResult, error) {
	f.mu.Lock()
	f.pings = append(f.pings, time.Now())
	fn := f.pingFn
	f.mu.Unlock()
	if fn != nil {
		if err := fn(); err != nil {
			var pe partialPingError
			if errors.As(err, &pe) {
				// what the real client.Ping does when gocbcore calls back in time but a service is unhealthy: a
				// (partly filled) result AND an error
				return &models.PingResult{MemdEndpoint: "m"}, err
			}
			return nil, err
		}
	}
	return &models.PingResult{MemdEndpoint: "m", MgmtEndpoint: "g"}, nil
}

type vbTime struct {
	vb uint16
	t  time.Time
}

// partialPingError marks a scripted ping failure that comes with a non-nil result.
type partialPingError struct{ error }

func (f *fakeClient) DcpClose() { f.mu.Lock(); f.dcpClose++; f.mu.Unlock() }
func (f *fakeClient) Close()    { f.mu.Lock(); f.close++; f.mu.Unlock() }
func (f *fakeClient) GetCollectionIDs(string, []string) (map[uint32]string, error) {
	return map[uint32]string{}, nil
}
func (f *fakeClient) GetAgentQueues() []*models.AgentQueue { return nil }
func (f *fakeClient) GetAgent() *gocbcore.Agent            { return f.agent }
func (f *fakeClient) GetMetaAgent() *gocbcore.Agent        { return nil }

// serverEnd: the server ends the vBucket's stream on its own with the given cause (nil = end of a finite stream)
func (f *fakeClient) serverEnd(vb uint16, cause error) {
	f.mu.Lock()
	o := f.obs[vb]
	delete(f.live, vb)
	if f.serverEnded == nil {
		f.serverEnded = map[uint16]bool{}
	}
	f.serverEnded[vb] = true
	f.mu.Unlock()
	if o != nil {
		o.End(models.DcpStreamEnd{VbID: vb}, cause)
	}
}

// serverEndUnlessClosing: like serverEnd, but only if the node has not yet received a close request for the vBucket
// (a node handles the two in one order or the other: after the close request there is no stream left to end)
func (f *fakeClient) serverEndUnlessClosing(vb uint16, cause error) bool {
	f.mu.Lock()
	o := f.obs[vb]
	if o == nil || f.closing[vb] || !f.live[vb] {
		f.mu.Unlock()
		return false
	}
	delete(f.live, vb)
	f.mu.Unlock()
	o.End(models.DcpStreamEnd{VbID: vb}, cause)
	return true
}

// liveRange: the vBuckets streamed right now, as "lo-hi" when contiguous (else the list)
func (f *fakeClient) liveRange() string {
	f.mu.Lock()
	defer f.mu.Unlock()
	var v []int
	for vb := range f.live {
		v = append(v, int(vb))
	}
	sort.Ints(v)
	if len(v) == 0 {
		return "nothing"
	}
	if v[len(v)-1]-v[0]+1 == len(v) {
		return fmt.Sprintf("%d-%d", v[0], v[len(v)-1])
	}
	return fmt.Sprint(v)
}

func (f *fakeClient) observer(vb uint16) couchbase.Observer {
	f.mu.Lock()
	defer f.mu.Unlock()
	return f.obs[vb]
}

func (f *fakeClient) openLog() []openRec {
	f.mu.Lock()
	defer f.mu.Unlock()
	return append([]openRec(nil), f.opens...)
}

func (f *fakeClient) setHigh(vb uint16, v uint64) {
	f.mu.Lock()
	f.high[vb] = v
	f.mu.Unlock()
}

// ---------- fake metadata store ----------

type ckTuple struct {
	UUID, Seq, Start, End uint64
}

func tupleOfDoc(d *models.CheckpointDocument) ckTuple {
	t := ckTuple{}
	if d != nil && d.Checkpoint != nil {
		t.UUID, t.Seq = d.Checkpoint.VbUUID, d.Checkpoint.SeqNo
		if d.Checkpoint.Snapshot != nil {
			t.Start, t.End = d.Checkpoint.Snapshot.StartSeqNo, d.Checkpoint.Snapshot.EndSeqNo
		}
	}
	return t
}

type saveCall struct {
	At      int64
	State   map[uint16]ckTuple
	Dirty   map[uint16]bool
	Written []uint16 // per-vBucket durable writes performed, in order
	Err     string
}

type saveOutcome struct {
	err    error
	writes int   // number of dirty per-vBucket writes applied before returning (-1 = all)
	order  []int // permutation seed for the write order
}

// fakeMeta: durable store with per-vBucket write granularity (like the Couchbase backend).
type fakeMeta struct {
	mu        sync.Mutex
	durable   map[uint16]ckTuple
	calls     []*saveCall
	loads     int
	loadErr   error
	docBucket string // non-empty: stored documents carry this bucketUuid (not the one Load is called with)
	loadDelay time.Duration
	loadOmit  map[uint16]bool // vBuckets left out of the dump Load returns
	// next outcome for non-blocking saves (nextFn, if set, decides per call)
	next   saveOutcome
	nextFn func() saveOutcome
	// blocking mode: Save signals `entered` and waits for an outcome on `release`
	block   bool
	entered chan *saveCall
	release chan saveOutcome
	// invoked for every durable per-vBucket write (under the lock)
	onWrite func(call *saveCall, vb uint16, t ckTuple)
	clears  int
}

func newFakeMeta() *fakeMeta {
	return &fakeMeta{durable: map[uint16]ckTuple{}, next: saveOutcome{writes: -1},
		entered: make(chan *saveCall, 4), release: make(chan saveOutcome, 4)}
}

func (m *fakeMeta) Save(state map[uint16]*models.CheckpointDocument, dirty map[uint16]bool, _ string) error {
	call := &saveCall{At: tick(), State: map[uint16]ckTuple{}, Dirty: map[uint16]bool{}}
	for vb, d := range state {
		call.State[vb] = tupleOfDoc(d)
	}
	for vb, d := range dirty {
		call.Dirty[vb] = d
	}
	m.mu.Lock()
	m.calls = append(m.calls, call)
	block := m.block
	out := m.next
	if m.nextFn != nil {
		out = m.nextFn()
	}
	m.mu.Unlock()
	if block {
		m.entered <- call
		out = <-m.release
	}
	// the set of per-vBucket writes this call performs: dirty vBuckets present in state
	var todo []uint16
	for vb := range call.State {
		if call.Dirty[vb] {
			todo = append(todo, vb)
		}
	}
	sort.Slice(todo, func(i, j int) bool { return todo[i] < todo[j] })
	if len(out.order) > 0 && len(todo) > 1 { // generated write order
		perm := make([]uint16, 0, len(todo))
		rest := append([]uint16(nil), todo...)
		for i := 0; len(rest) > 0; i++ {
			k := out.order[i%len(out.order)] % len(rest)
			perm = append(perm, rest[k])
			rest = append(rest[:k], rest[k+1:]...)
		}
		todo = perm
	}
	n := len(todo)
	if out.writes >= 0 && out.writes < n {
		n = out.writes
	}
	m.mu.Lock()
	for _, vb := range todo[:n] {
		m.durable[vb] = call.State[vb]
		call.Written = append(call.Written, vb)
		if m.onWrite != nil {
			m.onWrite(call, vb, call.State[vb])
		}
	}
	if out.err != nil {
		call.Err = out.err.Error()
	}
	m.mu.Unlock()
	return out.err
}

func (m *fakeMeta) Load(vbIds []uint16, bucketUUID string) (*wrapper.ConcurrentSwissMap[uint16, *models.CheckpointDocument], bool, error) {
	m.mu.Lock()
	d := m.loadDelay
	m.mu.Unlock()
	if d > 0 {
		time.Sleep(d) // a metadata store that takes its time (one read per vBucket against a busy cluster)
	}
	m.mu.Lock()
	defer m.mu.Unlock()
	m.loads++
	if m.loadErr != nil {
		return nil, false, m.loadErr
	}
	st := wrapper.CreateConcurrentSwissMap[uint16, *models.CheckpointDocument](1024)
	exist := false
	for _, vb := range vbIds {
		if m.loadOmit[vb] {
			exist = true // the store holds checkpoints, just not for this vBucket
			continue
		}
		if t, ok := m.durable[vb]; ok {
			st.Store(vb, &models.CheckpointDocument{
				Checkpoint: &models.CheckpointDocumentCheckpoint{
					VbUUID: t.UUID, SeqNo: t.Seq,
					Snapshot: &models.CheckpointDocumentSnapshot{StartSeqNo: t.Start, EndSeqNo: t.End},
				}, BucketUUID: map[bool]string{true: bucketUUID, false: m.docBucket}[m.docBucket == ""],
			})
			exist = true
		} else {
			st.Store(vb, models.NewEmptyCheckpointDocument(bucketUUID))
		}
	}
	return st, exist, nil
}

func (m *fakeMeta) Clear([]uint16) error {
	m.mu.Lock()
	m.clears++
	m.mu.Unlock()
	return nil
}

func (m *fakeMeta) clearCount() int {
	m.mu.Lock()
	defer m.mu.Unlock()
	return m.clears
}

func (m *fakeMeta) snapshot() map[uint16]ckTuple {
	m.mu.Lock()
	defer m.mu.Unlock()
	out := make(map[uint16]ckTuple, len(m.durable))
	for k, v := range m.durable {
		out[k] = v
	}
	return out
}

func (m *fakeMeta) callCount() int {
	m.mu.Lock()
	defer m.mu.Unlock()
	return len(m.calls)
}

var errInjected = errors.New("injected store failure")

// ---------- fake consumer ----------

type delivered struct {
	At    int64
	Vb    uint16
	Kind  string // mutation / deletion / expiration
	Seq   uint64
	Off   ckTuple
	Ctx   *models.ListenerContext
	Event any
}

type trackRec struct {
	At  int64
	Vb  uint16
	Off ckTuple
}

type fakeConsumer struct {
	mu      sync.Mutex
	events  []*delivered
	tracks  []trackRec
	onEvent func(d *delivered) // called inside ConsumeEvent (may block)
}

func offTuple(o *models.Offset) ckTuple {
	t := ckTuple{UUID: uint64(o.VbUUID), Seq: o.SeqNo}
	if o.SnapshotMarker != nil {
		t.Start, t.End = o.StartSeqNo, o.EndSeqNo
	}
	return t
}

func (c *fakeConsumer) ConsumeEvent(ctx *models.ListenerContext) {
	d := &delivered{At: tick(), Ctx: ctx, Event: ctx.Event}
	switch e := ctx.Event.(type) {
	case models.DcpMutation:
		d.Vb, d.Kind, d.Seq, d.Off = e.VbID, "mutation", e.SeqNo, offTuple(e.Offset)
	case models.DcpDeletion:
		d.Vb, d.Kind, d.Seq, d.Off = e.VbID, "deletion", e.SeqNo, offTuple(e.Offset)
	case models.DcpExpiration:
		d.Vb, d.Kind, d.Seq, d.Off = e.VbID, "expiration", e.SeqNo, offTuple(e.Offset)
	default:
		d.Kind = fmt.Sprintf("%T", e)
	}
	c.mu.Lock()
	c.events = append(c.events, d)
	on := c.onEvent
	c.mu.Unlock()
	if on != nil {
		on(d)
	}
}

func (c *fakeConsumer) TrackOffset(vb uint16, o *models.Offset) {
	c.mu.Lock()
	c.tracks = append(c.tracks, trackRec{At: tick(), Vb: vb, Off: offTuple(o)})
	c.mu.Unlock()
}

func (c *fakeConsumer) count() int {
	c.mu.Lock()
	defer c.mu.Unlock()
	return len(c.events)
}

func (c *fakeConsumer) snapshot() []*delivered {
	c.mu.Lock()
	defer c.mu.Unlock()
	return append([]*delivered(nil), c.events...)
}

func (c *fakeConsumer) trackLog() []trackRec {
	c.mu.Lock()
	defer c.mu.Unlock()
	return append([]trackRec(nil), c.tracks...)
}

// ---------- fake discovery / event handler ----------

type fakeDiscovery struct {
	mu     sync.Mutex
	ids    []uint16
	gets   int
	closed int
	metric stream.VBucketDiscoveryMetric
}

func (d *fakeDiscovery) Get() []uint16 {
	d.mu.Lock()
	defer d.mu.Unlock()
	d.gets++
	d.metric.VBucketRangeStart, d.metric.VBucketRangeEnd = d.ids[0], d.ids[len(d.ids)-1]
	return append([]uint16(nil), d.ids...)
}
func (d *fakeDiscovery) Close() { d.mu.Lock(); d.closed++; d.mu.Unlock() }
func (d *fakeDiscovery) GetMetric() *stream.VBucketDiscoveryMetric {
	return &d.metric
}
func (d *fakeDiscovery) set(lo, hi uint16) {
	ids := make([]uint16, 0, hi-lo+1)
	for v := lo; ; v++ {
		ids = append(ids, v)
		if v == hi {
			break
		}
	}
	d.mu.Lock()
	d.ids = ids
	d.mu.Unlock()
}

type cbRec struct {
	At    int64
	T     time.Time
	Name  string
	Leave int64 // logical clock when the callback returned (0: it has not)
}

type fakeHandler struct {
	mu    sync.Mutex
	log   []cbRec
	hooks map[string]func()        // optional: run inside the named callback (once)
	slow  map[string]time.Duration // optional: the application's handler of that name takes this long (every time)
}

func (h *fakeHandler) add(n string) {
	h.mu.Lock()
	h.log = append(h.log, cbRec{At: tick(), T: time.Now(), Name: n})
	idx := len(h.log) - 1
	f := h.hooks[n]
	delete(h.hooks, n)
	d := h.slow[n]
	h.mu.Unlock()
	if f != nil {
		f()
	}
	if d > 0 {
		time.Sleep(d)
	}
	h.mu.Lock()
	if idx < len(h.log) && h.log[idx].Name == n { // (a unit may have cleared the log meanwhile)
		h.log[idx].Leave = tick()
	}
	h.mu.Unlock()
}

// overlap reports the first callback that was entered while the one emitted before it had not returned ("" if none):
// the lifecycle callbacks of one stream are a bracketed sequence, not concurrent notifications
func (h *fakeHandler) overlap(from int) string {
	h.mu.Lock()
	defer h.mu.Unlock()
	for i := from + 1; i < len(h.log); i++ {
		if p := h.log[i-1]; p.Leave == 0 || p.Leave > h.log[i].At {
			return fmt.Sprintf("%s was emitted while the application's %s handler (emitted before it) had not returned", h.log[i].Name, p.Name)
		}
	}
	return ""
}

func (h *fakeHandler) hook(name string, f func()) {
	h.mu.Lock()
	if h.hooks == nil {
		h.hooks = map[string]func(){}
	}
	h.hooks[name] = f
	h.mu.Unlock()
}
func (h *fakeHandler) BeforeRebalanceStart() { h.add("BRS") }
func (h *fakeHandler) AfterRebalanceStart()  { h.add("ARS") }
func (h *fakeHandler) BeforeRebalanceEnd()   { h.add("BRE") }
func (h *fakeHandler) AfterRebalanceEnd()    { h.add("ARE") }
func (h *fakeHandler) BeforeStreamStart()    { h.add("BSStart") }
func (h *fakeHandler) AfterStreamStart()     { h.add("ASStart") }
func (h *fakeHandler) BeforeStreamStop()     { h.add("BSStop") }
func (h *fakeHandler) AfterStreamStop()      { h.add("ASStop") }
func (h *fakeHandler) names() []string {
	h.mu.Lock()
	defer h.mu.Unlock()
	out := make([]string, len(h.log))
	for i, r := range h.log {
		out[i] = r.Name
	}
	return out
}

// ---------- configuration helper ----------

func laConfig() *config.Dcp {
	cfg := &config.Dcp{BucketName: "b"}
	cfg.Dcp.Group.Name = "g"
	cfg.Dcp.Group.Membership.Type = membership.StaticMembershipType
	cfg.Dcp.Group.Membership.RebalanceDelay = 5 * time.Millisecond
	cfg.Checkpoint.Type = "manual"
	cfg.Metadata.Type = "couchbase"
	cfg.ApplyDefaults()
	cfg.RollbackMitigation.Disabled = true
	cfg.HealthCheck.Disabled = true
	cfg.API.Disabled = true
	return cfg
}

type offT = models.Offset
