package props

// C13 (component level): a background activity that is stopped right after it was started - before its goroutine had
// a chance to run - must stay stopped. Close() directly after Open() on a busy machine is exactly this; at the
// component's own API the order "Start(); Stop()" with nothing in between produces it practically every time.
// (Found by the thorough tier of TestC13_Shutdown under load: findings C13_schedule_started_after_stop,
// C13_mitigation_started_after_stop; repaired by the fix: commits listed in known_findings.json.)

import (
	"encoding/json"
	"fmt"
	"os"
	"runtime"
	"strings"
	"testing"
	"time"

	"github.com/Trendyol/go-dcp/couchbase"
	"github.com/Trendyol/go-dcp/models"
	"github.com/Trendyol/go-dcp/stream"
	"github.com/Trendyol/go-dcp/stream/offset"
	"github.com/Trendyol/go-dcp/tracing"
	"github.com/couchbase/gocbcore/v10"
)

type c13SS struct {
	Component string `json:"component"` // checkpoint | mitigation
	Rounds    int    `json:"rounds"`
}

func libraryGoroutines(marker string) []string {
	buf := make([]byte, 8<<20)
	buf = buf[:runtime.Stack(buf, true)]
	var out []string
	for _, g := range strings.Split(string(buf), "\n\n") {
		if strings.Contains(g, marker) && !strings.Contains(g, "verif/props.c13SSChild") {
			for _, l := range strings.Split(g, "\n") {
				if strings.Contains(l, marker) {
					out = append(out, strings.TrimSpace(l))
					break
				}
			}
		}
	}
	return out
}

func c13SSChild(raw json.RawMessage) any {
	var sc c13SS
	_ = json.Unmarshal(raw, &sc)
	res := map[string]any{}
	switch sc.Component {
	case "checkpoint":
		cfg := laConfig()
		cl := newFakeClient(4)
		fm := newFakeMeta()
		disc := &fakeDiscovery{}
		disc.set(0, 3)
		cons := &fakeConsumer{onEvent: func(d *delivered) { d.Ctx.Ack() }}
		st := stream.NewStream(cl, fm, cfg, &couchbase.Version{Major: 7}, &couchbase.BucketInfo{BucketType: "membase"},
			disc, cons, map[uint32]string{}, make(chan struct{}, 1), &fakeHandler{}, tracing.NewTracerComponent())
		st.Open() // manual checkpointing: the stream's own checkpoint object has no schedule
		auto := *cfg
		auto.Checkpoint.Type = "auto"
		auto.Checkpoint.Interval = time.Millisecond
		for i := 0; i < sc.Rounds; i++ {
			cp := stream.NewCheckpoint(st, []uint16{0, 1, 2, 3}, cl, fm, &auto, offset.NewOffsetLatestSeqNoInit(&auto))
			cp.StartSchedule()
			cp.StopSchedule()
		}
		time.Sleep(40 * time.Millisecond)
		// something to save, if anybody is still saving
		o := cl.observer(0)
		o.SnapshotMarker(models.DcpSnapshotMarker{VbID: 0, StartSeqNo: 1, EndSeqNo: 1})
		o.Mutation(gocbcore.DcpMutation{SeqNo: 1, VbID: 0, Key: []byte("k"), Cas: 1})
		n0 := fm.callCount()
		time.Sleep(60 * time.Millisecond)
		res["activity"] = fm.callCount() - n0
		res["leftover"] = libraryGoroutines("StartSchedule")
	case "mitigation":
		lb := newLBFresh(1, 8, 0)
		cfg := lbConfig()
		cfg.RollbackMitigation.Disabled = false
		cfg.RollbackMitigation.Interval = 2 * time.Millisecond
		cfg.RollbackMitigation.ConfigWatchInterval = 3 * time.Millisecond
		cfg.ConnectionTimeout = 5 * time.Second
		for i := 0; i < sc.Rounds; i++ {
			rm := couchbase.NewRollbackMitigation(lb.client, cfg, []uint16{0, 1, 2, 3}, func(*models.PersistSeqNo) {})
			rm.Start()
			rm.Stop()
		}
		time.Sleep(60 * time.Millisecond)
		n0 := 0
		for _, en := range lb.c.Log() {
			if en.Cmd == cmdObserveSeqNo {
				n0++
			}
		}
		time.Sleep(80 * time.Millisecond)
		n1 := 0
		for _, en := range lb.c.Log() {
			if en.Cmd == cmdObserveSeqNo {
				n1++
			}
		}
		res["activity"] = n1 - n0
		res["leftover"] = libraryGoroutines("rollbackMitigation")
	}
	return res
}

func c13ExecSS(sc c13SS) string {
	r := runChild("c13ss", sc, 60*time.Second)
	if r.TimeOut {
		return fmt.Sprintf("%s: Start();Stop() x%d did not finish (Stop hung?)", sc.Component, sc.Rounds)
	}
	if r.Exit != 0 {
		return fmt.Sprintf("%s: the process crashed in Start();Stop() (exit %d): %s", sc.Component, r.Exit, firstLine(r.Stderr))
	}
	var res struct {
		Activity int      `json:"activity"`
		Leftover []string `json:"leftover"`
	}
	if err := json.Unmarshal(r.Result, &res); err != nil {
		return "HARNESS: no result from the child: " + r.Stdout
	}
	if len(res.Leftover) > 0 {
		return fmt.Sprintf("%s: stopped directly after it was started, yet %d of its goroutines are still alive after a quiet window (%s)", sc.Component, len(res.Leftover), res.Leftover[0])
	}
	if res.Activity > 0 {
		return fmt.Sprintf("%s: stopped directly after it was started, yet it acted %d times in the quiet window afterwards", sc.Component, res.Activity)
	}
	return ""
}

func TestC13_StartStop(t *testing.T) {
	scs := []c13SS{{Component: "checkpoint", Rounds: scale(20, 200)}, {Component: "mitigation", Rounds: scale(5, 40)}}
	for _, sc := range scs {
		if d := c13ExecSS(sc); d != "" {
			if strings.HasPrefix(d, "HARNESS") {
				t.Fatalf("%s", d)
			}
			violation(t, "C13", "c13ss", sc, "%s", d)
		}
		record("C13", sc, true, "start_stop_cases")
	}
}

func init() {
	registerChild("c13ss", c13SSChild)
	registerReplay("c13ss", func(raw json.RawMessage) string {
		var sc c13SS
		if err := json.Unmarshal(raw, &sc); err != nil {
			return err.Error()
		}
		return c13ExecSS(sc)
	})
}

// the committed replays of the repaired shutdown defects: a regression is a violation
func TestC13_Fixed(t *testing.T) {
	for _, f := range []string{"findings/C13_schedule_started_after_stop.json", "findings/C13_mitigation_started_after_stop.json", "findings/C13_monitor_round_inflight_at_close.json", "findings/C13_serial_close_after_stream_end.json", "findings/C13_serial_close_leftover_token.json"} {
		if d := runReplayFile(verifRoot() + "/" + f); d != "" {
			var rf replayFile
			b, _ := os.ReadFile(verifRoot() + "/" + f)
			_ = json.Unmarshal(b, &rf)
			violation(t, "C13", rf.Unit, rf.Scenario, "regression of a repaired defect (%s): %s", f, d)
		}
		record("C13", f, false, "fixed_replay")
	}
}
