package props

// C15 — start-up fails fast instead of running on an inconsistent or partial basis (DESIGN §5 C15).
// Every case runs the real dcp.Start() (via the VerifNewDcp hook, Layer-A fakes) in a child process:
// the guards fire as panics on library goroutines, so process death is the observable.

import (
	"encoding/json"
	"fmt"
	"os"
	"path/filepath"
	"strconv"
	"strings"
	"sync"
	"sync/atomic"
	"testing"
	"time"

	godcp "github.com/Trendyol/go-dcp"
	"github.com/Trendyol/go-dcp/couchbase"
	"github.com/Trendyol/go-dcp/helpers"
	"github.com/Trendyol/go-dcp/membership"
	"github.com/Trendyol/go-dcp/models"
	"github.com/couchbase/gocbcore/v10"
	"pgregory.net/rapid"
)

type c15Scenario struct {
	NumVb      int    `json:"numvb"`
	Total      int    `json:"total"`
	Member     int    `json:"member"`
	Reset      string `json:"reset"`       // earliest | latest
	Rel        []int  `json:"rel"`         // per assigned vBucket (cyclic): 9 = no document; else stored seq - high: -2,-1,0,+1,+5
	High       []int  `json:"high"`        // per assigned vBucket (cyclic): server high seqno
	MetaType   string `json:"meta_type"`   // "" = custom store injected; anything else = metadata.type with no store injected
	Membership string `json:"membership"`  // static | <unknown>
	LeaderType string `json:"leader_type"` // "" = leader election off; else leaderElection.type (enabled)
	LoadErr    bool   `json:"load_err"`
	SeqNoErr   bool   `json:"seqno_err"`
	FailoverEr []int  `json:"failover_err"` // vb indices whose failover-log query fails
	OpenErr    []int  `json:"open_err"`     // vb indices whose initial OpenStream fails
	ReopenFail bool   `json:"reopen_fail"`  // after start: a transient end whose re-open keeps failing (5 retries)
	LoadOmit   []int  `json:"load_omit"`    // vb indices missing from the dump the store returns (checkpoints written under another assignment)
	FileDump   string `json:"file_dump"`    // "" | partial | corrupt : real file backend with such a checkpoint file
	// EndDuringOpen k>0: while the start-up is requesting the k-th assigned vBucket, the server ends the (already open)
	// stream of the first one with a transient cause. EndReopenFails: the re-open of that vBucket keeps failing.
	// SeqOmit: vb indices the (successful) sequence-number query has no entry for
	SeqOmit        []int `json:"seq_omit,omitempty"`
	EndDuringOpen  int   `json:"end_during_open,omitempty"`
	EndReopenFails bool  `json:"end_reopen_fails,omitempty"`
	// RebalanceFault: the start-up is fault-free; later a membership change closes and reopens the stream, and at that reopen
	// the checkpoints ("load") or the sequence numbers ("seqno") cannot be loaded
	RebalanceFault string `json:"rebalance_fault,omitempty"`
	// RefusalKind (with reopen_fail / end_reopen_fails): what the refused re-requests fail with: 0 a plain error; 1.. an
	// error of one of the kinds that, as a stream END cause, would be transient (socket closed, state changed, too slow,
	// disconnected, backfill failed) - the node is still down: the retries are bounded all the same
	RefusalKind int `json:"refusal_kind,omitempty"`
}

// c15TypeFromFile: the type switch is written in a configuration file as a ${VAR} placeholder whose variable is not set in
// the environment (a deployment that forgot to export it). The file is read the way NewDcp(path, ...) reads it; what the type
// option holds afterwards (with the defaults applied) is what the start-up sees. A placeholder that is not replaced is not a
// known type.
func c15TypeFromFile(which, placeholder string) string {
	dir := os.Getenv("VERIF_WORK")
	if dir == "" {
		dir = os.TempDir()
	}
	path := filepath.Join(dir, fmt.Sprintf("c15cfg-%d-%d.yml", os.Getpid(), time.Now().UnixNano()))
	quoted := placeholder
	if strings.HasSuffix(placeholder, "Q") { // written with quotes in the file
		placeholder = strings.TrimSuffix(placeholder, "Q")
		quoted = "\"" + placeholder + "\""
	}
	yaml := "hosts:\n  - localhost:8091\nusername: u\npassword: p\nbucketName: b\ndcp:\n  group:\n    name: g\n"
	if which == "membership" {
		yaml += "    membership:\n      type: " + quoted + "\n      memberNumber: 1\n      totalMembers: 1\nmetadata:\n  type: couchbase\n"
	} else {
		yaml += "    membership:\n      type: static\nmetadata:\n  type: " + quoted + "\n"
	}
	_ = os.WriteFile(path, []byte(yaml), 0o644)
	defer os.Remove(path)
	loaded, err := godcp.VerifNewDcpConfig(path)
	if err != nil {
		panic(fmt.Sprintf("HARNESS: config file rejected: %v", err))
	}
	loaded.ApplyDefaults()
	if which == "membership" {
		return loaded.Dcp.Group.Membership.Type
	}
	return loaded.Metadata.Type
}

func (sc c15Scenario) rangeOf() (int, int) { return c16Range(sc.NumVb, sc.Total, sc.Member) }

// which fault (if any) must stop the start-up; "" = the session must start
func (sc c15Scenario) expectedFault() string {
	lo, hi := sc.rangeOf()
	n := hi - lo + 1
	if sc.MetaType != "" {
		return "invalid metadata type"
	}
	if sc.FileDump == "isdir" || sc.FileDump == "notdir" {
		return "directory" // "is a directory" / "not a directory": the checkpoint file cannot be read
	}
	partial := sc.FileDump != ""
	for _, o := range sc.LoadOmit {
		if o%n >= 0 {
			partial = true
		}
	}
	if sc.Membership != "static" {
		return "unknown membership"
	}
	if sc.LeaderType != "" {
		return "leader election type is not supported"
	}
	if sc.LoadErr {
		return "injected load failure"
	}
	if sc.SeqNoErr {
		return "injected seqno failure"
	}
	anyDoc := false
	for i := 0; i < n; i++ {
		if sc.Rel[i%len(sc.Rel)] != 9 {
			anyDoc = true
		}
	}
	if !anyDoc && sc.Reset == "latest" {
		for _, f := range sc.FailoverEr {
			if f%n >= 0 {
				return "injected failover failure"
			}
		}
	}
	for i := 0; i < n; i++ {
		if r := sc.Rel[i%len(sc.Rel)]; r != 9 && r > 0 {
			return "checkpoint seqNo bigger then vBucket latest seqNo"
		}
	}
	// a vBucket the sample says nothing about has, as far as the client knows, reached nothing: a stored position
	// above zero cannot be verified and must be refused like one above the high seqno
	for _, o := range sc.SeqOmit {
		i := o % n
		if r := sc.Rel[i%len(sc.Rel)]; r != 9 && sc.High[i%len(sc.High)]+r > 0 {
			return "checkpoint seqNo bigger then vBucket latest seqNo"
		}
	}
	if partial {
		return "not found on offset map"
	}
	if len(sc.OpenErr) > 0 {
		return "injected open failure"
	}
	return ""
}

func c15Child(raw json.RawMessage) any {
	var sc c15Scenario
	_ = json.Unmarshal(raw, &sc)
	lo, hi := sc.rangeOf()
	n := hi - lo + 1
	cfg := laConfig()
	cfg.Dcp.Group.Membership.Type = sc.Membership
	if strings.HasPrefix(sc.Membership, "${") {
		cfg.Dcp.Group.Membership.Type = c15TypeFromFile("membership", sc.Membership)
	}
	cfg.Dcp.Group.Membership.TotalMembers = sc.Total
	cfg.Dcp.Group.Membership.MemberNumber = sc.Member
	cfg.Checkpoint.AutoReset = sc.Reset
	if sc.LeaderType != "" {
		cfg.LeaderElection.Enabled = true
		cfg.LeaderElection.Type = sc.LeaderType
	}
	cl := newFakeClient(sc.NumVb)
	fm := newFakeMeta()
	high := map[uint16]uint64{}
	for i := 0; i < n; i++ {
		vb := uint16(lo + i)
		h := uint64(sc.High[i%len(sc.High)])
		high[vb] = h
		cl.setHigh(vb, h)
		if r := sc.Rel[i%len(sc.Rel)]; r != 9 {
			s := int64(h) + int64(r)
			if s < 0 {
				s = 0
			}
			fm.durable[vb] = ckTuple{UUID: uint64(cl.failoverOf(vb)[0].VbUUID), Seq: uint64(s), Start: uint64(s), End: uint64(s)}
		}
	}
	if sc.LoadErr {
		fm.loadErr = fmt.Errorf("injected load failure")
	}
	fm.loadOmit = map[uint16]bool{}
	for _, o := range sc.LoadOmit {
		fm.loadOmit[uint16(lo+o%n)] = true
	}
	if sc.FileDump != "" {
		dir := os.Getenv("VERIF_WORK") // removed by the driver after the run (a start-up that fail-stops never reaches the deferred Remove)
		if dir == "" {
			dir = os.TempDir()
		}
		path := filepath.Join(dir, fmt.Sprintf("c15-%d-%d.json", os.Getpid(), time.Now().UnixNano())) // (process ids come round again)
		_ = os.RemoveAll(path)
		defer os.Remove(path)
		content := "{\"0\": {\"checkpoint\": {\"vbuuid\": 1, \"seqno\": 0, \"snapshot\": {\"startSeqno\": 0, \"endSeqno\": 0}}, \"bucketUuid\": \"u\""
		if sc.FileDump == "partial" {
			// a valid file that covers only the first assigned vBucket (written under another membership)
			content = fmt.Sprintf("{\"%d\": {\"checkpoint\": {\"vbuuid\": %d, \"seqno\": 0, \"snapshot\": {\"startSeqno\": 0, \"endSeqno\": 0}}, \"bucketUuid\": \"u\"}}", lo, uint64(cl.failoverOf(uint16(lo))[0].VbUUID))
		}
		switch sc.FileDump {
		case "isdir": // e.g. a volume mounted at the file's name
			_ = os.Mkdir(path, 0o755)
			defer os.RemoveAll(path)
		case "notdir": // a component of the path is a regular file
			_ = os.WriteFile(path, []byte("x"), 0o644)
			path = filepath.Join(path, "checkpoint.json")
		default:
			_ = os.WriteFile(path, []byte(content), 0o644)
		}
		cfg.Metadata.Type = "file"
		cfg.Metadata.Config = map[string]string{"fileName": path}
	}
	if sc.SeqNoErr {
		cl.seqNoErr = fmt.Errorf("injected seqno failure")
	}
	cl.seqOmit = map[uint16]bool{}
	for _, o := range sc.SeqOmit {
		cl.seqOmit[uint16(lo+o%n)] = true
	}
	bad := map[uint16]bool{}
	for _, f := range sc.FailoverEr {
		bad[uint16(lo+f%n)] = true
	}
	cl.failoverErr = func(vb uint16) error {
		if bad[vb] {
			return fmt.Errorf("injected failover failure")
		}
		return nil
	}
	openBad := map[uint16]bool{}
	for _, f := range sc.OpenErr {
		openBad[uint16(lo+f%n)] = true
	}
	var started sync.WaitGroup
	var ready bool
	var mu sync.Mutex
	refusal := func() error {
		kinds := []error{nil, gocbcore.ErrSocketClosed, gocbcore.ErrDCPStreamStateChanged, gocbcore.ErrDCPStreamTooSlow, gocbcore.ErrDCPStreamDisconnected, gocbcore.ErrDCPBackfillFailed}
		if k := kinds[sc.RefusalKind%len(kinds)]; k != nil {
			return fmt.Errorf("injected open failure: %w", k)
		}
		return fmt.Errorf("injected open failure")
	}
	cl.openErr = func(vb uint16, nth int) error {
		mu.Lock()
		r := ready
		mu.Unlock()
		if openBad[vb] && nth == 0 {
			return fmt.Errorf("injected open failure")
		}
		if r && sc.ReopenFail {
			return refusal()
		}
		if sc.EndDuringOpen > 0 && sc.EndReopenFails && vb == uint16(lo) && nth >= 1 {
			return refusal()
		}
		return nil
	}
	var endOnce sync.Once
	var endInjected atomic.Bool
	cl.onOpen = func(vb uint16) {
		var start, snapS, snapE, uuid uint64
		for _, r := range cl.openLog() {
			if r.Vb == vb {
				start, snapS, snapE, uuid = r.Off.SeqNo, r.Snap.StartSeqNo, r.Snap.EndSeqNo, uint64(r.Off.VbUUID)
			}
		}
		mu.Lock()
		h := high[vb]
		mu.Unlock()
		fmt.Printf("OPEN %d %d %d %d %d %d\n", vb, start, h, snapS, snapE, uuid)
		if sc.EndDuringOpen > 0 && n >= 2 && vb == uint16(lo+1+(sc.EndDuringOpen-1)%(n-1)) {
			endOnce.Do(func() {
				// streams are requested concurrently: wait until the first vBucket's request has been answered
				var o couchbase.Observer
				for t0 := time.Now(); time.Since(t0) < 2*time.Second; time.Sleep(time.Millisecond) {
					if o = cl.observer(uint16(lo)); o != nil {
						break
					}
				}
				if o == nil {
					fmt.Println("END_SKIPPED")
					return
				}
				fmt.Println("END_DURING_OPEN")
				endInjected.Store(true)
				o.End(models.DcpStreamEnd{VbID: uint16(lo)}, gocbcore.ErrDCPStreamStateChanged)
			})
		}
	}
	cons := &fakeConsumer{onEvent: func(d *delivered) {
		fmt.Printf("CONSUME %d %d\n", d.Vb, d.Seq)
		d.Ctx.Ack()
	}}
	if sc.MetaType != "" {
		cfg.Metadata.Type = sc.MetaType
		if strings.HasPrefix(sc.MetaType, "${") {
			cfg.Metadata.Type = c15TypeFromFile("metadata", sc.MetaType)
		}
	}
	d := godcp.VerifNewDcp(cfg, cl, cons, &couchbase.Version{Major: 7, Minor: 6}, &couchbase.BucketInfo{BucketType: "membase"})
	if sc.MetaType == "" && sc.FileDump == "" {
		d.SetMetadata(fm)
	}
	started.Add(1)
	go func() {
		defer started.Done()
		d.Start()
	}()
	select {
	case <-d.WaitUntilReady():
		mu.Lock()
		ready = true
		mu.Unlock()
		fmt.Println("READY")
	case <-time.After(20 * time.Second):
		fmt.Println("NOT_READY")
		return map[string]any{"ready": false}
	}
	skip := map[uint16]bool{}
	if sc.EndDuringOpen > 0 && n >= 2 && endInjected.Load() {
		// the ended stream carries nothing more; its vBucket is covered again once it has been requested again
		deadline := time.Now().Add(8 * time.Second) // beyond the 5 re-open attempts
		for cl.openCountOf(uint16(lo)) < 2 && !deadlinePassed(deadline) {
			time.Sleep(5 * time.Millisecond)
		}
		if cl.openCountOf(uint16(lo)) < 2 {
			fmt.Println("NOT_REOPENED")
			skip[uint16(lo)] = true
		} else if sc.EndReopenFails {
			time.Sleep(8 * time.Second)
			fmt.Println("SURVIVED_REOPEN_FAILURE")
		}
	}
	// the session streams: one event per assigned vBucket
	for i := 0; i < n; i++ {
		vb := uint16(lo + i)
		if skip[vb] {
			continue
		}
		o := cl.observer(vb)
		var start uint64
		for _, r := range cl.openLog() {
			if r.Vb == vb {
				start = r.Off.SeqNo
			}
		}
		mu.Lock()
		if high[vb] < start+1 {
			high[vb] = start + 1 // the server has written one more document
		}
		mu.Unlock()
		o.SnapshotMarker(models.DcpSnapshotMarker{VbID: vb, StartSeqNo: start + 1, EndSeqNo: start + 1})
		o.Mutation(gocbcore.DcpMutation{SeqNo: start + 1, VbID: vb, Key: []byte("k"), Cas: 1})
	}
	if sc.RebalanceFault != "" {
		switch sc.RebalanceFault {
		case "load":
			fm.mu.Lock()
			fm.loadErr = fmt.Errorf("injected load failure")
			fm.mu.Unlock()
		case "seqno":
			cl.mu.Lock()
			cl.seqNoErr = fmt.Errorf("injected seqno failure")
			cl.mu.Unlock()
		}
		fmt.Println("REBALANCE_FAULT_INJECTED")
		godcp.VerifBus(d).Publish(helpers.MembershipChangedBusEventName, &membership.Model{MemberNumber: sc.Member, TotalMembers: sc.Total})
		time.Sleep(6 * time.Second) // the reopen follows the (5 ms) rebalance delay: the process must be gone by then
		fmt.Println("SURVIVED_REBALANCE_FAULT")
	}
	if sc.ReopenFail {
		cl.observer(uint16(lo)).End(models.DcpStreamEnd{VbID: uint16(lo)}, gocbcore.ErrDCPStreamStateChanged)
		time.Sleep(8 * time.Second) // 5 attempts, 1 s apart: the process must be gone by then
		fmt.Println("SURVIVED_REOPEN_FAILURE")
	}
	d.Close()
	done := make(chan struct{})
	go func() { started.Wait(); close(done) }()
	select {
	case <-done:
		fmt.Println("STOPPED")
	case <-time.After(20 * time.Second):
		fmt.Println("CLOSE_HUNG")
	}
	return map[string]any{"ready": true}
}

func c15Exec(sc c15Scenario) string {
	r := runChild("c15", sc, 90*time.Second)
	lo, hi := sc.rangeOf()
	n := hi - lo + 1
	want := sc.expectedFault()
	ready := strings.Contains(r.Stdout, "READY\n") && !strings.Contains(r.Stdout, "NOT_READY")
	opens := map[int][2]uint64{}
	consumed := 0
	for _, l := range strings.Split(r.Stdout, "\n") {
		f := strings.Fields(l)
		if len(f) == 7 && f[0] == "OPEN" {
			vb, _ := strconv.Atoi(f[1])
			st, _ := strconv.ParseUint(f[2], 10, 64)
			h, _ := strconv.ParseUint(f[3], 10, 64)
			if _, dup := opens[vb]; !dup {
				opens[vb] = [2]uint64{st, h}
			}
			if st > h {
				return fmt.Sprintf("vb %d: a stream was requested from seq %d, the server has only reached %d", vb, st, h)
			}
		}
		if len(f) == 3 && f[0] == "CONSUME" {
			consumed++
		}
	}
	if r.TimeOut {
		return "start-up neither failed nor finished (hang): " + strings.ReplaceAll(r.Stdout, "\n", " | ")
	}
	if want == "" && sc.EndDuringOpen > 0 && n >= 2 && strings.Contains(r.Stdout, "END_DURING_OPEN") {
		if sc.EndReopenFails {
			if strings.Contains(r.Stdout, "SURVIVED_REOPEN_FAILURE") || strings.Contains(r.Stdout, "NOT_REOPENED") || r.Exit == 0 {
				return "a stream ended during start-up and could not be re-opened, yet the client kept running on the rest of its assignment: " + strings.ReplaceAll(r.Stdout, "\n", " | ")
			}
			if !strings.Contains(r.Stderr, "injected open failure") {
				return "client died after the failing re-open, but not with the open error: " + firstLine(r.Stderr)
			}
			return ""
		}
		if strings.Contains(r.Stdout, "NOT_REOPENED") {
			return fmt.Sprintf("the stream of vb %d ended (transient cause) while the start-up was still requesting other vBuckets and was never requested again: the session runs on %d of its %d vBuckets", lo, n-1, n)
		}
		if !ready || r.Exit != 0 || consumed != n || !strings.Contains(r.Stdout, "STOPPED") {
			return fmt.Sprintf("start-up with a transient stream end in its middle: ready=%v exit=%d delivered %d of %d: %s %s", ready, r.Exit, consumed, n, firstLine(r.Stderr), strings.ReplaceAll(r.Stdout, "\n", " | "))
		}
		return ""
	}
	if want == "" && !sc.ReopenFail && sc.RebalanceFault == "" {
		// control group: the same configuration without a fault must start and cover its whole assignment
		if !ready || r.Exit != 0 {
			return fmt.Sprintf("CONTROL: fault-free start-up did not come up (exit %d): %s %s", r.Exit, firstLine(r.Stderr), strings.ReplaceAll(r.Stdout, "\n", " | "))
		}
		if len(opens) != n {
			return fmt.Sprintf("session started but only %d of the %d assigned vBuckets were requested", len(opens), n)
		}
		if consumed != n {
			return fmt.Sprintf("session started but %d of %d events were delivered", consumed, n)
		}
		if !strings.Contains(r.Stdout, "STOPPED") {
			return "Close() after a fault-free start did not stop the client"
		}
		return ""
	}
	if sc.RebalanceFault != "" && want == "" {
		if !strings.Contains(r.Stdout, "REBALANCE_FAULT_INJECTED") {
			return fmt.Sprintf("CONTROL: fault-free start-up did not come up (exit %d): %s %s", r.Exit, firstLine(r.Stderr), strings.ReplaceAll(r.Stdout, "\n", " | "))
		}
		if strings.Contains(r.Stdout, "SURVIVED_REBALANCE_FAULT") || r.Exit == 0 {
			return fmt.Sprintf("at the reopen of a rebalance the %s could not be loaded, yet the client kept running (it streams nothing of its assignment): %s", map[string]string{"load": "checkpoints", "seqno": "vBucket sequence numbers"}[sc.RebalanceFault], strings.ReplaceAll(r.Stdout[strings.Index(r.Stdout, "REBALANCE_FAULT_INJECTED"):], "\n", " | "))
		}
		if !strings.Contains(r.Stderr, "injected "+sc.RebalanceFault+" failure") {
			return "client died after the failing load at a rebalance, but not with the injected error: " + firstLine(r.Stderr)
		}
		return ""
	}
	if sc.ReopenFail && want == "" {
		if strings.Contains(r.Stdout, "SURVIVED_REOPEN_FAILURE") || r.Exit == 0 {
			return "a vBucket stream could not be re-opened in 5 attempts, yet the client kept running on the rest of its assignment"
		}
		if !strings.Contains(r.Stderr, "injected open failure") {
			return "client died after the failing re-open, but not with the open error: " + firstLine(r.Stderr)
		}
		return ""
	}
	// fault case: must terminate with the library's error, before readiness, without having delivered anything
	if ready {
		return fmt.Sprintf("start-up should fail (%s) but the client signalled readiness with %d of %d vBuckets requested", want, len(opens), n)
	}
	if r.Exit == 0 {
		return fmt.Sprintf("start-up should fail (%s) but the process did not terminate abnormally: %s", want, strings.ReplaceAll(r.Stdout, "\n", " | "))
	}
	if !strings.Contains(r.Stderr, want) {
		// the checkpoint-ahead guard fires on a goroutine of the map's Range while the opening goroutine carries on
		// with the offsets loaded so far; whichever of the two fail-stops is printed first, the start-up was refused
		if !(strings.HasPrefix(want, "checkpoint seqNo bigger") && strings.Contains(r.Stderr, "not found on offset map")) {
			return fmt.Sprintf("start-up failed, but not with %q: %s", want, firstLine(r.Stderr))
		}
	}
	if consumed != 0 {
		return fmt.Sprintf("%d events were delivered by a start-up that failed", consumed)
	}
	return ""
}

func c15Gen(rt *rapid.T) c15Scenario {
	sc := c15Scenario{NumVb: rapid.SampledFrom([]int{8, 16, 64}).Draw(rt, "numvb"), Membership: "static", Reset: rapid.SampledFrom([]string{"earliest", "latest"}).Draw(rt, "reset")}
	sc.Total = rapid.IntRange(1, 4).Draw(rt, "total")
	sc.Member = rapid.IntRange(1, sc.Total).Draw(rt, "member")
	lo, hi := sc.rangeOf()
	n := hi - lo + 1
	sc.High = rapid.SliceOfN(rapid.IntRange(0, 40), 1, 6).Draw(rt, "high")
	relGen := rapid.SampledFrom([]int{9, 9, -2, -1, 0, 0})
	kind := rapid.SampledFrom([]string{"control", "control", "above", "above", "load", "seqno", "failover", "open", "open", "membership", "metadata", "leader", "reopen", "multi", "partial_load", "partial_load", "file_dump", "end_during_open", "end_during_open", "end_during_open", "end_during_open", "end_during_open", "end_during_open", "seq_omit", "seq_omit", "file_dump", "file_dump", "rebalance_fault", "rebalance_fault"}).Draw(rt, "kind")
	if kind == "failover" {
		relGen = rapid.Just(9)
		sc.Reset = "latest"
	}
	sc.Rel = rapid.SliceOfN(relGen, 1, 6).Draw(rt, "rel")
	subset := func(label string) []int {
		return rapid.SliceOfNDistinct(rapid.IntRange(0, n-1), 1, n, func(i int) int { return i }).Draw(rt, label)
	}
	switch kind {
	case "above":
		i := rapid.IntRange(0, len(sc.Rel)-1).Draw(rt, "which")
		sc.Rel[i] = rapid.SampledFrom([]int{1, 1, 5}).Draw(rt, "over")
	case "load":
		sc.LoadErr = true
	case "seqno":
		sc.SeqNoErr = true
	case "failover":
		sc.FailoverEr = subset("fo")
	case "open":
		sc.OpenErr = subset("open")
	case "membership":
		sc.Membership = rapid.SampledFrom([]string{"", "Static", "couchbasee", "kubernetes", "dynamic ", "${VERIF_C15_UNSET_MEMBERSHIP}", "${VERIF_C15_UNSET_MEMBERSHIP}Q"}).Draw(rt, "mtype")
	case "metadata":
		sc.MetaType = rapid.SampledFrom([]string{"File", "redis", " couchbase", "x", "${VERIF_C15_UNSET_METADATA}", "${VERIF_C15_UNSET_METADATA}Q"}).Draw(rt, "metatype")
	case "leader":
		sc.LeaderType = rapid.SampledFrom([]string{"Kubernetes", "etcd", "x"}).Draw(rt, "ltype")
	case "seq_omit":
		sc.SeqOmit = subset("seqomit")
		for i := range sc.Rel {
			if sc.Rel[i] > 0 {
				sc.Rel[i] = 0
			}
		}
		sc.Reset = "earliest"
	case "reopen":
		sc.ReopenFail = true
		sc.RefusalKind = rapid.IntRange(0, 5).Draw(rt, "refusalkind")
	case "rebalance_fault":
		sc.RebalanceFault = rapid.SampledFrom([]string{"load", "seqno"}).Draw(rt, "rebfault")
		for i := range sc.Rel {
			if sc.Rel[i] > 0 {
				sc.Rel[i] = 0
			}
		}
	case "end_during_open":
		sc.EndDuringOpen = rapid.IntRange(1, 8).Draw(rt, "endat")
		sc.EndReopenFails = rapid.IntRange(0, 2).Draw(rt, "endfail") == 0
		sc.RefusalKind = rapid.IntRange(0, 5).Draw(rt, "refusalkind2")
		for i := range sc.Rel {
			if sc.Rel[i] > 0 {
				sc.Rel[i] = 0
			}
		}
	case "partial_load":
		if n >= 2 {
			sc.LoadOmit = rapid.SliceOfNDistinct(rapid.IntRange(0, n-1), 1, n-1, func(i int) int { return i }).Draw(rt, "omit")
		}
		for i := range sc.Rel {
			if sc.Rel[i] > 0 {
				sc.Rel[i] = 0
			}
		}
	case "file_dump":
		if n >= 2 {
			sc.FileDump = rapid.SampledFrom([]string{"partial", "corrupt", "isdir", "notdir"}).Draw(rt, "dump")
		}
		sc.Rel = []int{9}
	case "multi":
		sc.OpenErr = subset("open")
		sc.SeqNoErr = rapid.Bool().Draw(rt, "seq2")
		sc.FailoverEr = subset("fo")
	}
	return sc
}

func TestC15_FailFast(t *testing.T) {
	n := scale(96, 1600)
	_, nsh := shard()
	var scs []c15Scenario
	rapid.Check(t, func(rt *rapid.T) {
		if len(scs) > 0 {
			return
		}
		for i := 0; i < (n+nsh-1)/nsh; i++ {
			scs = append(scs, c15Gen(rt))
		}
	})
	out := make([]string, len(scs))
	var wg sync.WaitGroup
	sem := make(chan struct{}, 12)
	for i := range scs {
		wg.Add(1)
		go func(i int) {
			defer wg.Done()
			sem <- struct{}{}
			defer func() { <-sem }()
			out[i] = c15Exec(scs[i])
		}(i)
	}
	wg.Wait()
	for i, d := range out {
		sc := scs[i]
		if strings.HasPrefix(d, "CONTROL:") {
			// the control group is a vacuity guard, not part of the property: report as infrastructure trouble
			t.Fatalf("control group did not start - harness or unrelated regression: %s (scenario %+v)", d, sc)
		}
		if d != "" {
			violation(t, "C15", "c15", sc, "%s", d)
		}
		lo, hi := sc.rangeOf()
		want := sc.expectedFault()
		lab := "fault_" + strings.ReplaceAll(want, " ", "_")
		if want == "" {
			lab = "control_group_started"
			if sc.ReopenFail {
				lab = "fault_reopen_exhausted"
			}
			if sc.RebalanceFault != "" {
				lab = "fault_load_at_rebalance"
			}
			if sc.EndDuringOpen > 0 && hi-lo+1 >= 2 {
				lab = "end_during_open_reopened"
				if sc.EndReopenFails {
					lab = "fault_end_during_open_reopen_exhausted"
				}
			}
		}
		partial := (len(sc.OpenErr) > 0 && len(sc.OpenErr) < hi-lo+1) || (len(sc.FailoverEr) > 0 && len(sc.FailoverEr) < hi-lo+1)
		record("C15", sc, (want != "" || sc.ReopenFail || sc.EndDuringOpen > 0 || sc.RebalanceFault != "") && (partial || hi-lo+1 >= 2), lab, "cases")
	}
}

func init() {
	registerChild("c15", c15Child)
	registerReplay("c15", func(raw json.RawMessage) string {
		var sc c15Scenario
		if err := json.Unmarshal(raw, &sc); err != nil {
			return err.Error()
		}
		return c15Exec(sc)
	})
}
