package props

import (
	"encoding/json"

	"pgregory.net/rapid"
)

// weights of the op kinds of a generated history (intent-encoded: every op is valid in every state)
type hWeights struct {
	deliver, ack, ackidx, save, savefail, savebegin, saveend, crash, rebalance, ackold, end, scrape, savequeue, failover int
	absorbed                                                                                                             int // percentage of deliveries that are non-document / internal-key events
	outside                                                                                                              int // per-mille of deliveries placed outside their snapshot (C06)
	reopenFail                                                                                                           int // per-mille of transient ends whose first reopen attempt is refused
	maxVb, minOps, maxOps                                                                                                int
	transientOnly                                                                                                        bool // stream ends are generated with transient causes only (the history goes on)
}

var absorbedKinds = []string{"cc", "cd", "cf", "sc", "sd", "cm", "adv", "adv", "ikey", "txn"}
var endCauseNames = []string{"socket", "backfill", "state", "slow", "disconnected", "socket", "backfill", "state", "slow", "disconnected",
	"socket_wrapped", "state_wrapped", "closed", "filter_empty", "lost_privileges", "generic", "ok", "ok"}
var docKinds = []string{"mut", "mut", "mut", "del", "exp"}

func genHistory(t *rapid.T, w hWeights) hScenario {
	sc := hScenario{}
	sc.NumVb = rapid.SampledFrom([]int{8, 16, 64}).Draw(t, "numvb")
	mv := w.maxVb
	if mv > sc.NumVb {
		mv = sc.NumVb
	}
	nvb := rapid.IntRange(1, mv).Draw(t, "nvb")
	sc.Lo = rapid.IntRange(0, sc.NumVb-nvb).Draw(t, "lo")
	sc.Hi = sc.Lo + nvb - 1
	var kinds []string
	add := func(k string, n int) {
		for i := 0; i < n; i++ {
			kinds = append(kinds, k)
		}
	}
	add("deliver", w.deliver)
	add("ack", w.ack)
	add("ackidx", w.ackidx)
	add("save", w.save)
	add("savefail", w.savefail)
	add("savebegin", w.savebegin)
	add("saveend", w.saveend)
	add("crash", w.crash)
	add("rebalance", w.rebalance)
	add("ackold", w.ackold)
	add("end", w.end)
	add("scrape", w.scrape)
	add("savequeue", w.savequeue)
	add("failover", w.failover)
	opGen := rapid.Custom(func(t *rapid.T) hOp {
		k := rapid.SampledFrom(kinds).Draw(t, "op")
		op := hOp{Op: k}
		switch k {
		case "deliver":
			op.Vb = rapid.IntRange(0, nvb-1).Draw(t, "vb")
			if rapid.IntRange(0, 99).Draw(t, "abs") < w.absorbed {
				op.Kind = rapid.SampledFrom(absorbedKinds).Draw(t, "akind")
			} else {
				op.Kind = rapid.SampledFrom(docKinds).Draw(t, "dkind")
			}
			op.Gap = rapid.SampledFrom([]int{0, 0, 0, 1, 2}).Draw(t, "gap")
			op.Snap = rapid.SampledFrom([]int{0, 0, 1, 2, 3}).Draw(t, "snap")
			op.AtL = rapid.IntRange(0, 4).Draw(t, "atl") == 4
			if w.outside > 0 && rapid.IntRange(0, 999).Draw(t, "out") >= 1000-w.outside {
				op.Out = true
			}
		case "ack":
			op.Vb = rapid.IntRange(0, nvb-1).Draw(t, "vb")
			op.N = rapid.SampledFrom([]int{1, 1, 2, 3, 8}).Draw(t, "n")
		case "ackidx":
			op.Vb = rapid.IntRange(0, nvb-1).Draw(t, "vb")
			op.N = rapid.IntRange(0, 30).Draw(t, "i")
		case "savefail":
			op.Op, op.Fail = "save", true
			op.Gap = rapid.IntRange(0, 3).Draw(t, "errkind")
			op.N = rapid.IntRange(0, nvb).Draw(t, "writes")
			op.Ord = []int{rapid.IntRange(0, 7).Draw(t, "o1"), rapid.IntRange(0, 7).Draw(t, "o2")}
		case "saveend":
			op.Fail = rapid.IntRange(0, 2).Draw(t, "fail") == 2
			op.Gap = rapid.IntRange(0, 3).Draw(t, "errkind")
			op.N = rapid.IntRange(0, nvb).Draw(t, "writes")
			op.Ord = []int{rapid.IntRange(0, 7).Draw(t, "o1"), rapid.IntRange(0, 7).Draw(t, "o2")}
		case "crash":
			op.N = rapid.IntRange(0, nvb).Draw(t, "writes")
			op.Ord = []int{rapid.IntRange(0, 7).Draw(t, "o1"), rapid.IntRange(0, 7).Draw(t, "o2")}
		case "rebalance":
			// new range: near the old one, so that some old vBuckets stay inside and some fall outside
			op.N = sc.Lo + rapid.IntRange(-2, 3).Draw(t, "newlo")
			op.Gap = rapid.IntRange(0, 3).Draw(t, "size")
			op.Fail = rapid.Bool().Draw(t, "ackWhileClosed")
			op.AtL = rapid.Bool().Draw(t, "scrapeWhileClosed")
			op.Snap = rapid.IntRange(0, 9).Draw(t, "which")
		case "ackold":
			op.N = rapid.IntRange(0, 63).Draw(t, "i")
		case "failover":
			op.Vb = rapid.IntRange(0, nvb-1).Draw(t, "vb")
		case "end":
			op.Vb = rapid.IntRange(0, nvb-1).Draw(t, "vb")
			if w.transientOnly {
				op.Kind = rapid.SampledFrom(endCauseNames[:5]).Draw(t, "cause")
			} else {
				op.Kind = rapid.SampledFrom(endCauseNames).Draw(t, "cause")
			}
			op.Fail = w.reopenFail > 0 && rapid.IntRange(0, 999).Draw(t, "refuse") >= 1000-w.reopenFail
			if op.Fail {
				op.Gap = rapid.IntRange(0, 1).Draw(t, "ackinpause")
			}
		}
		return op
	})
	// lengths: rapid's slices are short by default (mean ~ min+5), so a history is a drawn number of
	// chunks; the chunk count is drawn first, so shrinking it only drops trailing ops
	if rapid.IntRange(0, 4).Draw(t, "docbucket") == 0 {
		sc.DocBucket = "5f0d7e2b9a4c41c08e3b6f1a2d9c7e55"
	}
	nChunks := rapid.IntRange(1, (w.maxOps+5)/6).Draw(t, "chunks")
	for c := 0; c < nChunks && len(sc.Ops) < w.maxOps; c++ {
		sc.Ops = append(sc.Ops, rapid.SliceOfN(opGen, 1, 12).Draw(t, "ops")...)
	}
	return sc
}

func labelList(m map[string]bool) []string {
	var l []string
	for k, v := range m {
		if v {
			l = append(l, k)
		}
	}
	return l
}

func histReplayer(excludeF1 func() bool, oracles ...string) func(raw json.RawMessage) string {
	return func(raw json.RawMessage) string {
		var sc hScenario
		if err := json.Unmarshal(raw, &sc); err != nil {
			return "bad scenario: " + err.Error()
		}
		v, _, _ := runHistory(&sc, excludeF1(), oracles...)
		if v != nil {
			return v.Prop + ": " + v.Detail
		}
		return ""
	}
}
