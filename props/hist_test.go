package props

// History engine on Layer A: interprets a generated op-list (deliveries, acknowledgements, saves,
// in-flight saves, crashes, restarts) against the REAL stream + checkpoint + observers and against
// a reference model of "settled position per vBucket". Oracles of C01, C04, C05, C06 are evaluated
// after every step; each property's check enables its own oracle set.

import (
	"context"
	"fmt"
	"os"
	"path/filepath"
	"runtime/debug"
	"sort"
	"sync"
	"sync/atomic"
	"time"

	"github.com/Trendyol/go-dcp/config"
	"github.com/Trendyol/go-dcp/couchbase"
	"github.com/Trendyol/go-dcp/metadata"
	"github.com/Trendyol/go-dcp/models"
	"github.com/Trendyol/go-dcp/stream"
	"github.com/Trendyol/go-dcp/tracing"
	"github.com/couchbase/gocbcore/v10"
)

// ---------- scenario ----------

type hOp struct {
	Op    string `json:"op"`              // deliver | ack | ackidx | save | savebegin | saveend | crash | close
	Vb    int    `json:"vb,omitempty"`    // index into the assigned range
	Kind  string `json:"kind,omitempty"`  // deliver: mut del exp cc cd cf sc sd cm adv ikey txn
	Gap   int    `json:"gap,omitempty"`   // deliver: seq = last+1+gap (fresh events)
	Snap  int    `json:"snap,omitempty"`  // deliver: extra room when a new snapshot is announced
	AtL   bool   `json:"atl,omitempty"`   // deliver: new marker starts at the last sent seqno instead of last+1
	Out   bool   `json:"out,omitempty"`   // deliver: (C06) event placed outside its announced snapshot
	N     int    `json:"n,omitempty"`     // ack: up to N pending events; ackidx: index; saveend/crash: writes applied
	Fail  bool   `json:"fail,omitempty"`  // save / saveend: the store rejects
	Ord   []int  `json:"ord,omitempty"`   // saveend / crash: per-vBucket write order seed
	Panic bool   `json:"panic,omitempty"` // deliver (document events): the consumer's listener panics on this event (a poison document) before acknowledging it
	Old   bool   `json:"old,omitempty"`   // deliver (with skipUntil configured): a document whose CAS is old (a restored / replicated document keeps its CAS): it lies before skipUntil although newer events were sent before it
	Torn  int    `json:"torn,omitempty"`  // crash on the file backend: the process dies inside a save's file write, leaving 1: an empty file, 2: half of the content, 3: a prefix chosen by N
}

type hScenario struct {
	NumVb       int        `json:"numvb"`
	Lo          int        `json:"lo"`
	Hi          int        `json:"hi"`
	Ops         []hOp      `json:"ops"`
	Finite      bool       `json:"finite,omitempty"`
	Reset       string     `json:"reset,omitempty"`        // checkpoint.autoReset
	SkipAt      int        `json:"skip_at,omitempty"`      // >0: dcp.listener.skipUntil = event time of seqno SkipAt (earlier document events are dropped)
	MetaBucket  string     `json:"meta_bucket,omitempty"`  // metadata.config.bucket (couchbase metadata placed in another bucket)
	EndOnClose  bool       `json:"end_on_close,omitempty"` // the server confirms every CloseStream with STREAM_END(closed), as a real node does
	CancelEnd   string     `json:"cancel_end,omitempty"`   // C12: the history ends with a shutdown by cancel during which the server ends one stream with this transient cause
	PreFailover int        `json:"pre_failover,omitempty"` // every vBucket failed over this many times before the first session (older branches in its failover log)
	Pre         [][]string `json:"pre,omitempty"`          // per assigned vBucket (index): kinds of the events the server already holds when the first session opens
	KeepF1      bool       `json:"keep_f1,omitempty"`      // do not exclude the known finding F1 by construction (units whose oracle is not C01's)
	File        bool       `json:"file,omitempty"`         // real file metadata backend (whole-state writes) instead of the per-vBucket fake
	DocBucket   string     `json:"doc_bucket,omitempty"`   // the stored checkpoint documents carry this bucketUuid instead of the streamed bucket's current one (written against an earlier incarnation of the bucket; the library resumes from what is stored all the same)
	FileAll     bool       `json:"file_all,omitempty"`     // (file backend) the file exists already and lists EVERY vBucket of the bucket (written while this instance was the only member)
}

// ---------- server model (survives restarts) ----------

type srvEvent struct {
	Seq  uint64
	Kind string
	Key  string
	Old  bool // the document's CAS lies far in the past
}

type srvVb struct {
	hist []srvEvent
}

// ---------- per-session model ----------

type mev struct {
	ev        srvEvent
	tuple     ckTuple // the event's own position: (uuid, seq, announced snapshot)
	delivered *delivered
	acked     bool
	absorbed  bool
	settledAt int  // step index at which it was settled (-1 = not)
	markerNo  int  // number of markers announced on the vBucket when the event was sent
	skipped   bool // dropped by skipUntil
}

type mvb struct {
	lost      []uint64 // (C01) document events the server sent on this session's stream that the consumer was never shown
	vb        uint16
	endBound  uint64 // the end of the range requested when the session opened this vBucket (open end, or the high seqno sampled in finite mode)
	resume    ckTuple
	sentIdx   int // next index in srv.hist to send
	lastSent  uint64
	snap      [2]uint64
	snapValid bool
	all       []*mev  // every event fed in this session, in order
	docs      []*mev  // those delivered to the consumer
	pending   []*mev  // delivered, not acknowledged (delivery order)
	settled   []*mev  // in settlement order
	consumed  int     // consumer events of this vb already matched
	maxSettle uint64  // max(resume, settled seqs)
	maxTuple  ckTuple // the position (4-tuple) of that event
	dAdvanced bool    // position advanced by an ack or a non-document stream event (C05's D)
	dSeq      uint64  // furthest such position
	tuples    map[ckTuple]bool
	dead      bool
	markers   int
	ended     bool // finally ended (no reopen follows)
	reopens   int
	uuid      uint64 // branch of the open stream (first failover entry at the time of the request)
	dirtyGen  int    // incremented whenever an acknowledgement / non-document event advances the vBucket
	savedGen  int    // dirtyGen covered by the last successful save
}

type hViolation struct {
	Prop   string
	Detail string
}

type session struct {
	inStartHook    bool // deliveries are being made from inside AfterStreamStart of a rebalance
	sc             *hScenario
	cfg            *config.Dcp
	cl             *fakeClient
	meta           *fakeMeta
	cons           *fakeConsumer
	disc           *fakeDiscovery
	discI          stream.VBucketDiscovery     // optional: a real discovery object instead of the fake (C16)
	metaI          metadata.Metadata           // optional: a real backend (file) instead of the fake store
	saved          map[uint16]ckTuple          // file backend model: what the last save wrote (whole state)
	prevLo, prevHi int                         // the range in effect before the rebalance in progress
	ever           map[uint16]map[ckTuple]bool // every event / start position of a vBucket, across sessions
	failedOver     map[uint16]bool
	nFailover      int
	sessions       int
	fpath          string
	hand           *fakeHandler
	st             stream.Stream
	stopCh         chan struct{}
	srv            map[uint16]*srvVb
	vbs            map[uint16]*mvb
	step           int
	// in-flight save
	saveDone       chan struct{}
	inflight       *saveCall
	saveBeginStep  int
	genAtSave      map[uint16]int
	settledAtStore map[uint16]int    // len(settled) per vb when the store call of the current save was entered
	settledAtSave  map[uint16]int    // len(settled) per vb when the current/last save call began
	dAtSave        map[uint16]uint64 // D(v) when the save began (0,false if not advanced)
	dAdvAtSave     map[uint16]bool
	cleanSince     bool // nothing settled since the dump of the last successful save
	labels         map[string]bool
	oracles        map[string]bool
	viol           *hViolation
	excludeF1      bool
	excluded       int
	sessionNo      int
	trackSeen      int
	trackBase      int
	lo, hi         int      // currently assigned range
	old            []*oldEv // events of earlier sessions of this stream object (before a rebalance)
	stopped        bool
	torn           bool                      // the checkpoint file was left torn by a crash inside a save
	queued         *queuedSave               // a second Save() issued while one is in flight (waits for the save lock)
	onRebalance    func(op hOp) (lo, hi int) // C16: announce a new membership through the real discovery
	rebalances     int
	scrapeClosed   func()
}

type queuedSave struct {
	done       chan struct{}
	settledAt  map[uint16]int
	dAt        map[uint16]uint64
	dAdvAt     map[uint16]bool
	genAt      map[uint16]int
	cleanAtBeg bool
}

type oldEv struct {
	vb uint16
	ev *mev
}

func (s *session) fail(prop, format string, a ...any) {
	if s.viol == nil && s.oracles[prop] {
		s.viol = &hViolation{Prop: prop, Detail: fmt.Sprintf("step %d: ", s.step) + fmt.Sprintf(format, a...)}
	}
}

func (s *session) label(l string) { s.labels[l] = true }

func newSession(sc *hScenario, oracles ...string) *session {
	s := &session{sc: sc, srv: map[uint16]*srvVb{}, labels: map[string]bool{}, oracles: map[string]bool{}, ever: map[uint16]map[ckTuple]bool{}, failedOver: map[uint16]bool{}}
	for _, o := range oracles {
		s.oracles[o] = true
	}
	s.cfg = laConfig()
	if sc.Finite {
		s.cfg.Dcp.Mode = config.DcpModeFinite
	}
	if sc.Reset != "" {
		s.cfg.Checkpoint.AutoReset = sc.Reset
	}
	if sc.SkipAt > 0 {
		t := time.Unix(int64(1700000000+sc.SkipAt), 0)
		s.cfg.Dcp.Listener.SkipUntil = &t
	}
	if sc.MetaBucket != "" {
		// the connector's documents are configured to live in another bucket than the streamed one (the store itself is
		// the injected one): other groups' documents and transaction records in the streamed bucket are reserved all the same
		s.cfg.Metadata.Config = map[string]string{"bucket": sc.MetaBucket}
	}
	s.cl = newFakeClient(sc.NumVb)
	s.cl.endOnClose = sc.EndOnClose
	s.meta = newFakeMeta()
	s.meta.docBucket = sc.DocBucket
	if sc.DocBucket != "" {
		s.label("stored_documents_carry_another_bucket_uuid")
	}
	for v := 0; v < sc.NumVb; v++ {
		s.srv[uint16(v)] = &srvVb{}
	}
	for i, kinds := range sc.Pre {
		if vb := sc.Lo + i; vb <= sc.Hi {
			for j, k := range kinds {
				seq := uint64(j + 1)
				s.srv[uint16(vb)].hist = append(s.srv[uint16(vb)].hist, srvEvent{Seq: seq, Kind: k, Key: keyFor(k, uint16(vb), seq)})
			}
		}
	}
	for v := 0; v < sc.NumVb && sc.PreFailover > 0; v++ {
		var fl []gocbcore.FailoverEntry
		for j := sc.PreFailover; j >= 0; j-- { // newest first; the oldest branch starts at 0
			fl = append(fl, gocbcore.FailoverEntry{VbUUID: gocbcore.VbUUID(0xe0000000 + uint64(j)<<16 + uint64(v)), SeqNo: 0})
		}
		s.cl.failover[uint16(v)] = fl
	}
	s.lo, s.hi = sc.Lo, sc.Hi
	s.meta.onWrite = s.onDurableWrite
	if sc.File {
		dir := os.Getenv("VERIF_WORK")
		if dir == "" {
			dir = os.TempDir()
		}
		// (process ids come round again: a child that died on its torn file leaves the file behind)
		s.fpath = filepath.Join(dir, fmt.Sprintf("hist-%d-%d-%d.json", os.Getpid(), tick(), time.Now().UnixNano()))
		_ = os.Remove(s.fpath)
		s.cfg.Metadata.Type = "file"
		s.cfg.Metadata.Config = map[string]string{"fileName": s.fpath}
		s.metaI = metadata.NewFSMetadata(s.cfg)
		s.saved = map[uint16]ckTuple{}
		if sc.FileAll {
			all := map[uint16]*models.CheckpointDocument{}
			for v := 0; v < sc.NumVb; v++ {
				t := ckTuple{UUID: uint64(s.cl.failoverOf(uint16(v))[0].VbUUID)}
				all[uint16(v)] = c02DocOf(t, "u")
				s.saved[uint16(v)] = t
			}
			_ = s.metaI.Save(all, nil, "u")
		}
	}
	return s
}

// open starts a (new) stream session on the same durable store and server history.
func (s *session) open() {
	s.openDeferred()
	s.openNow()
}

// openDeferred builds the stream object without opening it; openNow opens it and derives the model.
func (s *session) openDeferred() {
	s.sessionNo++
	s.cons = &fakeConsumer{}
	s.disc = &fakeDiscovery{}
	s.disc.set(uint16(s.lo), uint16(s.hi))
	s.hand = &fakeHandler{}
	s.stopCh = make(chan struct{}, 1)
	s.trackSeen, s.trackBase = 0, 0
	// the server's high seqno = last event it holds
	for vb, sv := range s.srv {
		h := uint64(0)
		if n := len(sv.hist); n > 0 {
			h = sv.hist[n-1].Seq
		}
		s.cl.setHigh(vb, h)
	}
	var disc stream.VBucketDiscovery = s.disc
	if s.discI != nil {
		disc = s.discI
	}
	var md metadata.Metadata = s.meta
	if s.metaI != nil {
		md = s.metaI
	}
	s.st = stream.NewStream(s.cl, md, s.cfg, &couchbase.Version{Major: 7, Minor: 6}, &couchbase.BucketInfo{BucketType: "membase"},
		disc, s.cons, map[uint32]string{}, s.stopCh, s.hand, tracing.NewTracerComponent())
}

func (s *session) openNow() {
	nOpens := len(s.cl.openLog())
	s.st.Open()
	s.buildModel(nOpens)
	s.sessions++
	s.settledAtSave = map[uint16]int{}
	s.genAtSave = map[uint16]int{}
}

// checkResumeUntorn (C06): a stream requested from a stored checkpoint must be requested from a position that IS some
// event's own 4-tuple (or a start position of an earlier session) - not a mixture such as one branch's vbUUID with another
// branch's seqno and snapshot. Without a stored checkpoint the start position is C02's / C15's business.
func (s *session) checkResumeUntorn(m *mvb) {
	if s.ever[m.vb] == nil {
		s.ever[m.vb] = map[ckTuple]bool{}
	}
	_, stored := s.meta.snapshot()[m.vb]
	if s.metaI != nil {
		_, stored = s.saved[m.vb]
	}
	if stored && s.sessions > 0 {
		if s.failedOver[m.vb] {
			s.label("reload_after_failover")
		}
		if !s.ever[m.vb][m.resume] {
			s.fail("C06", "vb %d: stream requested from %+v, which is not the position of any event or start of this vBucket (a mixture of two positions / branches)", m.vb, m.resume)
		}
	}
	s.ever[m.vb][m.resume] = true
}

// buildModel derives the per-vBucket model of a fresh session from the OpenStream calls it made.
func (s *session) buildModel(nOpens int) {
	s.vbs = map[uint16]*mvb{}
	s.cleanSince = true
	for _, o := range s.cl.openLog()[nOpens:] {
		m := &mvb{vb: o.Vb, tuples: map[ckTuple]bool{}}
		m.resume = ckTuple{UUID: uint64(o.Off.VbUUID), Seq: o.Off.SeqNo, Start: o.Snap.StartSeqNo, End: o.Snap.EndSeqNo}
		m.endBound = o.Off.LatestSeqNo
		m.maxSettle = m.resume.Seq
		m.maxTuple = m.resume
		m.lastSent = m.resume.Seq
		m.tuples[m.resume] = true
		m.uuid = o.UUID
		s.checkResumeUntorn(m)
		if m.resume.Seq != 0 && m.resume.UUID != o.UUID {
			if _, stored := s.meta.snapshot()[o.Vb]; !stored && s.metaI == nil {
				// no stored checkpoint, start at the current high seqno (auto-reset latest): that position lies on the branch
				// the vBucket is on now
				s.fail("C06", "vb %d: first request from seq %d (current high seqno, no stored checkpoint) carries vbUUID %x, the vBucket's current history branch is %x: a mixture of two branches", o.Vb, m.resume.Seq, m.resume.UUID, o.UUID)
			}
		}
		if s.metaI != nil {
			if want := s.saved[o.Vb]; m.resume != want && !s.torn {
				s.fail("C02", "vb %d: session opened at %+v, the checkpoint last persisted through the file backend is %+v", o.Vb, m.resume, want)
			}
			if len(s.saved) > 0 {
				s.label("file_reload_checked")
			}
		}
		sv := s.srv[o.Vb]
		m.sentIdx = sort.Search(len(sv.hist), func(i int) bool { return sv.hist[i].Seq > m.resume.Seq })
		_, stored := s.meta.snapshot()[o.Vb]
		if s.metaI != nil {
			_, stored = s.saved[o.Vb]
		}
		if !stored && m.resume.Seq != 0 {
			m.savedGen = -1 // auto-reset "latest" flags the initial position for saving
			s.cleanSince = false
		}
		s.vbs[o.Vb] = m
	}
}

func (s *session) vbOf(idx int) *mvb {
	n := s.hi - s.lo + 1
	return s.vbs[uint16(s.lo+((idx%n)+n)%n)]
}

var endCauses = map[string]error{
	"socket": gocbcore.ErrSocketClosed, "backfill": gocbcore.ErrDCPBackfillFailed, "state": gocbcore.ErrDCPStreamStateChanged,
	"slow": gocbcore.ErrDCPStreamTooSlow, "disconnected": gocbcore.ErrDCPStreamDisconnected,
	"socket_wrapped":  fmt.Errorf("read failed: %w", gocbcore.ErrSocketClosed),
	"state_wrapped":   fmt.Errorf("ended: %w", gocbcore.ErrDCPStreamStateChanged),
	"closed":          gocbcore.ErrDCPStreamClosed,
	"filter_empty":    gocbcore.ErrDCPStreamFilterEmpty,
	"lost_privileges": fmt.Errorf("lost privileges"),
	"generic":         fmt.Errorf("some other failure"),
	"ok":              nil,
}

// classification written from the property statement (errors.Is against the five transient causes)
func transientCause(k string) bool {
	switch k {
	case "socket", "backfill", "state", "slow", "disconnected", "socket_wrapped", "state_wrapped":
		return true
	}
	return false
}

func stopChClosed(ch chan struct{}) bool {
	select {
	case <-ch:
		return true
	default:
		return false
	}
}

// end (C12): the server ends the vBucket stream with the given cause.
func (s *session) end(op hOp) {
	m := s.vbOf(op.Vb)
	if m == nil || m.ended || s.stopped {
		return
	}
	cause, known := endCauses[op.Kind]
	if !known {
		return
	}
	o := s.cl.observer(m.vb)
	nOpens := len(s.cl.openLog())
	fails := 0
	if op.Fail && transientCause(op.Kind) {
		// the first reopen attempt is refused; the library retries after its (hard-coded) one second
		fails = 1
		first := true
		s.cl.mu.Lock()
		s.cl.openErr = func(vb uint16, _ int) error {
			if vb == m.vb && first {
				first = false
				return fmt.Errorf("injected open failure")
			}
			return nil
		}
		s.cl.mu.Unlock()
		s.label("reopen_refused_once")
	}
	s.cl.mu.Lock()
	delete(s.cl.live, m.vb) // the node has no stream for it any more (a later close request is answered without an end notification)
	s.cl.mu.Unlock()
	o.End(models.DcpStreamEnd{VbID: m.vb}, cause)
	if transientCause(op.Kind) {
		s.label("end_transient")
		if m.markers > 0 && len(m.all) > 0 {
			s.label("end_transient_after_events")
		}
		// exactly one successful reopen, from the latest settled position
		pauseChecked := false
		deadline := time.Now().Add(time.Duration(fails)*1200*time.Millisecond + 10*time.Second)
		for {
			ok := 0
			for _, r := range s.cl.openLog()[nOpens:] {
				if r.Vb == m.vb && r.Err == "" {
					ok++
				}
			}
			if ok >= 1 {
				break
			}
			if fails > 0 && !pauseChecked && s.oracles["C12"] {
				refused := false
				for _, r := range s.cl.openLog()[nOpens:] {
					refused = refused || (r.Vb == m.vb && r.Err != "")
				}
				if refused {
					// inside the library's retry pause: the vBucket has ended with a transient cause only - it still counts as an
					// active stream, and the client keeps running even if every OTHER vBucket ends for good meanwhile
					pauseChecked = true
					s.label("checked_inside_reopen_retry_pause")
					total, ended := 0, 0
					for _, x := range s.vbs {
						total++
						if x.ended {
							ended++
						}
					}
					if _, active := s.st.GetMetric(); int(active) != total-ended {
						s.fail("C12", "vb %d waits for the retry of its refused re-request (transient end): active-stream count %d, but %d of %d assigned vBuckets have not finally ended", m.vb, active, total-ended, total)
						return
					}
					if op.Gap%2 == 1 && len(m.pending) > 0 {
						// a batching consumer acknowledges, during the pause, events it was shown before the end: the retry
						// re-requests from the position settled THEN
						s.ack(hOp{Op: "ack", Vb: int(m.vb) - s.lo, N: 8})
						if s.viol != nil {
							return
						}
						s.label("acknowledged_inside_reopen_retry_pause")
					}
					if op.Snap%4 == 0 && total-ended >= 2 {
						for vb2, x := range s.vbs {
							if vb2 != m.vb && !x.ended {
								x.ended, x.dead = true, true
								s.cl.serverEnd(vb2, nil)
							}
						}
						time.Sleep(2 * time.Millisecond)
						if stopChClosed(s.stopCh) {
							s.fail("C12", "the client stopped although vb %d has only ended with a transient cause (it waits for the retry of its refused re-request; every other vBucket ended for good meanwhile)", m.vb)
							s.stopped = true
							return
						}
						s.label("others_ended_inside_reopen_retry_pause")
					}
				}
			}
			if deadlinePassed(deadline) {
				s.fail("C12", "vb %d: stream ended with transient cause %q but was not reopened", m.vb, op.Kind)
				return
			}
			time.Sleep(200 * time.Microsecond)
		}
		s.cl.mu.Lock()
		s.cl.openErr = nil
		s.cl.mu.Unlock()
		var rec *openRec
		n := 0
		for _, r := range s.cl.openLog()[nOpens:] {
			r := r
			if r.Vb != m.vb {
				s.fail("C12", "end of vb %d caused an OpenStream for vb %d", m.vb, r.Vb)
			} else if r.Err == "" {
				rec = &r
				n++
			}
		}
		if n != 1 {
			s.fail("C12", "vb %d: %d reopen requests after one transient end", m.vb, n)
		}
		if rec != nil {
			got := ckTuple{UUID: uint64(rec.Off.VbUUID), Seq: rec.Off.SeqNo, Start: rec.Snap.StartSeqNo, End: rec.Snap.EndSeqNo}
			if got.Seq != m.maxSettle {
				s.fail("C12", "vb %d: reopened from seq %d, latest settled position is %d", m.vb, got.Seq, m.maxSettle)
			} else if !m.tuples[got] {
				s.fail("C12", "vb %d: reopened from %+v which is not the position of any settled event", m.vb, got)
			}
			if !m.tuples[got] {
				s.fail("C06", "vb %d: stream re-requested from %+v, which is not the position of any event of this vBucket (a mixture of two positions / branches)", m.vb, got)
			}
			if rec.Off.LatestSeqNo != m.endBound {
				s.fail("C12", "vb %d: after a transient end the stream was re-requested up to seq %d, the session streams this vBucket up to %d: it does not keep being streamed (the server ends a stream that has reached its requested end for good)", m.vb, rec.Off.LatestSeqNo, m.endBound)
			}
			if s.failedOver[m.vb] {
				s.label("reopen_after_failover")
			}
			// the server resumes after the requested position: everything above it is sent again
			sv := s.srv[m.vb]
			m.sentIdx = sort.Search(len(sv.hist), func(i int) bool { return sv.hist[i].Seq > got.Seq })
			m.lastSent = got.Seq
			m.snapValid = false
			m.uuid = rec.UUID
			s.ever[m.vb][got] = s.ever[m.vb][got] || m.tuples[got]
			m.reopens++
			if m.reopens >= 2 {
				s.label("vb_ended_twice")
			}
		}
	} else {
		s.label("end_final")
		m.ended = true
		m.dead = true
		if m.reopens > 0 {
			s.label("vb_ended_twice")
		}
		time.Sleep(300 * time.Microsecond) // a wrong reopen would be issued from a goroutine
		for _, r := range s.cl.openLog()[nOpens:] {
			s.fail("C12", "vb %d: final end cause %q but OpenStream(vb %d) followed", m.vb, op.Kind, r.Vb)
		}
	}
	s.checkActive()
}

// checkActive: active-stream count == assigned - finally ended; the client stops iff all ended.
// cancelShutdown (C12): the client is shut down (Close / signal). While the shutdown closes the streams the server ends the
// stream of another vBucket with a transient cause (the connection dies under a pending close request): the client is no
// longer running, the end is final - the vBucket is not requested again and no stream counts as active afterwards.
func (s *session) cancelShutdown() {
	var live []uint16
	for vb, m := range s.vbs {
		if !m.ended && !m.dead {
			live = append(live, vb)
		}
	}
	sort.Slice(live, func(i, j int) bool { return live[i] < live[j] })
	if len(live) < 2 {
		return
	}
	n0 := len(s.cl.openLog())
	var once sync.Once
	var hit atomic.Bool
	var victim atomic.Int32
	s.cl.mu.Lock()
	s.cl.onClose = func(vb uint16) {
		once.Do(func() {
			for _, o := range live {
				if o != vb && s.cl.serverEndUnlessClosing(o, endCauses[s.sc.CancelEnd]) {
					victim.Store(int32(o))
					hit.Store(true)
					break
				}
			}
		})
	}
	s.cl.mu.Unlock()
	ok, pv := within(20*time.Second, func() { s.st.Close(true) })
	s.cl.mu.Lock()
	s.cl.onClose = nil
	s.cl.mu.Unlock()
	if !ok || pv != nil {
		s.fail("C12", "shutdown with a stream ending (%s) meanwhile: Close returned=%v panic=%v", s.sc.CancelEnd, ok, pv)
		return
	}
	if !hit.Load() {
		return
	}
	s.label("transient_end_during_shutdown")
	for dl := time.Now().Add(40 * time.Millisecond); !deadlinePassed(dl) && len(s.cl.openLog()) == n0; {
		time.Sleep(500 * time.Microsecond)
	}
	if opens := s.cl.openLog()[n0:]; len(opens) > 0 {
		s.fail("C12", "vb %d: its stream ended with a transient cause (%s) while the client was being shut down and was requested again (%d request(s)): the client is no longer running, every end is final - a stream stays open on the server after the shutdown", opens[0].Vb, s.sc.CancelEnd, len(opens))
		return
	}
	// streams closed by the shutdown leave the count only when the server confirms the close with an end notification
	want := len(live) - 1
	if s.sc.EndOnClose {
		want = 0
	}
	if _, active := s.st.GetMetric(); int(active) != want {
		s.fail("C12", "active-stream count %d after the shutdown, want %d (%d streams were open, one ended with a transient cause, %s, during the shutdown; closes confirmed by the server: %v)", active, want, len(live), s.sc.CancelEnd, s.sc.EndOnClose)
	}
}

func (s *session) checkActive() {
	total, ended := 0, 0
	for _, m := range s.vbs {
		total++
		if m.ended {
			ended++
		}
	}
	_, active := s.st.GetMetric()
	if int(active) != total-ended {
		s.fail("C12", "active-stream count %d, but %d of %d assigned vBuckets have not finally ended", active, total-ended, total)
	}
	if ended == total {
		deadline := time.Now().Add(10 * time.Second)
		for !stopChClosed(s.stopCh) {
			if deadlinePassed(deadline) {
				s.fail("C12", "every assigned vBucket stream has ended for good but the client did not stop")
				return
			}
			time.Sleep(200 * time.Microsecond)
		}
		s.stopped = true
		s.label("client_stopped")
	} else {
		time.Sleep(200 * time.Microsecond)
		if stopChClosed(s.stopCh) {
			s.fail("C12", "client stopped although %d of %d assigned vBucket streams are still active", total-ended, total)
			s.stopped = true
		}
	}
}

// rebalance: the member is told a new range; the real stream closes, waits the (1 ms) delay and reopens.
// Positions not saved before are forgotten by design (the stream reloads the stored checkpoints).
func (s *session) rebalance(op hOp) {
	if s.inflight != nil {
		return
	}
	size := 1 + ((op.Gap%4)+4)%4
	lo := ((op.N % s.sc.NumVb) + s.sc.NumVb) % s.sc.NumVb
	if lo+size > s.sc.NumVb {
		lo = s.sc.NumVb - size
	}
	for vb, m := range s.vbs {
		for _, ev := range m.docs {
			s.old = append(s.old, &oldEv{vb: vb, ev: ev})
		}
	}
	if len(s.old) > 64 {
		s.old = s.old[len(s.old)-64:]
	}
	s.prevLo, s.prevHi = s.lo, s.hi
	s.lo, s.hi = lo, lo+size-1
	if s.onRebalance != nil {
		s.lo, s.hi = s.onRebalance(op)
	}
	s.disc.set(uint16(s.lo), uint16(s.hi))
	for vb, sv := range s.srv {
		h := uint64(0)
		if n := len(sv.hist); n > 0 {
			h = sv.hist[n-1].Seq
		}
		s.cl.setHigh(vb, h)
	}
	nOpens := len(s.cl.openLog())
	are := 0
	for _, n := range s.hand.names() {
		if n == "ARE" {
			are++
		}
	}
	if op.Fail && len(s.old) > 0 {
		// an old context acknowledged while the stream is closed (inside AfterStreamStop, i.e. after the
		// close completed and before the reopen timer is armed): must not crash, nothing else asserted
		o := s.old[op.Snap%len(s.old)]
		s.hand.hook("ASStop", func() {
			func() {
				defer func() {
					if pv := recover(); pv != nil {
						s.fail("C04", "acknowledgement while the stream is closed inside a rebalance panicked: %v", pv)
					}
				}()
				o.ev.delivered.Ctx.Ack()
			}()
		})
		s.label("ack_while_closed")
	}
	if s.scrapeClosed != nil && op.AtL {
		// a scrape from inside one of the lifecycle callbacks of the rebalance: while the stream is closed (ARS, BRE),
		// in the tail of Close (ASStop: the observers are gone, the stream still calls itself open), at its head
		// (BSStop) or at the head of the reopen (BSStart)
		at := []string{"ARS", "ASStop", "BSStop", "BRE", "BSStart", "ASStop"}[((op.Snap%6)+6)%6]
		if !(at == "ASStop" && op.Fail && len(s.old) > 0) {
			s.hand.hook(at, s.scrapeClosed)
			s.label("scrape_inside_" + at)
		}
	}
	// C12: a transient stream end of a vBucket of the NEW session arriving while the rebalance is still completing (its
	// own request already answered, AfterStreamStart running): the vBucket has not ended for good
	// C11: while the rebalance closes the streams, the server ends one of them on its own for good (a finite stream that
	// reached its end, a dropped collection) - and that end is the last one counted: still a rebalance, the client goes on
	naturalEndNote := ""
	if s.oracles["C11"] && ((op.Snap%3)+3)%3 == 1 && len(s.vbs) >= 1 {
		var open []uint16
		for vb, m := range s.vbs {
			if !m.ended && !m.dead {
				open = append(open, vb)
			}
		}
		sort.Slice(open, func(i, j int) bool { return open[i] < open[j] })
		if len(open) >= 1 {
			victim := open[len(open)-1]
			cause := []error{nil, gocbcore.ErrDCPStreamFilterEmpty}[((op.N%2)+2)%2]
			var others atomic.Int32
			oldEnd := s.cl.endOnClose
			s.cl.mu.Lock()
			s.cl.endOnClose = true // every close is confirmed by an end notification (counted)
			s.cl.onClose = func(vb uint16) {
				if vb != victim {
					others.Add(1)
					return
				}
				// the victim's own close request waits until every other stream has been closed and confirmed, then the
				// server's end of the victim's stream arrives (its close request finds no stream any more)
				for dl := time.Now().Add(2 * time.Second); int(others.Load()) < len(open)-1 && !deadlinePassed(dl); {
					time.Sleep(100 * time.Microsecond)
				}
				time.Sleep(300 * time.Microsecond)
				s.cl.serverEnd(victim, cause)
			}
			s.cl.mu.Unlock()
			defer func() {
				s.cl.mu.Lock()
				s.cl.onClose = nil
				s.cl.endOnClose = oldEnd
				s.cl.mu.Unlock()
			}()
			naturalEndNote = fmt.Sprintf("; while it closed the streams the server ended vb %d's stream on its own (cause %v), counted last", victim, cause)
			s.label("natural_end_counted_last_during_rebalance_close")
		}
	}
	endedInRebalance := -1
	endProp := "C12"
	if s.oracles["C11"] {
		endProp = "C11"
	}
	if (s.oracles["C12"] || s.oracles["C11"]) && op.Snap%3 == 0 && !(s.scrapeClosed != nil && op.AtL) {
		vb := s.lo + ((op.Vb%(s.hi-s.lo+1))+(s.hi-s.lo+1))%(s.hi-s.lo+1)
		n0 := len(s.cl.openLog())
		s.hand.hook("ASStart", func() {
			opened := false
			for _, r := range s.cl.openLog()[n0:] {
				opened = opened || (int(r.Vb) == vb && r.Err == "")
			}
			if o := s.cl.observer(uint16(vb)); o != nil && opened {
				endedInRebalance = vb
				s.cl.serverEnd(uint16(vb), []error{gocbcore.ErrDCPStreamStateChanged, gocbcore.ErrSocketClosed, gocbcore.ErrDCPStreamTooSlow}[((op.N%3)+3)%3])
			}
		})
	}
	// C03: events the server sends on the re-requested streams while the rebalance is still completing (every request
	// answered, AfterStreamStart running) belong to the new session: delivered like any other
	builtInHook := false
	if (s.oracles["C01"] || s.oracles["C03"] || s.oracles["C04"] || (s.oracles["C05"] && s.metaI == nil && s.inflight == nil)) && !s.oracles["C12"] && op.Snap%3 != 2 && !(s.scrapeClosed != nil && op.AtL) {
		s.hand.hook("ASStart", func() {
			// the old session is closed: what the offset tracker is told from here on belongs to the new one
			s.trackSeen = len(s.cons.trackLog())
			s.trackBase = s.trackSeen
			s.buildModel(nOpens)
			builtInHook = true
			s.inStartHook = true
			defer func() { s.inStartHook = false }()
			for i, k := 0, 1+((op.Snap%3)+3)%3; i < k && s.viol == nil; i++ {
				s.deliver(hOp{Op: "deliver", Vb: op.Vb + i, Kind: []string{"mut", "mut", "adv"}[i%3], Snap: i})
				if (s.oracles["C04"] || s.oracles["C05"]) && s.viol == nil {
					// ... and settled right away: the position follows, as at any other time
					s.ack(hOp{Op: "ack", Vb: op.Vb + i, N: 1})
				}
			}
			if s.oracles["C05"] && s.viol == nil {
				// ... and committed (Dcp.Commit from AfterStreamStart): a save like any other
				s.save(hOp{Op: "save"})
				s.label("commit_inside_after_stream_start_of_rebalance")
			}
			s.label("delivered_while_rebalance_completes")
		})
	}
	// C05: an explicit save (Dcp.Commit) from inside BeforeStreamStop of the rebalance - the positions are still there
	if s.oracles["C05"] && s.metaI == nil && s.inflight == nil && op.Snap%2 == 0 {
		s.hand.hook("BSStop", func() {
			s.save(hOp{Op: "save"})
			s.label("commit_inside_before_stream_stop_of_rebalance")
		})
	}
	// C11: Dcp.Commit() (Stream.Save) from the application while the stream is closed for the rebalance - from the lifecycle
	// callbacks of the closed window: harmless (there is nothing to save), and in no case the end of the client
	if s.oracles["C11"] && ((op.Snap%2)+2)%2 == 1 && !(op.Fail && len(s.old) > 0) { // (not together with an old context acknowledged while closed: that one IS saved)
		name := []string{"ARS", "BRE", "BSStart"}[((op.N%3)+3)%3]
		s.hand.hook(name, func() {
			defer func() {
				if pv := recover(); pv != nil {
					if os.Getenv("VERIF_DEBUG_STACK") != "" {
						fmt.Fprintf(os.Stderr, "commit in closed window: panic %v\n%s\n", pv, debug.Stack())
					}
					s.fail("C11", "Commit() while the stream is closed for a rebalance (inside the %s callback) panicked: %v - in an application goroutine this ends the client", name, pv)
				}
			}()
			s.st.Save()
			s.label("commit_while_closed_for_rebalance")
		})
	}
	double := s.oracles["C16"] && ((op.N%3)+3)%3 == 0 && s.cfg.Dcp.Group.Membership.Type != "dynamic"
	oldDelay := s.cfg.Dcp.Group.Membership.RebalanceDelay
	if double {
		s.cfg.Dcp.Group.Membership.RebalanceDelay = 80 * time.Millisecond
	}
	tReb := time.Now()
	ok, pv := within(20*time.Second, func() { s.st.Rebalance() })
	if !ok || pv != nil {
		s.fail("C04", "Rebalance() did not return cleanly (returned=%v panic=%v)", ok, pv)
		return
	}
	if double {
		// a second membership notification while the reopen is still pending (the delay is 80 ms for this rebalance): it
		// pushes the pending reopen back and is coalesced into the same rebalance
		ok, pv := within(20*time.Second, func() { s.st.Rebalance() })
		late := time.Since(tReb) > 30*time.Millisecond
		s.cfg.Dcp.Group.Membership.RebalanceDelay = oldDelay
		if !ok || pv != nil {
			s.fail("C04", "second Rebalance() while the first is pending did not return cleanly (returned=%v panic=%v)", ok, pv)
			return
		}
		if late {
			// the harness was held up and may have missed the window: what follows would not be the history generated
			s.label("double_trigger_late_discarded")
			time.Sleep(500 * time.Millisecond)
			s.stopped = true
			return
		}
		s.label("rebalance_triggered_twice")
	}
	deadline := time.Now().Add(20 * time.Second)
	for {
		n := 0
		for _, x := range s.hand.names() {
			if x == "ARE" {
				n++
			}
		}
		if n > are {
			break
		}
		if s.oracles["C11"] && stopChClosed(s.stopCh) {
			s.fail("C11", "the rebalance terminated the client (stop signalled after %v, no reopen)%s", s.hand.names(), naturalEndNote)
			s.stopped = true
			return
		}
		if deadlinePassed(deadline) {
			s.fail("C04", "stream did not reopen after a rebalance")
			return
		}
		time.Sleep(200 * time.Microsecond)
	}
	if endedInRebalance >= 0 {
		s.label("transient_end_while_rebalance_completes")
		deadline := time.Now().Add(10 * time.Second)
		for {
			n := 0
			for _, r := range s.cl.openLog()[nOpens:] {
				if int(r.Vb) == endedInRebalance && r.Err == "" {
					n++
				}
			}
			if n >= 2 {
				break
			}
			if deadlinePassed(deadline) {
				s.fail(endProp, "vb %d: its stream ended with a transient cause while the rebalance was completing (after its own request had been answered) and was not requested again: the member does not stream its whole range (%d-%d) after the rebalance, it streams %s", endedInRebalance, s.lo, s.hi, s.cl.liveRange())
				return
			}
			time.Sleep(200 * time.Microsecond)
		}
	}
	if s.oracles["C11"] {
		// reopened on the vBucket range of the most recent membership information - all of it
		if got, want := s.cl.liveRange(), fmt.Sprintf("%d-%d", s.lo, s.hi); got != want {
			s.fail("C11", "after the rebalance the member streams vBuckets %s, the range of the most recent membership information is %s", got, want)
		}
		s.label("range_streamed_after_rebalance")
	}
	if !builtInHook {
		s.trackSeen = len(s.cons.trackLog())
		s.trackBase = s.trackSeen
		s.buildModel(nOpens)
	}
	if endedInRebalance >= 0 && s.oracles["C12"] {
		s.checkActive()
	}
	s.settledAtSave = map[uint16]int{}
	s.genAtSave = map[uint16]int{}
	s.rebalances++
	s.label("rebalance")
}

// ackold (C04): a context delivered before a rebalance is acknowledged now.
func (s *session) ackOld(op hOp) {
	if len(s.old) == 0 {
		return
	}
	o := s.old[((op.N%len(s.old))+len(s.old))%len(s.old)]
	m := s.vbs[o.vb]
	tracksBefore := len(s.cons.trackLog())
	var posBefore uint64
	hadBefore := false
	if offs0, _, _ := s.st.GetOffsets(); offs0 != nil {
		if off, ok := offs0.Load(o.vb); ok {
			posBefore, hadBefore = off.SeqNo, true
		}
	}
	if _, pv := within(5*time.Second, func() { o.ev.delivered.Ctx.Ack() }); pv != nil {
		s.fail("C04", "acknowledging an old-session event panicked: %v", pv)
		return
	}
	offs, dirty, _ := s.st.GetOffsets()
	if m == nil {
		s.label("ack_out_of_range")
		if len(s.cons.trackLog()) != tracksBefore {
			s.fail("C04", "acknowledgement for vb %d outside the assigned range %d-%d reached the offset tracker", o.vb, s.lo, s.hi)
		}
		if off, ok := offs.Load(o.vb); ok && !hadBefore {
			s.fail("C04", "acknowledgement for vb %d outside the assigned range %d-%d created a tracked offset", o.vb, s.lo, s.hi)
		} else if ok && off.SeqNo != posBefore {
			// (the whole-state file backend loads entries of vBuckets the member no longer owns: they may be there, but stay put)
			s.fail("C04", "acknowledgement for vb %d outside the assigned range %d-%d moved its (stale) tracked position %d -> %d", o.vb, s.lo, s.hi, posBefore, off.SeqNo)
		}
		if _, ok := dirty.Load(o.vb); ok {
			s.fail("C04", "acknowledgement for vb %d outside the assigned range %d-%d marked it for saving", o.vb, s.lo, s.hi)
		}
		return
	}
	s.label("ack_old_in_range")
	// in range: the event was settled by the consumer; the position is the furthest settled one
	ev := &mev{ev: o.ev.ev, tuple: o.ev.tuple, delivered: o.ev.delivered, settledAt: -1, acked: true}
	m.tuples[ev.tuple] = true
	s.cleanSince = false
	s.settle(m, ev, true)
	if off, ok := offs.Load(o.vb); !ok || off.SeqNo != m.maxSettle {
		got := uint64(0)
		if ok {
			got = off.SeqNo
		}
		s.fail("C04", "vb %d: tracked position %d after acknowledging old-session seq %d, furthest settled is %d", o.vb, got, ev.ev.Seq, m.maxSettle)
	}
	s.checkTracks()
}

func (s *session) uuidOf(vb uint16) uint64 {
	if m := s.vbs[vb]; m != nil && m.uuid != 0 {
		return m.uuid
	}
	return uint64(s.cl.failoverOf(vb)[0].VbUUID)
}

// failover: the server's failover log of a vBucket gets a new newest entry (a new history branch). The open stream
// stays on its branch; the next stream request of that vBucket is answered on the new one.
func (s *session) failover(op hOp) {
	m := s.vbOf(op.Vb)
	if m == nil {
		return
	}
	s.nFailover++
	s.cl.mu.Lock()
	old := s.cl.failoverOf(m.vb)
	s.cl.failover[m.vb] = append([]gocbcore.FailoverEntry{{VbUUID: gocbcore.VbUUID(0xf0000000 + uint64(s.nFailover)<<16 + uint64(m.vb)), SeqNo: gocbcore.SeqNo(m.lastSent)}}, old...)
	s.cl.mu.Unlock()
	s.failedOver[m.vb] = true
	s.label("failover")
}

func isDocKind(k string) bool {
	switch k {
	case "mut", "del", "exp", "ikey", "txn":
		return true
	}
	return false
}

// reserved-prefix keys are absorbed by the library
func isAbsorbedKind(k string) bool { return !isDocKind(k) || k == "ikey" || k == "txn" }

func keyFor(kind string, vb uint16, seq uint64) string {
	switch kind {
	case "ikey":
		return fmt.Sprintf("_connector:cbgo:g:checkpoint:%d", vb)
	case "txn":
		return fmt.Sprintf("_txn:atr-%d-%d", vb, seq)
	}
	return fmt.Sprintf("k%d-%d", vb, seq)
}

// internalForm: the DCP event type through which a library-internal / transaction key arrives (a third each; a
// heart-beat document, for instance, is written with a TTL and later expires). Deterministic in the seqno.
func internalForm(e srvEvent) string { return []string{"mut", "del", "exp"}[e.Seq%3] }

// feed hands one server event to the real observer exactly as gocbcore's read loop would.
func feedEvent(o couchbase.Observer, vb uint16, e srvEvent) {
	cas := uint64(1700000000+e.Seq) * 1_000_000_000
	if e.Old {
		cas = uint64(1600000000+e.Seq) * 1_000_000_000
	}
	kind := e.Kind
	if kind == "ikey" || kind == "txn" {
		kind = internalForm(e)
	}
	switch kind {
	case "mut":
		o.Mutation(gocbcore.DcpMutation{SeqNo: e.Seq, RevNo: e.Seq, Cas: cas, VbID: vb, Key: []byte(e.Key), Value: []byte(`{"v":1}`), Datatype: 1})
	case "del":
		o.Deletion(gocbcore.DcpDeletion{SeqNo: e.Seq, RevNo: e.Seq, Cas: cas, VbID: vb, Key: []byte(e.Key)})
	case "exp":
		o.Expiration(gocbcore.DcpExpiration{SeqNo: e.Seq, RevNo: e.Seq, Cas: cas, VbID: vb, Key: []byte(e.Key)})
	case "cc":
		o.CreateCollection(gocbcore.DcpCollectionCreation{SeqNo: e.Seq, VbID: vb, CollectionID: 8, Key: []byte("c")})
	case "cd":
		o.DeleteCollection(gocbcore.DcpCollectionDeletion{SeqNo: e.Seq, VbID: vb, CollectionID: 8})
	case "cf":
		o.FlushCollection(gocbcore.DcpCollectionFlush{SeqNo: e.Seq, VbID: vb, CollectionID: 8})
	case "sc":
		o.CreateScope(gocbcore.DcpScopeCreation{SeqNo: e.Seq, VbID: vb, ScopeID: 9, Key: []byte("s")})
	case "sd":
		o.DeleteScope(gocbcore.DcpScopeDeletion{SeqNo: e.Seq, VbID: vb, ScopeID: 9})
	case "cm":
		o.ModifyCollection(gocbcore.DcpCollectionModification{SeqNo: e.Seq, VbID: vb, CollectionID: 8})
	case "adv":
		o.SeqNoAdvanced(gocbcore.DcpSeqNoAdvanced{SeqNo: e.Seq, VbID: vb})
	default:
		panic("harness: unknown kind " + e.Kind)
	}
}

// deliver: next server event of the vBucket (backlog first, then a fresh one).
func (s *session) deliver(op hOp) {
	m := s.vbOf(op.Vb)
	if m == nil || m.dead {
		return
	}
	sv := s.srv[m.vb]
	var e srvEvent
	fresh := m.sentIdx >= len(sv.hist)
	if fresh && s.sc.Finite && len(s.sc.Pre) > 0 {
		return // finite mode: the stream was requested up to the high seqno sampled at open; the server sends nothing beyond
	}
	if fresh {
		kind := op.Kind
		if kind == "" {
			kind = "mut"
		}
		// known finding F1 excluded by construction: an absorbed event never overtakes an unacknowledged one
		if s.excludeF1 && isAbsorbedKind(kind) && len(m.pending) > 0 {
			kind = "mut"
			s.excluded++
		}
		seq := m.lastSent + 1 + uint64(op.Gap)
		e = srvEvent{Seq: seq, Kind: kind, Old: op.Old && s.cfg.Dcp.Listener.SkipUntil != nil && isDocKind(kind)}
		e.Key = keyFor(kind, m.vb, seq)
		sv.hist = append(sv.hist, e)
	} else {
		e = sv.hist[m.sentIdx]
		if s.excludeF1 && isAbsorbedKind(e.Kind) && len(m.pending) > 0 {
			s.excluded++
			return // cannot re-send it now; acks will unblock it
		}
		s.label("backlog_resent")
	}
	m.sentIdx++
	o := s.cl.observer(m.vb)
	// snapshot bookkeeping
	if e.Kind == "adv" {
		m.snap, m.snapValid = [2]uint64{e.Seq, e.Seq}, true
		s.label("seqno_advanced")
	} else if op.Out && fresh && s.oracles["C06"] {
		// invalid server: the event lies beyond the announced snapshot (or before any marker)
		s.label("outside_snapshot")
		// (after a reopen the observer object - and the last snapshot it was told - lives on: "outside" means beyond
		// every snapshot announced to it in this session)
		if op.AtL && m.snapValid && m.snap[0] >= 2 && len(m.all) > 0 {
			// a STALE event: it belongs to an older snapshot (its seqno lies below the start of the one announced last, at or
			// below what was sent before) - a server that sends it is as wrong as one that runs past the snapshot's end
			e.Seq = m.snap[0] - 1
			sv.hist[len(sv.hist)-1].Seq = e.Seq
			s.label("stale_event_below_snapshot")
		} else if (m.snapValid || m.markers > 0) && e.Seq <= m.snap[1] {
			e.Seq = m.snap[1] + 1 + uint64(op.Gap)
			sv.hist[len(sv.hist)-1].Seq = e.Seq
		}
		before := s.cons.count()
		var pv any
		func() {
			defer func() { pv = recover() }()
			feedEvent(o, m.vb, e)
		}()
		if s.cons.count() != before {
			s.fail("C06", "vb %d: event seq %d outside its announced snapshot %v was delivered", m.vb, e.Seq, m.snap)
		} else if pv == nil {
			s.fail("C06", "vb %d: event seq %d outside its announced snapshot %v neither delivered nor stopped the client", m.vb, e.Seq, m.snap)
		}
		// in production the panic on gocbcore's read loop stops the process: the session is over
		sv.hist = sv.hist[:len(sv.hist)-1]
		for _, x := range s.vbs {
			x.dead = true
		}
		return
	} else if !m.snapValid || e.Seq > m.snap[1] {
		start := m.lastSent + 1
		if op.AtL && m.lastSent > 0 {
			start = m.lastSent
		}
		if start > e.Seq {
			start = e.Seq
		}
		end := e.Seq + uint64(op.Snap)
		if !fresh { // a re-announced snapshot covers backlog up to a later stored event
			if j := m.sentIdx - 1 + op.Snap; j < len(sv.hist) {
				end = sv.hist[j].Seq
			} else {
				end = sv.hist[len(sv.hist)-1].Seq
			}
		}
		o.SnapshotMarker(models.DcpSnapshotMarker{VbID: m.vb, StartSeqNo: start, EndSeqNo: end})
		m.snap, m.snapValid = [2]uint64{start, end}, true
		m.markers++
		if len(m.all) > 0 {
			s.label("multi_snapshot")
		}
	}
	m.lastSent = e.Seq
	ev := &mev{ev: e, settledAt: -1, markerNo: m.markers}
	ev.tuple = ckTuple{UUID: s.uuidOf(m.vb), Seq: e.Seq, Start: m.snap[0], End: m.snap[1]}
	m.tuples[ev.tuple] = true
	s.ever[m.vb][ev.tuple] = true
	m.all = append(m.all, ev)
	before := s.cons.count()
	poison := op.Panic && fresh && isDocKind(e.Kind) && !isAbsorbedKind(e.Kind) && !s.beforeSkipUntil(e) && s.oracles["C01"]
	var listenerPanic any
	if poison {
		s.cons.mu.Lock()
		s.cons.onEvent = func(*delivered) { panic("listener: poison document") }
		s.cons.mu.Unlock()
		func() {
			defer func() { listenerPanic = recover() }()
			feedEvent(o, m.vb, e)
		}()
		s.cons.mu.Lock()
		s.cons.onEvent = nil
		s.cons.mu.Unlock()
		s.label("listener_panicked")
	} else {
		feedEvent(o, m.vb, e)
	}
	evs := s.cons.snapshot()
	if poison {
		// the consumer saw the event and never acknowledged it. Either the panic takes the process down (today), or the
		// library survives it - in no case is the event settled
		if len(evs) == before+1 {
			ev.delivered = evs[before]
			m.docs = append(m.docs, ev)
			m.pending = append(m.pending, ev)
		}
		if offs, _, _ := s.st.GetOffsets(); offs != nil {
			if off, ok := offs.Load(m.vb); ok && off.SeqNo >= e.Seq && m.maxSettle < e.Seq {
				s.fail("C01", "vb %d: the listener panicked on %s event seq %d before acknowledging it, yet the tracked position is %d: the library settled an event the consumer never acknowledged", m.vb, e.Kind, e.Seq, off.SeqNo)
				return
			}
		}
		if listenerPanic != nil {
			s.label("listener_panic_took_the_process_down")
			s.crash(hOp{Op: "crash"})
		}
		return
	}
	if isDocKind(e.Kind) && s.beforeSkipUntil(e) {
		// a document event (also one under a reserved key) older than skipUntil is dropped by the observer: not shown,
		// not counted, no position change
		if len(evs) != before {
			s.fail("C03", "vb %d: %s event seq %d lies before skipUntil but was delivered", m.vb, e.Kind, e.Seq)
		}
		ev.skipped = true
		s.label("dropped_before_skip_until")
		if e.Old {
			s.label("dropped_old_cas_after_newer_events")
		}
		// a dropped event is not settled: it does not move the tracked position
		if offs, _, _ := s.st.GetOffsets(); offs != nil {
			if off, ok := offs.Load(m.vb); ok && off.SeqNo != m.maxSettle {
				s.fail("C04", "vb %d: tracked position %d after %s event seq %d was dropped by the skipUntil filter; it was neither acknowledged nor absorbed, the furthest settled position is %d", m.vb, off.SeqNo, e.Kind, e.Seq, m.maxSettle)
			}
		}
	} else if isAbsorbedKind(e.Kind) {
		if len(evs) != before {
			s.fail("C14", "vb %d: %s event seq %d (key %q) reached the consumer", m.vb, e.Kind, e.Seq, e.Key)
		}
		ev.absorbed = true
		s.settle(m, ev, e.Kind != "ikey" && e.Kind != "txn")
		// absorbed events still advance the tracked position
		if offs, _, _ := s.st.GetOffsets(); offs != nil {
			if off, ok := offs.Load(m.vb); !ok || off.SeqNo != m.maxSettle {
				got := uint64(0)
				if ok {
					got = off.SeqNo
				}
				prop := "C04"
				if e.Kind == "ikey" || e.Kind == "txn" {
					prop = "C14"
				}
				s.fail(prop, "vb %d: tracked position %d after the library absorbed %s event seq %d, furthest settled is %d", m.vb, got, e.Kind, e.Seq, m.maxSettle)
			}
		}
		if len(m.pending) > 0 {
			s.label("absorb_overtakes_unacked")
		}
	} else {
		if len(evs) != before+1 {
			if s.inStartHook && s.oracles["C01"] && !s.oracles["C03"] && len(evs) == before {
				// (C01 histories) sent while the rebalance was completing and never shown: it is not settled - a durable
				// checkpoint at or beyond it has a restart skip it
				m.lost = append(m.lost, e.Seq)
				s.label("sent_while_rebalance_completes_never_shown")
				return
			}
			s.fail("C03", "vb %d: %s event seq %d was not delivered (consumer saw %d new events)", m.vb, e.Kind, e.Seq, len(evs)-before)
			return
		}
		d := evs[before]
		ev.delivered = d
		if d.Vb != m.vb || d.Seq != e.Seq {
			s.fail("C03", "vb %d: sent seq %d, consumer got vb %d seq %d", m.vb, e.Seq, d.Vb, d.Seq)
		}
		if d.Off != ev.tuple {
			s.fail("C06", "vb %d seq %d: delivered offset %+v, the event's own position is %+v", m.vb, e.Seq, d.Off, ev.tuple)
		}
		m.docs = append(m.docs, ev)
		m.pending = append(m.pending, ev)
	}
	s.checkTracks()
}

// beforeSkipUntil: the event time the harness gives an event is 1 700 000 000 s + its seqno (see feedEvent)
func (s *session) beforeSkipUntil(e srvEvent) bool {
	su := s.cfg.Dcp.Listener.SkipUntil
	return su != nil && (e.Old || time.Unix(int64(1700000000+e.Seq), 0).Before(*su))
}

// settle records that an event became settled (acknowledged or absorbed) at the current step.
func (s *session) settle(m *mvb, ev *mev, countsForD bool) {
	if ev.ev.Seq == m.maxSettle && ev.tuple.Seq == m.maxTuple.Seq && m.maxSettle > 0 {
		// the same event delivered again after a re-request (under another snapshot announcement), or acknowledged a second
		// time: the tracked position is that event's position either way; the library keeps the one settled last
		m.maxTuple = ev.tuple
		if countsForD {
			// ... and flags the vBucket for saving again (an acknowledgement at the tracked position is stored like one above it)
			m.dirtyGen++
			s.cleanSince = false
		}
	}
	if ev.settledAt >= 0 {
		return
	}
	ev.settledAt = s.step
	m.settled = append(m.settled, ev)
	advanced := ev.ev.Seq > m.maxSettle
	if advanced {
		m.maxSettle = ev.ev.Seq
		m.maxTuple = ev.tuple
	}
	// D (C05): the position was advanced by an acknowledgement or a non-document stream event
	if countsForD && advanced {
		m.dAdvanced = true
		m.dSeq = ev.ev.Seq
		m.dirtyGen++
		s.cleanSince = false
	}
}

func (s *session) ackOne(m *mvb, ev *mev) {
	ev.delivered.Ctx.Ack()
	ev.acked = true
	s.cleanSince = false
	s.settle(m, ev, true)
	if s.inflight != nil {
		s.label("ack_during_store")
	}
	// C04: tracked position == max settled, never backwards
	offs, _, _ := s.st.GetOffsets()
	if off, ok := offs.Load(m.vb); !ok {
		s.fail("C04", "vb %d: no tracked offset after an acknowledgement", m.vb)
	} else if off.SeqNo != m.maxSettle {
		s.fail("C04", "vb %d: tracked position %d after acknowledging seq %d, furthest settled is %d", m.vb, off.SeqNo, ev.ev.Seq, m.maxSettle)
	}
	s.checkTracks()
}

// ack: acknowledge the next <= n pending events of the vBucket in delivery order.
func (s *session) ack(op hOp) {
	// intent encoding: the (Vb mod k)-th assigned vBucket that has pending events
	var cands []*mvb
	for v := s.lo; v <= s.hi; v++ {
		if m := s.vbs[uint16(v)]; m != nil && len(m.pending) > 0 {
			cands = append(cands, m)
		}
	}
	if len(cands) == 0 {
		return
	}
	m := cands[op.Vb%len(cands)]
	n := op.N
	if n < 1 {
		n = 1
	}
	for i := 0; i < n && len(m.pending) > 0; i++ {
		ev := m.pending[0]
		m.pending = m.pending[1:]
		if len(m.all) > 0 && m.all[len(m.all)-1] != ev {
			s.label("ack_delayed")
		}
		if s.lastSaveAfter(ev) {
			s.label("ack_delayed_across_save")
		}
		if m.markers-ev.markerNo >= 2 {
			s.label("ack_after_2_later_markers")
		}
		s.ackOne(m, ev)
	}
}

func (s *session) lastSaveAfter(ev *mev) bool {
	if ev.delivered == nil {
		return false
	}
	s.meta.mu.Lock()
	defer s.meta.mu.Unlock()
	for _, c := range s.meta.calls {
		if c.At > ev.delivered.At {
			return true
		}
	}
	return false
}

// ackidx (C04 only): acknowledge the i-th delivered event of the vBucket again / out of order.
func (s *session) ackIdx(op hOp) {
	m := s.vbOf(op.Vb)
	if m == nil || len(m.docs) == 0 {
		return
	}
	ev := m.docs[((op.N%len(m.docs))+len(m.docs))%len(m.docs)]
	if ev.acked {
		s.label("ack_repeated")
	}
	if ev.ev.Seq < m.maxSettle {
		s.label("ack_below_position")
	}
	for i, p := range m.pending {
		if p == ev {
			m.pending = append(m.pending[:i:i], m.pending[i+1:]...)
			break
		}
	}
	s.ackOne(m, ev)
}

// TrackOffset calls per vBucket never go backwards and are members of the model's tuple set.
func (s *session) checkTracks() {
	tr := s.cons.trackLog()
	for _, t := range tr[s.trackSeen:] {
		m := s.vbs[t.Vb]
		if m == nil {
			s.fail("C04", "TrackOffset for vb %d which is outside the assigned range", t.Vb)
			continue
		}
		if !m.tuples[t.Off] {
			s.fail("C06", "vb %d: TrackOffset(%+v) is not the position of any single event", t.Vb, t.Off)
		}
		if t.Off.Seq > 0 && (t.Off.Start > t.Off.Seq || t.Off.Seq > t.Off.End) {
			s.fail("C06", "vb %d: TrackOffset(%+v) violates start<=seq<=end", t.Vb, t.Off)
		}
	}
	last := map[uint16]uint64{}
	for _, t := range tr[s.trackBase:] { // positions are per session: a rebalance reloads the stored checkpoints
		if t.Off.Seq < last[t.Vb] {
			s.fail("C04", "vb %d: TrackOffset went backwards %d -> %d", t.Vb, last[t.Vb], t.Off.Seq)
		}
		last[t.Vb] = t.Off.Seq
	}
	s.trackSeen = len(tr)
}

// onDurableWrite runs (under the store lock) for every per-vBucket durable write.
func (s *session) onDurableWrite(call *saveCall, vb uint16, t ckTuple) {
	m := s.vbs[vb]
	if m == nil {
		s.fail("C04", "durable write for vb %d which the member does not own", vb)
		return
	}
	// C01 (1): the written seqno is the resume position or that of an event settled before the save began
	n := s.settledAtStore[vb] // settled before the write (the store call) began
	ok := t.Seq == m.resume.Seq
	for _, ev := range m.settled[:n] {
		if ev.ev.Seq == t.Seq {
			ok = true
		}
	}
	if !ok {
		s.fail("C01", "vb %d: durable checkpoint seq %d written, but neither the resume position %d nor an event settled before the save began (settled: %v)", vb, t.Seq, m.resume.Seq, settledSeqs(m.settled[:n]))
	}
	for _, l := range m.lost {
		if t.Seq >= l {
			s.fail("C01", "vb %d: durable checkpoint seq %d written, but document event seq %d - sent by the server on this session's stream while the rebalance was completing - was never shown to the consumer, let alone acknowledged: a restart resumes beyond the first unsettled event", vb, t.Seq, l)
		}
	}
	// C14: a vBucket advanced only by reserved-prefix events is not flagged for saving
	if s.genAtSave[vb] == m.savedGen {
		s.fail("C14", "vb %d: per-vBucket checkpoint write although nothing but library-internal events advanced it since the last successful save", vb)
	}
	// C06: one event's own 4-tuple, within its snapshot
	if !m.tuples[t] {
		s.fail("C06", "vb %d: persisted %+v is not the position of any single event (mixture of two events/snapshots)", vb, t)
	}
	if t.Start > t.Seq || t.Seq > t.End {
		s.fail("C06", "vb %d: persisted %+v violates start<=seq<=end", vb, t)
	}
}

func settledSeqs(l []*mev) []uint64 {
	out := make([]uint64, len(l))
	for i, e := range l {
		out[i] = e.ev.Seq
	}
	return out
}

func (s *session) noteSaveBegin() {
	s.saveBeginStep = s.step
	s.settledAtSave = map[uint16]int{}
	s.dAtSave = map[uint16]uint64{}
	s.dAdvAtSave = map[uint16]bool{}
	s.genAtSave = map[uint16]int{}
	s.settledAtStore = map[uint16]int{}
	for vb, m := range s.vbs {
		s.settledAtStore[vb] = len(m.settled)
		s.genAtSave[vb] = m.dirtyGen
		s.settledAtSave[vb] = len(m.settled)
		s.dAtSave[vb] = m.dSeq
		s.dAdvAtSave[vb] = m.dAdvanced
	}
}

// after a save call returned: C05 oracles
func (s *session) afterSave(call *saveCall, failed bool, cleanAtBegin bool, mAtStore map[uint16]uint64) {
	if call == nil {
		// the library decided there was nothing to save
		if !cleanAtBegin {
			for vb, m := range s.vbs {
				if s.dAdvAtSave[vb] && s.meta.snapshot()[vb].Seq < s.dAtSave[vb] && m != nil {
					s.fail("C05", "vb %d: save performed no store call although position %d (advanced by an acknowledgement or a non-document event) is not durable (stored %d)", vb, s.dAtSave[vb], s.meta.snapshot()[vb].Seq)
				}
			}
		}
		return
	}
	if cleanAtBegin && len(call.Written) > 0 {
		s.fail("C05", "a save issued when nothing changed wrote vBuckets %v", call.Written)
	}
	if failed {
		s.label("save_failed")
		return
	}
	dur := s.meta.snapshot()
	for _, vb := range call.Written {
		if m := s.vbs[vb]; m != nil {
			m.savedGen = s.genAtSave[vb]
		}
	}
	for vb := range s.vbs {
		if !s.dAdvAtSave[vb] {
			continue
		}
		st, ok := dur[vb]
		if !ok || st.Seq < s.dAtSave[vb] {
			s.fail("C05", "vb %d: save succeeded but stored seq %d < %d, the furthest position settled (by acknowledgement / non-document event) before that save began", vb, st.Seq, s.dAtSave[vb])
		} else if st.Seq > mAtStore[vb] {
			s.fail("C05", "vb %d: stored seq %d is beyond anything settled (%d) when the store call was made", vb, st.Seq, mAtStore[vb])
		}
	}
}

func (s *session) mSnapshot() map[uint16]uint64 {
	out := map[uint16]uint64{}
	for vb, m := range s.vbs {
		out[vb] = m.maxSettle
	}
	return out
}

// save: synchronous Save with the store configured to accept or reject.
func (s *session) save(op hOp) {
	if s.inflight != nil {
		return
	}
	if s.metaI != nil {
		// whole-state backend: a save that happens writes the current position of EVERY vBucket of the session
		flagged := false
		for _, m := range s.vbs {
			flagged = flagged || m.dirtyGen != m.savedGen
		}
		if ok, pv := within(20*time.Second, func() { s.st.Save() }); !ok || pv != nil {
			s.fail("C02", "Save() through the file backend: returned=%v panic=%v", ok, pv)
			return
		}
		if flagged {
			// C05 on the whole-state backend: after a save that happened, the furthest position settled by an
			// acknowledgement / non-document event on ANY vBucket of the session is in the store (read back from the file)
			if st, _, err := metadata.NewFSMetadata(s.cfg).Load(nil, ""); err == nil && st != nil {
				for vb, m := range s.vbs {
					if !m.dAdvanced {
						continue
					}
					doc, ok := st.Load(vb)
					switch {
					case !ok || doc == nil || doc.Checkpoint == nil:
						s.fail("C05", "vb %d: after a successful save the store (file backend) holds no checkpoint for it, furthest settled position is %d", vb, m.dSeq)
					case doc.Checkpoint.SeqNo < m.dSeq:
						s.fail("C05", "vb %d: after a successful save the store (file backend) holds seq %d, furthest settled position is %d", vb, doc.Checkpoint.SeqNo, m.dSeq)
					case doc.Checkpoint.SeqNo > m.maxSettle:
						s.fail("C05", "vb %d: the store (file backend) holds seq %d, beyond anything settled (%d)", vb, doc.Checkpoint.SeqNo, m.maxSettle)
					}
				}
				s.label("file_store_read_back")
			}
			for vb, m := range s.vbs {
				s.saved[vb] = m.maxTuple
				m.savedGen = m.dirtyGen
			}
			s.label("file_save")
			for _, m := range s.vbs {
				if m.maxSettle == m.resume.Seq {
					s.label("file_save_with_idle_vbucket")
				}
			}
		}
		return
	}
	s.noteSaveBegin()
	clean := s.cleanSince
	s.meta.mu.Lock()
	s.meta.block = false
	if op.Fail {
		s.meta.next = saveOutcome{err: saveErr(s, op.Gap), writes: op.N, order: op.Ord}
	} else {
		s.meta.next = saveOutcome{writes: -1, order: op.Ord}
	}
	n := len(s.meta.calls)
	s.meta.mu.Unlock()
	mAt := s.mSnapshot()
	ok, pv := within(20*time.Second, func() { s.st.Save() })
	if !ok || pv != nil {
		s.fail("C05", "Save() did not return cleanly (returned=%v panic=%v)", ok, pv)
		return
	}
	var call *saveCall
	s.meta.mu.Lock()
	if len(s.meta.calls) > n {
		call = s.meta.calls[len(s.meta.calls)-1]
	}
	s.meta.mu.Unlock()
	if call != nil && !op.Fail {
		s.cleanSince = true
		s.label("save_ok")
		if s.labels["save_failed"] {
			s.label("save_ok_after_failure")
		}
	}
	s.afterSave(call, op.Fail, clean, mAt)
}

// savebegin: start Save() and stop inside the store call (if the library makes one).
func (s *session) saveBegin() {
	if s.inflight != nil {
		return
	}
	s.noteSaveBegin()
	s.meta.mu.Lock()
	s.meta.block = true
	s.meta.mu.Unlock()
	done := make(chan struct{})
	go func() { defer close(done); s.st.Save() }()
	select {
	case call := <-s.meta.entered:
		s.inflight = call
		s.saveDone = done
		s.label("save_in_flight")
	case <-done:
		// nothing to save according to the library
		s.meta.mu.Lock()
		s.meta.block = false
		s.meta.mu.Unlock()
		s.afterSave(nil, false, s.cleanSince, nil)
	case <-time.After(20 * time.Second):
		s.fail("C05", "Save() neither reached the store nor returned")
	}
}

// savequeue: a second Save() is issued while the first is still inside the store. It must not report
// completion before everything settled before IT began is durable (it may wait for the first one).
func (s *session) saveQueue() {
	if s.inflight == nil || s.queued != nil {
		return
	}
	// its own "before that save began" snapshot
	keepS, keepD, keepA, keepG, keepT := s.settledAtSave, s.dAtSave, s.dAdvAtSave, s.genAtSave, s.settledAtStore
	s.noteSaveBegin()
	q := &queuedSave{done: make(chan struct{}), settledAt: s.settledAtSave, dAt: s.dAtSave, dAdvAt: s.dAdvAtSave, genAt: s.genAtSave, cleanAtBeg: s.cleanSince}
	s.settledAtSave, s.dAtSave, s.dAdvAtSave, s.genAtSave, s.settledAtStore = keepS, keepD, keepA, keepG, keepT
	go func() { defer close(q.done); s.st.Save() }()
	s.label("save_queued_behind_inflight")
	select {
	case <-q.done:
		// it returned while the first save is still in flight: it made no store call of its own
		dur := s.meta.snapshot()
		for vb := range s.vbs {
			if q.dAdvAt[vb] && dur[vb].Seq < q.dAt[vb] {
				s.fail("C05", "vb %d: a save issued while another was in flight returned without a store call, although position %d (settled before it began) is not durable (stored %d) and the save in flight was dumped before it", vb, q.dAt[vb], dur[vb].Seq)
			}
		}
	case <-time.After(3 * time.Millisecond):
		s.queued = q // waiting for the save lock
	}
}

// promoteQueued: the first save returned; the queued one now runs.
func (s *session) promoteQueued() {
	q := s.queued
	if q == nil {
		return
	}
	s.queued = nil
	s.settledAtSave, s.dAtSave, s.dAdvAtSave, s.genAtSave = q.settledAt, q.dAt, q.dAdvAt, q.genAt
	s.meta.mu.Lock()
	s.meta.block = true
	s.meta.mu.Unlock()
	select {
	case call := <-s.meta.entered:
		s.inflight = call
		s.saveDone = q.done
		// its dump was taken after it got the save lock, i.e. now: everything settled so far may be in it
		s.settledAtStore = map[uint16]int{}
		for vb, m := range s.vbs {
			s.settledAtStore[vb] = len(m.settled)
		}
		s.label("queued_save_reached_store")
	case <-q.done:
		s.meta.mu.Lock()
		s.meta.block = false
		s.meta.mu.Unlock()
		s.afterSave(nil, false, q.cleanAtBeg && s.cleanSince, nil)
	case <-time.After(20 * time.Second):
		s.fail("C05", "a queued Save() neither reached the store nor returned after the save in flight completed")
	}
}

func (s *session) saveEnd(op hOp) {
	if s.inflight == nil {
		return
	}
	call := s.inflight
	out := saveOutcome{writes: -1, order: op.Ord}
	if op.Fail {
		out = saveOutcome{err: saveErr(s, op.Gap), writes: op.N, order: op.Ord}
	}
	// positions settled while the store call was blocked may not be in this dump, but the dump can
	// never contain more than what was settled when it was taken (= at savebegin)
	mAt := map[uint16]uint64{}
	for vb, m := range s.vbs {
		mAt[vb] = m.resume.Seq
		for _, ev := range m.settled[:s.settledAtStore[vb]] {
			if ev.ev.Seq > mAt[vb] {
				mAt[vb] = ev.ev.Seq
			}
		}
	}
	settledDuring := false
	for vb, m := range s.vbs {
		if len(m.settled) > s.settledAtStore[vb] {
			settledDuring = true
		}
	}
	s.meta.release <- out
	select {
	case <-s.saveDone:
	case <-time.After(20 * time.Second):
		s.fail("C05", "Save() did not return after the store call completed")
	}
	s.inflight = nil
	if s.queued == nil {
		s.meta.mu.Lock()
		s.meta.block = false
		s.meta.mu.Unlock()
	}
	if !op.Fail {
		s.cleanSince = !settledDuring
		s.label("save_ok")
		if s.labels["save_failed"] {
			s.label("save_ok_after_failure")
		}
	}
	s.afterSave(call, op.Fail, false, mAt)
	s.promoteQueued()
}

// crash: the process dies now. An in-flight save applies `n` of its per-vBucket writes first.
// Then a new session starts on the same store; C01 (2) is evaluated.
func (s *session) crash(op hOp) {
	if s.inflight != nil {
		s.label("crash_mid_save")
		s.meta.release <- saveOutcome{err: saveErr(s, op.Gap), writes: op.N, order: op.Ord}
		<-s.saveDone
		s.inflight = nil
		s.drainQueued()
		s.meta.mu.Lock()
		s.meta.block = false
		s.meta.mu.Unlock()
	}
	if s.metaI != nil && op.Torn > 0 {
		// the process dies inside the file write of a save (os.WriteFile truncates, then writes): what remains is an
		// empty file or a prefix of the new content
		within(20*time.Second, func() { s.st.Save() })
		if b, err := os.ReadFile(s.fpath); err == nil && len(b) > 2 {
			k := 0
			switch op.Torn {
			case 2:
				k = len(b) / 2
			case 3:
				k = 1 + ((op.N%(len(b)-2))+(len(b)-2))%(len(b)-2)
			}
			_ = os.WriteFile(s.fpath, b[:k], 0o644)
			s.torn = true
			s.label("crash_torn_file")
			fmt.Println("TORN_RESTART")
			_ = os.Stdout.Sync()
		}
	}
	s.label("crash")
	type unsettled struct {
		seq uint64
		idx int
	}
	first := map[uint16]unsettled{}
	anyOutstanding := false
	for vb, m := range s.vbs {
		// an event is identified by its seqno: after a reopen inside the session the same event may have been delivered
		// twice, and one acknowledgement (of either delivery) settles it
		done := map[uint64]bool{}
		for _, e := range m.settled {
			done[e.ev.Seq] = true
		}
		for _, p := range m.pending {
			if !done[p.ev.Seq] {
				first[vb] = unsettled{seq: p.ev.Seq}
				anyOutstanding = true
				break
			}
		}
	}
	if anyOutstanding {
		s.label("crash_with_outstanding_ack")
		if len(s.meta.snapshot()) > 0 {
			s.label("crash_outstanding_after_write")
		}
	}
	// the process is gone; what follows only releases the old session's goroutines and memory
	// (manual checkpointing: closing writes nothing to the durable store)
	old := s.vbs
	within(20*time.Second, func() { s.st.Close(false) })
	// autoReset "latest": a group without any stored checkpoint starts from the server's current end by definition
	// (there is no durable checkpoint to be ahead of anything); as soon as one document of the assignment exists,
	// a vBucket without a document starts from the beginning
	anyDoc := false
	for vb := range s.meta.snapshot() {
		if int(vb) >= s.lo && int(vb) <= s.hi {
			anyDoc = true
		}
	}
	if s.metaI != nil {
		// a torn file is what a save leaves that the process died in: a checkpoint exists, the restart is not a first start
		anyDoc = len(s.saved) > 0 || s.torn
	}
	s.open()
	if s.torn {
		s.label("torn_restart_started")
		s.stopped = true // the stored state is no longer the model's: the history ends with this restart's check
	}
	for vb, u := range first {
		m := s.vbs[vb]
		if m == nil {
			continue
		}
		if s.sc.Reset == "latest" && !anyDoc {
			s.label("restart_latest_without_checkpoint")
			continue
		}
		if s.sc.Reset == "latest" {
			if _, has := s.meta.snapshot()[vb]; !has && s.metaI == nil {
				s.label("restart_latest_partial_checkpoints")
			}
		}
		if m.resume.Seq >= u.seq {
			s.fail("C01", "vb %d: after the crash the stream is requested from seq %d, but event seq %d was delivered and never acknowledged (settled before crash: %v) - it is skipped", vb, m.resume.Seq, u.seq, settledSeqs(old[vb].settled))
			continue
		}
		// the server re-sends everything above the requested start: the unsettled event must be re-delivered
		sv := s.srv[vb]
		reached := false
		for m.sentIdx < len(sv.hist) && sv.hist[m.sentIdx].Seq <= u.seq && s.viol == nil {
			before := m.sentIdx
			reached = sv.hist[before].Seq == u.seq
			s.deliver(hOp{Op: "deliver", Vb: int(vb) - s.lo, Snap: 2})
			if m.sentIdx == before {
				reached = false
				break // refused (excluded class)
			}
		}
		if reached && s.viol == nil {
			found := false
			for _, d := range m.docs {
				if d.ev.Seq == u.seq {
					found = true
				}
			}
			if !found {
				s.fail("C01", "vb %d: unacknowledged event seq %d was not re-delivered after the restart", vb, u.seq)
			}
			s.label("redelivery_checked")
		}
	}
}

// drainQueued lets a queued save run to its end without judging it (the process is going away).
func (s *session) drainQueued() {
	q := s.queued
	if q == nil {
		return
	}
	s.queued = nil
	select {
	case <-s.meta.entered:
		s.meta.release <- saveOutcome{err: errInjected, writes: 0}
		<-q.done
	case <-q.done:
	case <-time.After(20 * time.Second):
	}
}

// end-of-history checks common to all properties using the engine
func (s *session) finish() {
	if s.fpath != "" {
		defer os.Remove(s.fpath)
	}
	if s.inflight != nil {
		s.meta.release <- saveOutcome{writes: -1}
		<-s.saveDone
		s.inflight = nil
		s.promoteQueued()
		if s.inflight != nil {
			s.meta.release <- saveOutcome{writes: -1}
			<-s.saveDone
			s.inflight = nil
		}
		s.meta.mu.Lock()
		s.meta.block = false
		s.meta.mu.Unlock()
	}
	s.checkTracks()
	if s.oracles["C12"] && s.sc.CancelEnd != "" && s.viol == nil && !s.stopped && s.st != nil && s.st.IsOpen() {
		s.cancelShutdown()
	}
	// leave no goroutine behind: close the stream (manual checkpointing: no save inside)
	if s.st != nil && s.st.IsOpen() {
		within(20*time.Second, func() { s.st.Close(false) })
	}
}

// runHistory interprets the scenario. Returns the first violation (or nil) and the labels.
func runHistory(sc *hScenario, excludeF1 bool, oracles ...string) (*hViolation, map[string]bool, int) {
	s := newSession(sc, oracles...)
	s.excludeF1 = excludeF1 && !sc.KeepF1
	s.open()
	for i, op := range sc.Ops {
		s.step = i + 1
		switch op.Op {
		case "deliver":
			s.deliver(op)
		case "ack":
			s.ack(op)
		case "ackidx":
			s.ackIdx(op)
		case "save":
			s.save(op)
		case "savebegin":
			if s.inflight != nil {
				s.saveEnd(hOp{Op: "saveend"})
			} else {
				s.saveBegin()
			}
		case "savequeue":
			s.saveQueue()
		case "saveend":
			if s.inflight == nil {
				s.saveBegin()
			} else {
				s.saveEnd(op)
			}
		case "crash":
			s.crash(op)
		case "rebalance":
			s.rebalance(op)
		case "ackold":
			s.ackOld(op)
		case "end":
			s.end(op)
		case "failover":
			s.failover(op)
		}
		if s.viol != nil || s.stopped {
			break
		}
	}
	s.step = len(sc.Ops) + 1
	if s.oracles["C12"] && s.viol == nil && !s.stopped {
		s.checkActive()
	}
	s.finish()
	return s.viol, s.labels, s.excluded
}

// saveErr: the ways a metadata store fails a save - it rejects it, or it times it out (the Couchbase backend returns its
// context's error when checkpoint.timeout passes, gocbcore its own timeout error): nothing may be forgotten either way
func saveErr(s *session, kind int) error {
	switch ((kind % 4) + 4) % 4 {
	case 1:
		s.label("save_timed_out")
		return context.DeadlineExceeded
	case 2:
		s.label("save_timed_out")
		return fmt.Errorf("injected store failure: %w", gocbcore.ErrTimeout)
	case 3:
		s.label("save_timed_out")
		return fmt.Errorf("injected store failure: %w", context.DeadlineExceeded)
	}
	return errInjected
}
