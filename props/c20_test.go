package props

// C20 — no Couchbase call made by the library can hang or invent an outcome (DESIGN §5 C20).
//  (a) AsyncOp contract, pure: completion vs. context expiry in either order with a fake PendingOp
//  (b) every wrapper on the wire (Layer B): per request the simulated node answers promptly, with an error
//      status, late (before / after the deadline), never, or drops the connection

import (
	"context"
	"encoding/json"
	"errors"
	"fmt"
	"runtime"
	"strings"
	"sync"
	"sync/atomic"
	"testing"
	"time"

	"github.com/Trendyol/go-dcp/couchbase"
	"github.com/Trendyol/go-dcp/metadata"
	"github.com/Trendyol/go-dcp/models"
	"github.com/Trendyol/go-dcp/tracing"
	"github.com/couchbase/gocbcore/v10"
	"github.com/couchbase/gocbcore/v10/memd"
	"pgregory.net/rapid"

	"verif/simnode"
)

// ---------- (a) AsyncOp ----------

type fakePending struct{ cancels atomic.Int32 }

func (p *fakePending) Cancel() { p.cancels.Add(1) }

type c20Async struct {
	DeadlineUs int  `json:"deadline_us"`
	ResolveUs  int  `json:"resolve_us"` // < 0: never resolved
	StartErr   bool `json:"start_err"`  // the operation could not even be dispatched
	LateTwice  bool `json:"late_twice"`
}

func c20ExecAsync(sc c20Async) string {
	tCtx := time.Now() // the deadline counts from here
	ctx, cancel := context.WithTimeout(context.Background(), time.Duration(sc.DeadlineUs)*time.Microsecond)
	defer cancel()
	opm := couchbase.NewAsyncOp(ctx)
	op := &fakePending{}
	if sc.StartErr {
		e := errors.New("dispatch failed")
		if got := opm.Wait(op, e); got != e {
			return fmt.Sprintf("Wait(op, err) returned %v instead of the dispatch error", got)
		}
		return ""
	}
	resolved := make(chan any, 2)
	if sc.ResolveUs >= 0 {
		go func() {
			defer func() { resolved <- recover() }()
			time.Sleep(time.Duration(sc.ResolveUs) * time.Microsecond)
			opm.Resolve() // the gocbcore callback
			if sc.LateTwice {
				// (gocbcore invokes a callback once; after a Cancel it invokes it with the cancellation)
			}
		}()
	}
	t0 := time.Now()
	var err error
	ok, pv := within(time.Duration(sc.DeadlineUs)*time.Microsecond+2*time.Second, func() { err = opm.Wait(op, nil) })
	el := time.Since(t0)
	if !ok {
		return fmt.Sprintf("Wait did not return by its deadline (%d us) + 2 s", sc.DeadlineUs)
	}
	if pv != nil {
		return fmt.Sprintf("Wait panicked: %v", pv)
	}
	margin := 150_000 // us: "clearly before / after"
	switch {
	case sc.ResolveUs >= 0 && sc.ResolveUs+margin < sc.DeadlineUs:
		if err != nil {
			return fmt.Sprintf("completion at %d us, deadline %d us: Wait returned %v instead of success", sc.ResolveUs, sc.DeadlineUs, err)
		}
		if op.cancels.Load() != 0 {
			return "a completed operation was cancelled"
		}
	case sc.ResolveUs < 0 || sc.ResolveUs > sc.DeadlineUs+margin:
		if err == nil {
			return fmt.Sprintf("deadline %d us passed without completion (resolve %d us) but Wait reported success", sc.DeadlineUs, sc.ResolveUs)
		}
		if !errors.Is(err, context.DeadlineExceeded) {
			return fmt.Sprintf("Wait returned %v, want the context's error", err)
		}
		if n := op.cancels.Load(); n != 1 {
			return fmt.Sprintf("pending operation cancelled %d times after the deadline, want exactly once", n)
		}
		if since := time.Since(tCtx); since < time.Duration(sc.DeadlineUs)*time.Microsecond-time.Millisecond {
			return fmt.Sprintf("Wait returned an expiry %v after the context was created, before its deadline of %d us", since, sc.DeadlineUs)
		}
		_ = el
	}
	if sc.ResolveUs >= 0 {
		// a late completion neither blocks nor panics
		select {
		case pv := <-resolved:
			if pv != nil {
				return fmt.Sprintf("late completion panicked: %v", pv)
			}
		case <-time.After(time.Duration(sc.ResolveUs)*time.Microsecond + 2*time.Second):
			return "a completion arriving after the deadline blocked forever"
		}
	}
	return ""
}

func TestC20_AsyncOp(t *testing.T) {
	rapid.Check(t, func(rt *rapid.T) {
		sc := c20Async{DeadlineUs: rapid.SampledFrom([]int{1000, 5000, 30_000, 60_000}).Draw(rt, "deadline")}
		switch rapid.IntRange(0, 5).Draw(rt, "class") {
		case 0:
			sc.ResolveUs = -1
		case 1:
			sc.StartErr = true
		case 2: // around the deadline: either outcome is fine, only "returns, no panic"
			sc.ResolveUs = sc.DeadlineUs + rapid.IntRange(-3000, 3000).Draw(rt, "around")
			if sc.ResolveUs < 0 {
				sc.ResolveUs = 0
			}
		case 3: // clearly before: a long deadline, so that scheduling noise cannot turn it into a race
			sc.DeadlineUs = 400_000
			sc.ResolveUs = rapid.IntRange(0, 2000).Draw(rt, "early")
		default:
			sc.ResolveUs = sc.DeadlineUs + rapid.IntRange(151_000, 200_000).Draw(rt, "late")
		}
		if d := c20ExecAsync(sc); d != "" {
			violation(rt, "C20", "c20async", sc, "%s", d)
		}
		lab := "async_completes_first"
		if sc.ResolveUs < 0 || sc.ResolveUs > sc.DeadlineUs {
			lab = "async_deadline_first"
		}
		record("C20", sc, sc.ResolveUs != 0 && !sc.StartErr, lab, "async_cases")
	})
}

// ---------- (b) wrappers on the wire ----------

type c20Wire struct {
	Op       string `json:"op"`
	Behave   string `json:"behave"` // prompt | status | delay_before | delay_after | silent | drop
	Status   int    `json:"status"`
	OnlyNth  int    `json:"only_nth"` // the behaviour applies to the n-th matching request only (0 = all)
	DeadMs   int    `json:"dead_ms"`
	PreExist bool   `json:"pre_exist"` // the document exists before the call
}

type c20OpSpec struct {
	cmds     []memd.CmdCode // requests this wrapper issues
	hardMs   int            // hard-coded deadline of the wrapper (0 = uses the configurable one)
	mgmt     bool
	needsDoc bool // succeeds only if the document exists
	run      func(e *lbEnv, ctx context.Context, sc c20Wire) error
	// prep (optional) runs before the generated behaviour is installed and before the node's log is marked: what it sends
	// is not part of the judged call ("" = fine, else a finding of its own)
	prep func(e *lbEnv, sc c20Wire) string
}

var c20PrepMD metadata.Metadata

const c20Key = "_connector:cbgo:c20:doc"

var c20Ops = map[string]c20OpSpec{
	"UpsertXattrs": {cmds: []memd.CmdCode{memd.CmdSubDocMultiMutation}, needsDoc: true, run: func(e *lbEnv, ctx context.Context, sc c20Wire) error {
		return couchbase.UpsertXattrs(ctx, e.agent, "_default", "_default", []byte(c20Key), "cbgo", []byte(`{"a":1}`), 0)
	}},
	"GetXattrs": {cmds: []memd.CmdCode{memd.CmdSubDocMultiLookup}, needsDoc: true, hardMs: 5000, run: func(e *lbEnv, ctx context.Context, sc c20Wire) error {
		_, err := couchbase.GetXattrs(ctx, e.agent, "_default", "_default", []byte(c20Key), "cbgo")
		return err
	}},
	"CreateDocument": {cmds: []memd.CmdCode{memd.CmdSet}, run: func(e *lbEnv, ctx context.Context, sc c20Wire) error {
		return couchbase.CreateDocument(ctx, e.agent, "_default", "_default", []byte(c20Key), []byte(`{}`), 0, 0)
	}},
	"UpdateDocument": {cmds: []memd.CmdCode{memd.CmdSubDocMultiMutation}, needsDoc: true, run: func(e *lbEnv, ctx context.Context, sc c20Wire) error {
		return couchbase.UpdateDocument(ctx, e.agent, "_default", "_default", []byte(c20Key), []byte(`{"x":2}`), 0, nil)
	}},
	"DeleteDocument": {cmds: []memd.CmdCode{memd.CmdDelete}, needsDoc: true, run: func(e *lbEnv, ctx context.Context, sc c20Wire) error {
		return couchbase.DeleteDocument(ctx, e.agent, "_default", "_default", []byte(c20Key))
	}},
	"Get": {cmds: []memd.CmdCode{memd.CmdGet}, needsDoc: true, run: func(e *lbEnv, ctx context.Context, sc c20Wire) error {
		_, err := couchbase.Get(ctx, e.agent, "_default", "_default", []byte(c20Key))
		return err
	}},
	"CreatePath": {cmds: []memd.CmdCode{memd.CmdSubDocMultiMutation}, run: func(e *lbEnv, ctx context.Context, sc c20Wire) error {
		return couchbase.CreatePath(ctx, e.agent, "_default", "_default", []byte(c20Key), []byte("p"), []byte(`1`), memd.SubdocDocFlagMkDoc)
	}},
	"MetadataSave": {cmds: []memd.CmdCode{memd.CmdSubDocMultiMutation, memd.CmdSet}, run: func(e *lbEnv, ctx context.Context, sc c20Wire) error {
		e.cfg.Dcp.Group.Name = "c20"
		e.cfg.Checkpoint.Timeout = time.Duration(sc.DeadMs) * time.Millisecond
		md := couchbase.NewCBMetadata(e.client, e.cfg)
		return md.Save(map[uint16]*models.CheckpointDocument{5: c02DocOf(ckTuple{UUID: 1, Seq: 2, Start: 1, End: 3}, "u")}, map[uint16]bool{5: true}, "u")
	}},
	// the same metadata object saves the same checkpoint twice: the first write is refused by the node (prep: the call must
	// fail), the generated behaviour applies to the SECOND, byte-identical save - what was not confirmed the first time is not
	// confirmed by having been tried
	"MetadataSaveAgain": {cmds: []memd.CmdCode{memd.CmdSubDocMultiMutation, memd.CmdSet}, prep: func(e *lbEnv, sc c20Wire) string {
		e.cfg.Dcp.Group.Name = "c20"
		e.cfg.Checkpoint.Timeout = time.Duration(sc.DeadMs) * time.Millisecond
		c20PrepMD = couchbase.NewCBMetadata(e.client, e.cfg)
		e.c.Lock()
		e.c.Hook = func(en *simnodeEntry) simnodeAction {
			if en.Cmd == memd.CmdSubDocMultiMutation || en.Cmd == memd.CmdSet {
				return simnodeAction{Kind: simnodeStatus, Status: memd.StatusInvalidArgs}
			}
			return simnodeAction{}
		}
		e.c.Unlock()
		var err error
		ok, pv := within(10*time.Second, func() {
			err = c20PrepMD.Save(map[uint16]*models.CheckpointDocument{5: c02DocOf(ckTuple{UUID: 1, Seq: 2, Start: 1, End: 3}, "u")}, map[uint16]bool{5: true}, "u")
		})
		e.c.Lock()
		e.c.Hook = nil
		e.c.Unlock()
		if !ok || pv != nil {
			return fmt.Sprintf("MetadataSave against a node refusing the write: returned=%v panic=%v", ok, pv)
		}
		if err == nil {
			return "MetadataSave reported success although the node refused the write (status invalid arguments)"
		}
		return ""
	}, run: func(e *lbEnv, ctx context.Context, sc c20Wire) error {
		return c20PrepMD.Save(map[uint16]*models.CheckpointDocument{5: c02DocOf(ckTuple{UUID: 1, Seq: 2, Start: 1, End: 3}, "u")}, map[uint16]bool{5: true}, "u")
	}},
	"MetadataClear": {cmds: []memd.CmdCode{memd.CmdDelete}, needsDoc: true, run: func(e *lbEnv, ctx context.Context, sc c20Wire) error {
		e.cfg.Dcp.Group.Name = "c20"
		e.cfg.Checkpoint.Timeout = time.Duration(sc.DeadMs) * time.Millisecond
		return couchbase.NewCBMetadata(e.client, e.cfg).Clear([]uint16{5})
	}},
	"Ping": {cmds: []memd.CmdCode{memd.CmdNoop}, mgmt: true, run: func(e *lbEnv, ctx context.Context, sc c20Wire) error {
		e.cfg.HealthCheck.Timeout = time.Duration(sc.DeadMs) * time.Millisecond
		_, err := e.client.Ping()
		return err
	}},
	"GetFailOverLogs": {cmds: []memd.CmdCode{memd.CmdDcpGetFailoverLog}, hardMs: 60000, run: func(e *lbEnv, ctx context.Context, sc c20Wire) error {
		l, err := e.client.GetFailOverLogs(3)
		if err == nil && len(l) == 0 {
			return nil // judged by the caller through the log: an empty log with nil error is an invented outcome
		}
		return err
	}},
	"GetVBucketSeqNos": {cmds: []memd.CmdCode{memd.CmdGetAllVBSeqnos}, hardMs: 60000, run: func(e *lbEnv, ctx context.Context, sc c20Wire) error {
		_, err := e.client.GetVBucketSeqNos(false)
		return err
	}},
	"GetCollectionIDs": {cmds: []memd.CmdCode{memd.CmdCollectionsGetID}, hardMs: 60000, run: func(e *lbEnv, ctx context.Context, sc c20Wire) error {
		_, err := e.client.GetCollectionIDs("_default", []string{"_default"})
		return err
	}},
	"OpenStream": {cmds: []memd.CmdCode{memd.CmdDcpStreamReq}, hardMs: 60000, run: func(e *lbEnv, ctx context.Context, sc c20Wire) error {
		obs := couchbase.NewObserver(e.cfg, 9, ^uint64(0), func(models.ListenerArgs) {}, func(models.DcpStreamEndContext) {}, map[uint32]string{}, tracing.NewTracerComponent())
		err := e.client.OpenStream(9, map[uint32]string{}, &models.Offset{SnapshotMarker: &models.SnapshotMarker{}, LatestSeqNo: ^uint64(0)}, obs)
		if err == nil {
			_ = e.client.CloseStream(9)
		}
		return err
	}},
	// the first stream request is answered ROLLBACK (scripted), the library reads the failover log and asks again: the
	// generated behaviour applies to that SECOND request - its outcome is the outcome of OpenStream
	"OpenStreamAfterRollback": {cmds: []memd.CmdCode{memd.CmdDcpStreamReq}, hardMs: 60000, run: func(e *lbEnv, ctx context.Context, sc c20Wire) error {
		n := 0
		e.c.Lock()
		e.c.OnStreamReq = func(r simnode.StreamReq) simnode.StreamReply {
			n++
			if n == 1 {
				return simnode.StreamReply{Status: memd.StatusRollback, RollbackTo: 0}
			}
			return simnode.StreamReply{Status: memd.StatusSuccess}
		}
		e.c.Unlock()
		obs := couchbase.NewObserver(e.cfg, 11, ^uint64(0), func(models.ListenerArgs) {}, func(models.DcpStreamEndContext) {}, map[uint32]string{}, tracing.NewTracerComponent())
		err := e.client.OpenStream(11, map[uint32]string{}, &models.Offset{SnapshotMarker: &models.SnapshotMarker{StartSeqNo: 5, EndSeqNo: 5}, SeqNo: 5, VbUUID: 77, LatestSeqNo: ^uint64(0)}, obs)
		if err == nil {
			_ = e.client.CloseStream(11)
		}
		return err
	}},
	"CloseStream": {cmds: []memd.CmdCode{memd.CmdDcpCloseStream}, hardMs: 60000, run: func(e *lbEnv, ctx context.Context, sc c20Wire) error {
		obs := couchbase.NewObserver(e.cfg, 10, ^uint64(0), func(models.ListenerArgs) {}, func(models.DcpStreamEndContext) {}, map[uint32]string{}, tracing.NewTracerComponent())
		if err := e.client.OpenStream(10, map[uint32]string{}, &models.Offset{SnapshotMarker: &models.SnapshotMarker{}, LatestSeqNo: ^uint64(0)}, obs); err != nil {
			return fmt.Errorf("HARNESS: cannot open the stream to be closed: %w", err)
		}
		return e.client.CloseStream(10)
	}},
}

var c20OpNames = func() []string {
	var n []string
	for k := range c20Ops {
		n = append(n, k)
	}
	sortStrings(n)
	return n
}()

// statuses the client must turn into an error without retrying forever
var c20Statuses = []int{int(memd.StatusInvalidArgs), int(memd.StatusAccessError), int(memd.StatusNoBucket), int(memd.StatusInternalError), int(memd.StatusTmpFail), int(memd.StatusBusy), int(memd.StatusKeyNotFound)}

func c20ExecWire(sc c20Wire) (detail string, labels []string) {
	spec, ok := c20Ops[sc.Op]
	if !ok {
		return "HARNESS: unknown op " + sc.Op, nil
	}
	e := lbShared(1, 16, 0)
	c := e.c
	if sc.PreExist || spec.needsDoc {
		c.Lock()
		c.Docs[c20Key] = &simnode.Doc{Body: []byte(`{}`), Xattr: map[string][]byte{"cbgo": []byte(`{"z":0}`)}, Cas: 77}
		c.Docs["_connector:cbgo:c20:checkpoint:5"] = &simnode.Doc{Body: []byte(`{}`), Xattr: map[string][]byte{}, Cas: 78}
		c.Unlock()
	}
	dead := time.Duration(sc.DeadMs) * time.Millisecond
	if spec.hardMs > 0 {
		dead = time.Duration(spec.hardMs) * time.Millisecond
	}
	match := func(cmd memd.CmdCode) bool {
		for _, x := range spec.cmds {
			if x == cmd {
				return true
			}
		}
		return false
	}
	var nMatch atomic.Int32
	if spec.prep != nil {
		if d := spec.prep(e, sc); d != "" {
			return d, nil
		}
	}
	if spec.mgmt && sc.Behave != "prompt" {
		c.Lock()
		switch sc.Behave {
		case "status":
			c.MgmtMode = "error"
		default:
			c.MgmtMode = "silent"
		}
		c.Unlock()
		defer func() { c.Lock(); c.MgmtMode = ""; c.Unlock() }()
	}
	c.Lock()
	c.Hook = func(en *simnodeEntry) simnodeAction {
		if !match(en.Cmd) || (sc.Op == "CloseStream" && en.Cmd == memd.CmdDcpStreamReq) {
			return simnodeAction{}
		}
		if spec.mgmt {
			return simnodeAction{} // Ping: the management endpoint is scripted instead (KV NOOPs stay healthy)
		}
		n := int(nMatch.Add(1))
		if sc.OnlyNth != 0 && n != sc.OnlyNth {
			return simnodeAction{}
		}
		switch sc.Behave {
		case "status":
			return simnodeAction{Kind: simnodeStatus, Status: memd.StatusCode(sc.Status)}
		case "delay_before":
			return simnodeAction{Kind: simnodeDelay, Delay: dead * 4 / 10}
		case "delay_after":
			return simnodeAction{Kind: simnodeDelay, Delay: dead + dead/2}
		case "silent":
			return simnodeAction{Kind: simnodeSilent}
		case "drop":
			return simnodeAction{Kind: simnodeDrop}
		}
		return simnodeAction{}
	}
	c.Unlock()
	ctx, cancel := context.WithTimeout(context.Background(), dead)
	defer cancel()
	t0 := time.Now()
	since := c.Since()
	var err error
	slack := 1500 * time.Millisecond
	ok2, pv := within(dead+slack+time.Second, func() { err = spec.run(e, ctx, sc) })
	el := time.Since(t0)
	c.Lock()
	c.Hook = nil
	c.Unlock()
	if sc.Behave == "delay_after" || sc.Behave == "delay_before" {
		// let the node's delayed handling finish inside this case (the environment is shared with the next one)
		time.Sleep(time.Until(t0.Add(dead + dead/2 + 40*time.Millisecond)))
	}
	if pv != nil {
		return fmt.Sprintf("%s panicked: %v", sc.Op, pv), nil
	}
	if !ok2 {
		return fmt.Sprintf("%s did not return by its deadline (%v) + %v with the node behaving '%s'", sc.Op, dead, slack, sc.Behave), nil
	}
	if err != nil && len(err.Error()) > 7 && err.Error()[:7] == "HARNESS" {
		return err.Error(), nil
	}
	if el > dead+slack {
		return fmt.Sprintf("%s returned after %v, deadline %v", sc.Op, el, dead), nil
	}
	// what did the server confirm?
	confirmed := map[memd.CmdCode]bool{}
	failedAll := true
	seen := false
	for _, en := range c.Log() {
		if en.T < since || !match(en.Cmd) {
			continue
		}
		seen = true
		if en.Replied && en.Reply == memd.StatusSuccess && en.RepT-since <= el {
			confirmed[en.Cmd] = true
			failedAll = false
		}
	}
	if spec.mgmt {
		failedAll = sc.Behave != "prompt"
		seen = true
	}
	labels = []string{"wire_cases", "op_" + sc.Op, "behave_" + sc.Behave}
	if el > time.Second {
		labels = append(labels, fmt.Sprintf("slow_%s_%s_0x%x", sc.Op, sc.Behave, sc.Status))
	}
	if err == nil {
		// success must be backed by a success reply to a request of the call (its last step)
		last := spec.cmds[0]
		if !spec.mgmt && !confirmed[last] {
			return fmt.Sprintf("%s reported success, but the node never sent a success reply for its %s request (behaviour '%s', status 0x%x)", sc.Op, last.Name(), sc.Behave, sc.Status), labels
		}
		if spec.mgmt && sc.Behave != "prompt" {
			return fmt.Sprintf("Ping reported healthy while the management endpoint was '%s'", sc.Behave), labels
		}
	}
	if sc.OnlyNth == 0 && seen && failedAll && err == nil && sc.Behave != "prompt" && sc.Behave != "delay_before" {
		return fmt.Sprintf("%s reported success although no request of the call was confirmed by the node (behaviour '%s')", sc.Op, sc.Behave), labels
	}
	if sc.Behave == "prompt" && err != nil && !(spec.needsDoc && false) {
		return fmt.Sprintf("%s failed against a healthy node: %v", sc.Op, err), labels
	}
	if sc.Behave == "delay_before" && err != nil && sc.OnlyNth <= 1 && len(spec.cmds) == 1 {
		return fmt.Sprintf("%s failed (%v) although the node replied at 40%% of the deadline", sc.Op, err), labels
	}
	if sc.Behave == "silent" || sc.Behave == "delay_after" || sc.Behave == "drop" {
		// "a completion that arrives after the deadline neither blocks nor panics": whatever gocbcore delivers late runs
		// a closure of the wrapper on one of gocbcore's goroutines - it must not be stuck there (seen twice, 120 ms apart)
		stuck := func() map[string]string {
			out := map[string]string{}
			buf := make([]byte, 8<<20)
			buf = buf[:runtime.Stack(buf, true)]
			for _, g := range strings.Split(string(buf), "\n\n") {
				head := strings.SplitN(g, "\n", 2)[0]
				if !strings.Contains(head, "chan send") && !strings.Contains(head, "chan receive") && !strings.Contains(head, "select") {
					continue
				}
				lines := strings.Split(g, "\n")
				if len(lines) < 2 || !strings.Contains(lines[1], "github.com/Trendyol/go-dcp/couchbase.") || !strings.Contains(lines[1], ".func") {
					continue // only goroutines whose innermost frame is a closure of the wrappers
				}
				out[strings.Fields(head)[1]] = strings.TrimSpace(lines[1])
			}
			return out
		}
		time.Sleep(60 * time.Millisecond)
		if first := stuck(); len(first) > 0 {
			time.Sleep(120 * time.Millisecond)
			second := stuck()
			for id, fr := range first {
				if second[id] == fr {
					return fmt.Sprintf("%s (node behaving '%s'): after the call returned, a completion callback of the wrapper is blocked for good on a gocbcore goroutine: %s", sc.Op, sc.Behave, fr), labels
				}
			}
		}
		labels = append(labels, "late_completion_checked")
	}
	return "", labels
}

func sortStrings(s []string) {
	for i := 1; i < len(s); i++ {
		for j := i; j > 0 && s[j] < s[j-1]; j-- {
			s[j], s[j-1] = s[j-1], s[j]
		}
	}
}

func TestC20_Wire(t *testing.T) {
	base := runtime.NumGoroutine()
	cases := 0
	rapid.Check(t, func(rt *rapid.T) {
		sc := c20Wire{Op: rapid.SampledFrom(c20OpNames).Draw(rt, "op"), DeadMs: rapid.SampledFrom([]int{120, 200, 300}).Draw(rt, "dead")}
		spec := c20Ops[sc.Op]
		behaves := []string{"prompt", "status", "status", "delay_before", "delay_after", "silent", "drop"}
		if spec.hardMs > 0 {
			// hard-coded 5 s / 60 s deadlines: silence only in the thorough tier (one wait each), never delays
			behaves = []string{"prompt", "status", "status", "drop"}
			if thorough() && spec.hardMs <= 5000 {
				behaves = append(behaves, "silent")
			}
		}
		if spec.mgmt {
			behaves = []string{"prompt", "status", "silent"}
		}
		sc.Behave = rapid.SampledFrom(behaves).Draw(rt, "behave")
		sc.Status = rapid.SampledFrom(c20Statuses).Draw(rt, "status")
		if len(spec.cmds) > 1 {
			sc.OnlyNth = rapid.IntRange(0, 3).Draw(rt, "nth")
		}
		sc.PreExist = rapid.Bool().Draw(rt, "pre")
		if sc.Op == "OpenStreamAfterRollback" {
			sc.OnlyNth = 2
		}
		if spec.hardMs > 0 && sc.Behave == "drop" && sc.Op != "OpenStreamAfterRollback" {
			sc.OnlyNth = 1 // a node that drops every retry until a 60 s deadline is a thorough-tier class
		}
		if sc.Behave == "status" && sc.Status == int(memd.StatusKeyNotFound) && (sc.Op == "MetadataSave" || sc.Op == "MetadataSaveAgain" || sc.Op == "CloseStream") {
			sc.Status = int(memd.StatusAccessError) // key-not-found is a documented, handled outcome there
		}
		if (sc.Status == int(memd.StatusTmpFail) || sc.Status == int(memd.StatusBusy)) && spec.hardMs > 0 {
			sc.Status = int(memd.StatusInvalidArgs) // retried until the 60 s deadline: thorough-only classes are not worth a minute each
		}
		journal("C20", "c20wire", sc)
		d, labels := c20ExecWire(sc)
		journalDone()
		if d != "" {
			violation(rt, "C20", "c20wire", sc, "%s", d)
		}
		cases++
		record("C20", sc, sc.Behave != "prompt", labels...)
	})
	// goroutines return to the baseline (connections of the shared environment are long-lived)
	time.Sleep(300 * time.Millisecond)
	if g := runtime.NumGoroutine(); g > base+60+cases/50 {
		violation(t, "C20", "c20wire", c20Wire{Op: "goroutine-leak"}, "%d goroutines after %d wire cases (baseline %d): operations leave goroutines behind", g, cases, base)
	}
}

func init() {
	registerReplay("c20async", func(raw json.RawMessage) string {
		var sc c20Async
		if err := json.Unmarshal(raw, &sc); err != nil {
			return err.Error()
		}
		return c20ExecAsync(sc)
	})
	registerReplay("c20wire", func(raw json.RawMessage) string {
		var sc c20Wire
		if err := json.Unmarshal(raw, &sc); err != nil {
			return err.Error()
		}
		d, _ := c20ExecWire(sc)
		return d
	})
	_ = gocbcore.ErrTimeout
}

// ---- "exactly the server's outcome": the sequence numbers returned are the node's, all of them ----
// The answer of GetVBucketSeqNos is a map filled from the nodes' replies: when the call returns without an error, every
// vBucket the nodes reported is in it with the node's value - at the moment of the return, not a little later. Generated:
// bucket size (64 / 256 / 1024 vBuckets), 1-3 nodes, the values, the number of back-to-back calls.
type c20SeqNos struct {
	NumVb   int    `json:"numvb"`
	Servers int    `json:"servers"`
	Base    uint64 `json:"base"`
	Step    uint64 `json:"step"`
	Calls   int    `json:"calls"`
	// FailNode k > 0: node (k-1) mod servers answers its request with TMPFAIL, FailDelayMs after it arrived (the other nodes
	// answer at once): the call as a whole was not confirmed
	FailNode    int `json:"fail_node,omitempty"`
	FailDelayMs int `json:"fail_delay_ms,omitempty"`
}

func c20ExecSeqNos(sc c20SeqNos) string {
	e := lbShared(sc.Servers, sc.NumVb, 0)
	e.c.Lock()
	for v := 0; v < sc.NumVb; v++ {
		e.c.High[uint16(v)] = sc.Base + uint64(v)*sc.Step
	}
	if sc.FailNode > 0 {
		bad := (sc.FailNode - 1) % sc.Servers
		e.c.Hook = func(en *simnodeEntry) simnodeAction {
			if en.Cmd == memd.CmdGetAllVBSeqnos && en.Node == bad {
				time.Sleep(time.Duration(sc.FailDelayMs) * time.Millisecond)
				return simnodeAction{Kind: simnodeStatus, Status: memd.StatusTmpFail}
			}
			return simnodeAction{}
		}
	}
	e.c.Unlock()
	for i := 0; i < sc.Calls; i++ {
		m, err := e.client.GetVBucketSeqNos(false)
		if sc.FailNode > 0 {
			if err == nil {
				n := 0
				for v := 0; v < sc.NumVb; v++ {
					if _, ok := m.Load(uint16(v)); ok {
						n++
					}
				}
				return fmt.Sprintf("call %d: node %d of %d answered its sequence-number request with TMPFAIL (%d ms after the others answered), yet GetVBucketSeqNos reported success (with %d of %d vBuckets): success for an operation the server did not confirm", i, (sc.FailNode-1)%sc.Servers, sc.Servers, sc.FailDelayMs, n, sc.NumVb)
			}
			continue
		}
		if err != nil {
			return "HARNESS: healthy node, GetVBucketSeqNos failed: " + err.Error()
		}
		// inspected right at the return, as checkpoint.Load and the metric collector do
		missing, wrong, first := 0, 0, -1
		for v := 0; v < sc.NumVb; v++ {
			got, ok := m.Load(uint16(v))
			if !ok {
				missing++
			} else if got != sc.Base+uint64(v)*sc.Step {
				wrong++
			}
			if (!ok || got != sc.Base+uint64(v)*sc.Step) && first < 0 {
				first = v
			}
		}
		if missing+wrong > 0 {
			return fmt.Sprintf("call %d returned success, but at that moment %d of the %d vBuckets the node reported were missing from the result and %d had another value than the node's (first: vb %d): not the server's outcome", i, missing, sc.NumVb, wrong, first)
		}
	}
	return ""
}

func TestC20_SeqNosComplete(t *testing.T) {
	rapid.Check(t, func(rt *rapid.T) {
		sc := c20SeqNos{NumVb: rapid.SampledFrom([]int{64, 256, 1024, 1024}).Draw(rt, "numvb"), Servers: rapid.IntRange(1, 3).Draw(rt, "servers"),
			Base: rapid.Uint64Range(1, 1<<40).Draw(rt, "base"), Step: rapid.Uint64Range(0, 1000).Draw(rt, "step"), Calls: rapid.IntRange(1, 12).Draw(rt, "calls")}
		if rapid.IntRange(0, 2).Draw(rt, "failing") == 0 {
			sc.FailNode = rapid.IntRange(1, 3).Draw(rt, "failnode")
			sc.FailDelayMs = rapid.SampledFrom([]int{0, 5, 40, 150}).Draw(rt, "faildelay")
			if sc.Calls > 4 {
				sc.Calls = 4
			}
		}
		journal("C20", "c20seqnos", sc)
		d := c20ExecSeqNos(sc)
		journalDone()
		if strings.HasPrefix(d, "HARNESS") {
			rt.Fatalf("%s", d)
		}
		if d != "" {
			violation(rt, "C20", "c20seqnos", sc, "%s", d)
		}
		labs := []string{"seqnos_complete_cases"}
		if sc.FailNode > 0 {
			labs = append(labs, "seqnos_one_node_fails")
			if sc.Servers >= 2 && sc.FailDelayMs > 0 {
				labs = append(labs, "seqnos_one_node_fails_after_the_others_answered")
			}
		}
		record("C20", sc, sc.NumVb >= 256 || sc.FailNode > 0, labs...)
	})
}

func init() {
	registerReplay("c20seqnos", func(raw json.RawMessage) string {
		var sc c20SeqNos
		if err := json.Unmarshal(raw, &sc); err != nil {
			return err.Error()
		}
		for i := 0; i < 5; i++ { // a race between the return and the filling of the map: several attempts
			if d := c20ExecSeqNos(sc); d != "" && !strings.HasPrefix(d, "HARNESS") {
				return d
			}
		}
		return ""
	})
}

// repaired defect: its replay must hold now
func TestC20_Fixed(t *testing.T) {
	for _, f := range []string{"findings/C20_seqnos_error_dropped.json"} {
		if d := runReplayFile(verifRoot() + "/" + f); d != "" {
			violation(t, "C20", "c20wire", c20Wire{Op: "GetVBucketSeqNos", Behave: "drop", OnlyNth: 1, DeadMs: 120}, "regression of a repaired defect (%s): %s", f, d)
		}
		record("C20", f, false, "fixed_replay")
	}
}

// ---- checkpoint read through cbMetadata.Load (context.Background + a hard-coded 5 s deadline; errors are a
// fail-stop on a library goroutine, hence a child process) ----

type c20Load struct {
	Behave string `json:"behave"` // prompt | missing | silent | status | no_xattr | other_xattr | empty_xattr
	Status int    `json:"status"`
}

func c20LoadChild(raw json.RawMessage) any {
	var sc c20Load
	_ = json.Unmarshal(raw, &sc)
	e := newLBFresh(1, 16, 0)
	e.cfg.Dcp.Group.Name = "c20"
	switch sc.Behave {
	case "no_xattr", "other_xattr", "empty_xattr":
		// the document exists but carries no (usable) checkpoint attribute: the node answers the lookup with a
		// multi-path failure whose single path reports PATH_ENOENT (a first save that died between creating the
		// document and writing the attribute leaves exactly this behind)
		x := map[string][]byte{}
		if sc.Behave == "other_xattr" {
			x["other"] = []byte(`{"a":1}`)
		}
		if sc.Behave == "empty_xattr" {
			x["cbgo"] = []byte(`{}`)
		}
		e.c.Lock()
		e.c.Docs["_connector:cbgo:c20:checkpoint:5"] = &simnode.Doc{Body: []byte(`{}`), Cas: 9, Xattr: x}
		e.c.Unlock()
	}
	if sc.Behave != "missing" && !strings.HasSuffix(sc.Behave, "_xattr") {
		e.c.Lock()
		e.c.Docs["_connector:cbgo:c20:checkpoint:5"] = &simnode.Doc{Body: []byte(`{}`), Cas: 9,
			Xattr: map[string][]byte{"cbgo": []byte(`{"checkpoint":{"vbuuid":7,"seqno":3,"snapshot":{"startSeqno":1,"endSeqno":4}},"bucketUuid":"u"}`)}}
		e.c.Unlock()
	}
	e.c.Lock()
	e.c.Hook = func(en *simnodeEntry) simnodeAction {
		if en.Cmd != memd.CmdSubDocMultiLookup {
			return simnodeAction{}
		}
		switch sc.Behave {
		case "silent":
			return simnodeAction{Kind: simnodeSilent}
		case "status":
			return simnodeAction{Kind: simnodeStatus, Status: memd.StatusCode(sc.Status)}
		}
		return simnodeAction{}
	}
	e.c.Unlock()
	md := couchbase.NewCBMetadata(e.client, e.cfg)
	type out struct {
		Seq   uint64
		Exist bool
		Err   string
	}
	res := make(chan out, 1)
	t0 := time.Now()
	go func() {
		st, exist, err := md.Load([]uint16{5}, "u")
		o := out{Exist: exist, Err: fmt.Sprint(err)}
		if st != nil {
			if d, ok := st.Load(5); ok && d != nil && d.Checkpoint != nil {
				o.Seq = d.Checkpoint.SeqNo
			}
		}
		res <- o
	}()
	select {
	case o := <-res:
		return map[string]any{"returned": true, "ms": time.Since(t0).Milliseconds(), "seq": o.Seq, "exist": o.Exist, "err": o.Err}
	case <-time.After(9 * time.Second):
		return map[string]any{"returned": false, "ms": time.Since(t0).Milliseconds()}
	}
}

func c20ExecLoad(sc c20Load) string {
	r := runChild("c20load", sc, 60*time.Second)
	var res struct {
		Returned bool   `json:"returned"`
		Ms       int64  `json:"ms"`
		Seq      uint64 `json:"seq"`
		Exist    bool   `json:"exist"`
		Err      string `json:"err"`
	}
	_ = json.Unmarshal(r.Result, &res)
	died := r.Exit != 0
	switch sc.Behave {
	case "prompt":
		if died || !res.Returned || res.Seq != 3 || !res.Exist {
			return fmt.Sprintf("checkpoint read against a healthy node: died=%v %+v %s", died, res, firstLine(r.Stderr))
		}
	case "missing":
		if died || !res.Returned || res.Exist || res.Seq != 0 {
			return fmt.Sprintf("checkpoint read of a missing document must report 'no checkpoint': died=%v %+v %s", died, res, firstLine(r.Stderr))
		}
	case "no_xattr", "other_xattr", "empty_xattr":
		// the node answered promptly: the read must end (value, "no checkpoint", an error or a fail-stop), never hang,
		// and must not invent a position
		if !died && !res.Returned {
			return fmt.Sprintf("the node answered the checkpoint read promptly (document without a usable attribute: %s), yet the read did not return within 9 s: the operation hangs", sc.Behave)
		}
		if !died && res.Seq != 0 {
			return fmt.Sprintf("the checkpoint read reported position %d for a document without a checkpoint attribute (%s)", res.Seq, sc.Behave)
		}
	default:
		// silence / an error status: the read must end by its (5 s) deadline with an error - which the loader
		// turns into a fail-stop -, never hang and never report a checkpoint
		if !died {
			if !res.Returned {
				return fmt.Sprintf("the checkpoint read neither returned nor failed within 9 s of a node behaving '%s' (its deadline is 5 s): the operation hangs", sc.Behave)
			}
			if res.Exist || res.Seq != 0 {
				return fmt.Sprintf("the checkpoint read reported a checkpoint (%+v) although the node behaved '%s'", res, sc.Behave)
			}
			if sc.Behave == "silent" {
				return fmt.Sprintf("the node never answered the checkpoint read, yet the loader carried on without an error (%+v)", res)
			}
		}
	}
	return ""
}

func TestC20_CheckpointRead(t *testing.T) {
	scs := []c20Load{{Behave: "prompt"}, {Behave: "missing"}, {Behave: "silent"}, {Behave: "status", Status: int(memd.StatusAccessError)},
		{Behave: "no_xattr"}, {Behave: "other_xattr"}, {Behave: "empty_xattr"}}
	if thorough() {
		scs = append(scs, c20Load{Behave: "status", Status: int(memd.StatusInternalError)}, c20Load{Behave: "silent"})
	}
	out := make([]string, len(scs))
	var wg sync.WaitGroup
	for i := range scs {
		wg.Add(1)
		go func(i int) { defer wg.Done(); out[i] = c20ExecLoad(scs[i]) }(i)
	}
	wg.Wait()
	for i, d := range out {
		if d != "" {
			violation(t, "C20", "c20load", scs[i], "%s", d)
		}
		record("C20", scs[i], scs[i].Behave != "prompt" && scs[i].Behave != "missing", "checkpoint_read_cases")
	}
}

func init() {
	registerChild("c20load", c20LoadChild)
	registerReplay("c20load", func(raw json.RawMessage) string {
		var sc c20Load
		if err := json.Unmarshal(raw, &sc); err != nil {
			return err.Error()
		}
		return c20ExecLoad(sc)
	})
}
