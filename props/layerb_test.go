package props

// Layer B (DESIGN 2.1): the real couchbase/client.go, metadata.go, membership.go,
// rollback_mitigation.go, doc_op.go, async_op.go run over real gocbcore agents connected to the
// simulated cluster (verif/simnode). One environment per cluster shape is kept per process; the
// node state is reset per case.

import (
	"fmt"
	"sync"
	"time"

	"github.com/Trendyol/go-dcp/config"
	"github.com/Trendyol/go-dcp/couchbase"
	"github.com/Trendyol/go-dcp/metadata"
	"github.com/Trendyol/go-dcp/stream"
	"github.com/Trendyol/go-dcp/tracing"
	"github.com/couchbase/gocbcore/v10"
	"github.com/couchbase/gocbcore/v10/memd"

	"verif/simnode"
)

type lbEnv struct {
	c      *simnode.Cluster
	agent  *gocbcore.Agent
	dcp    *gocbcore.DCPAgent
	cfg    *config.Dcp
	client couchbase.Client
}

var (
	lbMu   sync.Mutex
	lbEnvs = map[string]*lbEnv{}
)

func lbConfig() *config.Dcp {
	cfg := laConfig()
	cfg.Hosts = []string{"127.0.0.1"}
	cfg.Checkpoint.Timeout = 2 * time.Second
	cfg.ConnectionTimeout = 5 * time.Second
	cfg.HealthCheck.Timeout = time.Second
	return cfg
}

// newLBFresh builds a dedicated environment (own cluster + agents); the caller closes it.
func newLBFresh(servers, numVb, replicas int) *lbEnv {
	c := simnode.New(servers, numVb, replicas)
	agent, err := c.NewAgent()
	if err != nil {
		panic(fmt.Sprintf("harness: KV agent bootstrap on simnode failed: %v", err))
	}
	dcp, err := c.NewDcpAgent("verif-dcp")
	if err != nil {
		panic(fmt.Sprintf("harness: DCP agent bootstrap on simnode failed: %v", err))
	}
	cfg := lbConfig()
	return &lbEnv{c: c, agent: agent, dcp: dcp, cfg: cfg, client: couchbase.VerifNewClient(cfg, agent, agent, dcp)}
}

func (e *lbEnv) close() {
	_ = e.agent.Close()
	_ = e.dcp.Close()
	e.c.Close()
}

// lbShared returns the process-wide environment of a cluster shape, with node state reset.
func lbShared(servers, numVb, replicas int) *lbEnv {
	key := fmt.Sprintf("%d/%d/%d", servers, numVb, replicas)
	lbMu.Lock()
	defer lbMu.Unlock()
	e := lbEnvs[key]
	if e == nil {
		e = newLBFresh(servers, numVb, replicas)
		lbEnvs[key] = e
	}
	e.reset()
	return e
}

func (e *lbEnv) reset() {
	c := e.c
	c.Lock()
	c.Docs = map[string]*simnode.Doc{}
	c.High = map[uint16]uint64{}
	c.Failover = map[uint16][]simnode.FailoverEntry{}
	c.Persist = map[[2]int][2]uint64{}
	c.Hook = nil
	c.OnStreamReq = nil
	c.OnStreamOpen = nil
	c.OnKVWrite = nil
	c.Unlock()
	c.ResetLog()
	// a fresh config + client wrapper per case (the agents are shared)
	e.cfg = lbConfig()
	e.client = couchbase.VerifNewClient(e.cfg, e.agent, e.agent, e.dcp)
}

// ---- small aliases so that the property files read naturally ----

type (
	simnodeEntry  = simnode.Entry
	simnodeAction = simnode.Action
)

const (
	simnodeStatus     = simnode.Status
	simnodeSilent     = simnode.Silent
	simnodeDrop       = simnode.Drop
	simnodeDelay      = simnode.Delay
	cmdObserveSeqNo   = memd.CmdObserveSeqNo
	cmdGet            = memd.CmdGet
	cmdGetFailoverLog = memd.CmdDcpGetFailoverLog
	statusTmpFail     = memd.StatusTmpFail
)

func simnodeNew(servers, numVb, replicas int) *simnode.Cluster {
	return simnode.New(servers, numVb, replicas)
}

func simnodeDoc(seq uint64) simnode.DocEvent {
	return simnode.DocEvent{Seq: seq, Rev: seq, Cas: (1_700_000_000 + seq) * 1_000_000_000, Key: []byte(fmt.Sprintf("k%d", seq)), Value: []byte(`{}`)}
}

func newLBFromCluster(c *simnode.Cluster) *lbEnv {
	agent, err := c.NewAgent()
	if err != nil {
		panic(fmt.Sprintf("harness: KV agent bootstrap on simnode failed: %v", err))
	}
	dcp, err := c.NewDcpAgent("verif-dcp")
	if err != nil {
		panic(fmt.Sprintf("harness: DCP agent bootstrap on simnode failed: %v", err))
	}
	cfg := lbConfig()
	return &lbEnv{c: c, agent: agent, dcp: dcp, cfg: cfg, client: couchbase.VerifNewClient(cfg, agent, agent, dcp)}
}

// newRealStream: the real stream on the real client of the environment; store/consumer/discovery are recorders.
func newRealStream(e *lbEnv, fm *fakeMeta, cons *fakeConsumer, disc *fakeDiscovery, stopCh chan struct{}) stream.Stream {
	return stream.NewStream(e.client, fm, e.cfg, &couchbase.Version{Major: 7}, &couchbase.BucketInfo{BucketType: "membase"},
		disc, cons, map[uint32]string{}, stopCh, &fakeHandler{}, tracing.NewTracerComponent())
}

// streamNew: the real stream on the real client with an arbitrary metadata backend.
func streamNew(e *lbEnv, md metadata.Metadata, cons *fakeConsumer, disc *fakeDiscovery) stream.Stream {
	return stream.NewStream(e.client, md, e.cfg, &couchbase.Version{Major: 7}, &couchbase.BucketInfo{BucketType: "membase"},
		disc, cons, map[uint32]string{}, make(chan struct{}, 1), &fakeHandler{}, tracing.NewTracerComponent())
}
