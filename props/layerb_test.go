package props

// Layer B (DESIGN 2.1): the real couchbase/client.go, metadata.go, membership.go,
// rollback_mitigation.go, doc_op.go, async_op.go run over real gocbcore agents connected to the
// simulated cluster (verif/simnode). One environment per cluster shape is kept per process; the
// node state is reset per case.

import (
	"fmt"
	"sync"
	"time"

	"github.com/Trendyol/go-dcp/config"
	"github.com/Trendyol/go-dcp/couchbase"
	"github.com/couchbase/gocbcore/v10"

	"verif/simnode"
)

type lbEnv struct {
	c      *simnode.Cluster
	agent  *gocbcore.Agent
	dcp    *gocbcore.DCPAgent
	cfg    *config.Dcp
	client couchbase.Client
}

var (
	lbMu   sync.Mutex
	lbEnvs = map[string]*lbEnv{}
)

func lbConfig() *config.Dcp {
	cfg := laConfig()
	cfg.Hosts = []string{"127.0.0.1"}
	cfg.Checkpoint.Timeout = 2 * time.Second
	cfg.ConnectionTimeout = 5 * time.Second
	cfg.HealthCheck.Timeout = time.Second
	return cfg
}

// newLBFresh builds a dedicated environment (own cluster + agents); the caller closes it.
func newLBFresh(servers, numVb, replicas int) *lbEnv {
	c := simnode.New(servers, numVb, replicas)
	agent, err := c.NewAgent()
	if err != nil {
		panic(fmt.Sprintf("harness: KV agent bootstrap on simnode failed: %v", err))
	}
	dcp, err := c.NewDcpAgent("verif-dcp")
	if err != nil {
		panic(fmt.Sprintf("harness: DCP agent bootstrap on simnode failed: %v", err))
	}
	cfg := lbConfig()
	return &lbEnv{c: c, agent: agent, dcp: dcp, cfg: cfg, client: couchbase.VerifNewClient(cfg, agent, agent, dcp)}
}

func (e *lbEnv) close() {
	_ = e.agent.Close()
	_ = e.dcp.Close()
	e.c.Close()
}

// lbShared returns the process-wide environment of a cluster shape, with node state reset.
func lbShared(servers, numVb, replicas int) *lbEnv {
	key := fmt.Sprintf("%d/%d/%d", servers, numVb, replicas)
	lbMu.Lock()
	defer lbMu.Unlock()
	e := lbEnvs[key]
	if e == nil {
		e = newLBFresh(servers, numVb, replicas)
		lbEnvs[key] = e
	}
	e.reset()
	return e
}

func (e *lbEnv) reset() {
	c := e.c
	c.Lock()
	c.Docs = map[string]*simnode.Doc{}
	c.High = map[uint16]uint64{}
	c.Failover = map[uint16][]simnode.FailoverEntry{}
	c.Persist = map[[2]int][2]uint64{}
	c.Hook = nil
	c.OnStreamReq = nil
	c.OnStreamOpen = nil
	c.OnKVWrite = nil
	c.Unlock()
	c.ResetLog()
	// a fresh config + client wrapper per case (the agents are shared)
	e.cfg = lbConfig()
	e.client = couchbase.VerifNewClient(e.cfg, e.agent, e.agent, e.dcp)
}
