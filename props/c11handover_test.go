package props

// C11, leader-assigned membership (kubernetesHa): "a notification repeating the membership already in effect causes no
// interruption" - also when the repetition comes from a NEW leader. Real follower-side serviceDiscovery (what Handler.Rebalance
// and OnBecomeFollower drive), real event bus, real stream subscribed the way Dcp.Start() subscribes it; the steps are those of
// the C10 hand-over unit, the oracle is the stream's: one close/reopen cycle per numbering that differs from the one in effect,
// none for a repetition.

import (
	"encoding/json"
	"fmt"
	"testing"
	"time"

	"github.com/Trendyol/go-dcp/couchbase"
	"github.com/Trendyol/go-dcp/helpers"
	"github.com/Trendyol/go-dcp/membership"
	"github.com/Trendyol/go-dcp/servicediscovery"
	"github.com/Trendyol/go-dcp/stream"
	"github.com/Trendyol/go-dcp/tracing"
	"github.com/asaskevich/EventBus"
	"pgregory.net/rapid"
)

func c11ExecHand(sc c10Hand) string {
	const numVb = 16
	bus := EventBus.New()
	cfg := laConfig()
	cfg.Dcp.Group.Membership.RebalanceDelay = 3 * time.Millisecond
	cl := newFakeClient(numVb)
	hand := &fakeHandler{}
	disc := &fakeDiscovery{}
	disc.set(0, numVb-1)
	stopCh := make(chan struct{}, 1)
	st := stream.NewStream(cl, newFakeMeta(), cfg, &couchbase.Version{Major: 7, Minor: 6}, &couchbase.BucketInfo{BucketType: "membase"},
		disc, &fakeConsumer{}, map[uint32]string{}, stopCh, hand, tracing.NewTracerComponent())
	if ok, pv := within(20*time.Second, func() { st.Open() }); !ok || pv != nil {
		return fmt.Sprintf("HARNESS: Open(): returned=%v panic=%v", ok, pv)
	}
	defer within(20*time.Second, func() { st.Close(false) })
	// the membership object keeps the numbers for the discovery, Dcp.Start() subscribes the stream
	_ = bus.Subscribe(helpers.MembershipChangedBusEventName, func(m *membership.Model) {
		lo, hi := c16Range(numVb, m.TotalMembers, m.MemberNumber)
		disc.set(uint16(lo), uint16(hi))
	})
	_ = bus.SubscribeAsync(helpers.MembershipChangedBusEventName, func(*membership.Model) { st.Rebalance() }, true)
	sd := servicediscovery.NewServiceDiscovery(cfg, bus)
	count := func(name string) int {
		n := 0
		for _, x := range hand.names() {
			if x == name {
				n++
			}
		}
		return n
	}
	var cur *membership.Model
	cycles, leaders := 0, 0
	for i, step := range sc.Steps {
		switch step.Op {
		case "handover":
			leaders++
			sd.DontBeLeader()
			sd.RemoveAll()
			sd.RemoveLeader()
			sd.AssignLeader(servicediscovery.NewService(&fakeFollower{name: fmt.Sprintf("leader%d", leaders), rpcBad: map[int]bool{}}, fmt.Sprintf("leader%d", leaders), int64(leaders)))
			continue
		case "set":
			sd.SetInfo(step.M, step.T)
			bus.WaitAsync()
		}
		m := membership.Model{MemberNumber: step.M, TotalMembers: step.T}
		if cur == nil || *cur != m {
			mm := m
			cur = &mm
			cycles++
			for dl := time.Now().Add(20 * time.Second); count("ARE") < cycles; time.Sleep(200 * time.Microsecond) {
				if deadlinePassed(dl) {
					return fmt.Sprintf("step %d: the numbering changed to %d/%d, the stream did not complete a rebalance (callbacks %v)", i, step.M, step.T, hand.names())
				}
			}
			if lo, hi := c16Range(numVb, step.T, step.M); cl.liveRange() != fmt.Sprintf("%d-%d", lo, hi) {
				return fmt.Sprintf("step %d: after the rebalance to %d/%d the member streams %s, its range is %d-%d", i, step.M, step.T, cl.liveRange(), lo, hi)
			}
			continue
		}
		// a repetition of the numbering in effect (possibly from a new leader): nothing happens - also not a little later
		time.Sleep(4 * cfg.Dcp.Group.Membership.RebalanceDelay)
		if n := count("BRS"); n != cycles {
			return fmt.Sprintf("step %d: the assignment %d/%d repeats the numbering in effect (after %d leader hand-overs), but the stream was interrupted: %d rebalances begun, %d numbering changes (callbacks %v)", i, step.M, step.T, leaders, n, cycles, hand.names())
		}
	}
	if n := count("BSStop"); n != cycles {
		return fmt.Sprintf("the stream was closed %d times, the numbering changed %d times", n, cycles)
	}
	return ""
}

func TestC11_LeaderHandover(t *testing.T) {
	rapid.Check(t, func(rt *rapid.T) {
		var sc c10Hand
		var last *c10HandStep
		same := false
		for i, k := 0, rapid.IntRange(1, 8).Draw(rt, "steps"); i < k; i++ {
			switch rapid.IntRange(0, 3).Draw(rt, "kind") {
			case 0:
				sc.Steps = append(sc.Steps, c10HandStep{Op: "handover"})
			case 1:
				if last != nil {
					if len(sc.Steps) > 0 && sc.Steps[len(sc.Steps)-1].Op == "handover" {
						same = true
					}
					sc.Steps = append(sc.Steps, *last)
					continue
				}
				fallthrough
			default:
				tt := rapid.IntRange(2, 8).Draw(rt, "t")
				s := c10HandStep{Op: "set", M: rapid.IntRange(2, tt).Draw(rt, "m"), T: tt}
				sc.Steps = append(sc.Steps, s)
				last = &s
			}
		}
		d := c11ExecHand(sc)
		if len(d) > 8 && d[:8] == "HARNESS:" {
			rt.Fatalf("harness trouble: %s", d)
		}
		if d != "" {
			violation(rt, "C11", "c11hand", sc, "%s", d)
		}
		labs := []string{"leader_handover_cases"}
		if same {
			labs = append(labs, "new_leader_repeats_the_numbering_in_effect")
		}
		record("C11", sc, same, labs...)
	})
}

func init() {
	registerReplay("c11hand", func(raw json.RawMessage) string {
		var sc c10Hand
		if err := json.Unmarshal(raw, &sc); err != nil {
			return err.Error()
		}
		d := c11ExecHand(sc)
		if len(d) > 8 && d[:8] == "HARNESS:" {
			return ""
		}
		return d
	})
}
