package props

// C16 — exposed metrics and state endpoints tell the truth (DESIGN §5 C16).
// Real metric.NewMetricCollector over the real stream and the REAL VBucketDiscovery (dynamic
// membership fed through the event bus); Collect is drained and decoded with client_model.

import (
	"encoding/json"
	"fmt"
	"regexp"
	"strconv"
	"testing"
	"time"

	"github.com/Trendyol/go-dcp/helpers"
	"github.com/Trendyol/go-dcp/membership"
	"github.com/Trendyol/go-dcp/metric"
	"github.com/Trendyol/go-dcp/stream"
	"github.com/asaskevich/EventBus"
	"github.com/prometheus/client_golang/prometheus"
	dto "github.com/prometheus/client_model/go"
	"pgregory.net/rapid"
)

type c16Scenario struct {
	H       hScenario   `json:"h"`
	Total   int         `json:"total"`   // initial group size
	Member  int         `json:"member"`  // initial member number
	Scrapes []c16Scrape `json:"scrapes"` // consumed in order by the "scrape" ops
}

type c16Scrape struct {
	Rel    []int `json:"rel"`    // per assigned vBucket (cyclic): high seqno relative to the tracked one: -2,-1,0,+1,+5,...
	SeqErr bool  `json:"seqerr"` // the seqno query fails
}

var fqRe = regexp.MustCompile(`fqName: "([^"]+)"`)

type c16Sample struct {
	name   string
	labels map[string]string
	value  float64
	bad    bool
}

func c16Collect(c prometheus.Collector) (out []c16Sample, panicked any, returned bool) {
	ch := make(chan prometheus.Metric, 100000)
	returned, panicked = within(10*time.Second, func() { c.Collect(ch) })
	if !returned || panicked != nil {
		return nil, panicked, returned
	}
	close(ch)
	for m := range ch {
		s := c16Sample{labels: map[string]string{}}
		if mm := fqRe.FindStringSubmatch(m.Desc().String()); mm != nil {
			s.name = mm[1]
		}
		var d dto.Metric
		if err := m.Write(&d); err != nil {
			s.bad = true
		} else {
			for _, l := range d.Label {
				s.labels[l.GetName()] = l.GetValue()
			}
			switch {
			case d.Gauge != nil:
				s.value = d.Gauge.GetValue()
			case d.Counter != nil:
				s.value = d.Counter.GetValue()
			}
		}
		out = append(out, s)
	}
	return out, nil, true
}

// independent partition rule (C09-checked): first N%T members own floor+1 ids
func c16Range(n, t, m int) (lo, hi int) {
	q, r := n/t, n%t
	lo = (m-1)*q + min(m-1, r)
	size := q
	if m-1 < r {
		size++
	}
	return lo, lo + size - 1
}

func c16Exec(sc c16Scenario) (string, map[string]bool) {
	h := sc.H
	s := newSession(&h, "C16")
	s.cfg.Dcp.Group.Membership.Type = membership.DynamicMembershipType
	bus := EventBus.New()
	total, member := sc.Total, sc.Member
	announce := func() {
		bus.Publish(helpers.MembershipChangedBusEventName, &membership.Model{MemberNumber: member, TotalMembers: total})
		bus.WaitAsync()
	}
	disc := stream.NewVBucketDiscovery(s.cl, s.cfg, h.NumVb, bus)
	s.discI = disc
	col := metric.NewMetricCollector(s.cl, nil, disc)
	_ = col
	announce()
	s.lo, s.hi = c16Range(h.NumVb, total, member)
	// before the first open the collector must not block or crash
	s.openDeferred()
	collector := metric.NewMetricCollector(s.cl, s.st, disc)
	if _, pv, ret := c16Collect(collector); pv != nil || !ret {
		return fmt.Sprintf("scrape before the stream was opened: returned=%v panic=%v", ret, pv), s.labels
	}
	s.openNow()
	s.onRebalance = func(op hOp) (int, int) {
		total = 1 + ((op.Gap%4)+4)%4
		member = 1 + ((op.N%total)+total)%total
		announce()
		return c16Range(h.NumVb, total, member)
	}
	s.scrapeClosed = func() {
		if _, pv, ret := c16Collect(collector); pv != nil || !ret {
			s.fail("C16", "scrape while the stream is closed: returned=%v panic=%v", ret, pv)
		}
		s.label("scrape_while_closed")
	}
	nScrape := 0
	scrape := func() {
		spec := c16Scrape{Rel: []int{3}}
		if nScrape < len(sc.Scrapes) {
			spec = sc.Scrapes[nScrape]
		}
		nScrape++
		if len(spec.Rel) == 0 {
			spec.Rel = []int{0}
		}
		// choose the server's high seqnos relative to the tracked positions
		wantLag := map[uint16]float64{}
		var wantTotal float64
		i := 0
		for v := s.lo; v <= s.hi; v++ {
			m := s.vbs[uint16(v)]
			rel := spec.Rel[i%len(spec.Rel)]
			i++
			high := int64(m.maxSettle) + int64(rel)
			if high < 0 {
				high = 0
			}
			s.cl.setHigh(m.vb, uint64(high))
			if uint64(high) > m.maxSettle {
				wantLag[m.vb] = float64(uint64(high) - m.maxSettle)
			} else if uint64(high) < m.maxSettle {
				s.label("high_below_tracked")
			}
			wantTotal += wantLag[m.vb]
		}
		s.cl.mu.Lock()
		s.cl.seqNoErr = nil
		if spec.SeqErr {
			s.cl.seqNoErr = fmt.Errorf("injected seqno failure")
		}
		s.cl.mu.Unlock()
		samples, pv, ret := c16Collect(collector)
		s.cl.mu.Lock()
		s.cl.seqNoErr = nil
		s.cl.mu.Unlock()
		if pv != nil || !ret {
			s.fail("C16", "scrape: returned=%v panic=%v", ret, pv)
			return
		}
		s.label("scrape")
		per := map[string]map[uint16]float64{}
		single := map[string]float64{}
		for _, x := range samples {
			if vb, ok := x.labels["vbId"]; ok {
				n, _ := strconv.Atoi(vb)
				if per[x.name] == nil {
					per[x.name] = map[uint16]float64{}
				}
				if x.bad {
					continue
				}
				if _, dup := per[x.name][uint16(n)]; dup {
					s.fail("C16", "metric %s reported twice for vb %d", x.name, n)
				}
				per[x.name][uint16(n)] = x.value
			} else if !x.bad {
				single[x.name] = x.value
			}
		}
		chk := func(name string, got, want float64) {
			if got != want {
				s.fail("C16", "%s = %v, in effect: %v", name, got, want)
			}
		}
		for v := s.lo; v <= s.hi; v++ {
			m := s.vbs[uint16(v)]
			for name, want := range map[string]float64{"cbgo_seq_no_current": float64(m.maxSettle), "cbgo_start_seq_no_current": float64(m.maxTuple.Start), "cbgo_end_seq_no_current": float64(m.maxTuple.End)} {
				got, ok := per[name][m.vb]
				if !ok {
					s.fail("C16", "%s missing for assigned vb %d", name, m.vb)
				} else if got != want {
					s.fail("C16", "%s{vb %d} = %v, tracked position is %+v", name, m.vb, got, m.maxTuple)
				}
			}
			if !spec.SeqErr {
				if got, ok := per["cbgo_lag_current"][m.vb]; !ok || got != wantLag[m.vb] {
					s.fail("C16", "cbgo_lag_current{vb %d} = %v (present=%v), want max(0, high - tracked) = %v", m.vb, got, ok, wantLag[m.vb])
				}
			}
			var muts, imuts, dels, idels, exps, iexps float64
			for _, ev := range m.all {
				if ev.skipped {
					continue // dropped before skipUntil: not "accepted"
				}
				switch ev.ev.Kind {
				case "mut":
					muts++
				case "ikey", "txn":
					switch internalForm(ev.ev) {
					case "mut":
						imuts++
					case "del":
						idels++
					case "exp":
						iexps++
					}
				case "del":
					dels++
				case "exp":
					exps++
				}
			}
			if got := per["cbgo_deletion_total"][m.vb]; got < dels || got > dels+idels {
				s.fail("C16", "cbgo_deletion_total{vb %d} = %v, %v deletions were accepted in this session", m.vb, got, dels)
			}
			if got := per["cbgo_expiration_total"][m.vb]; got < exps || got > exps+iexps {
				s.fail("C16", "cbgo_expiration_total{vb %d} = %v, %v expirations were accepted in this session", m.vb, got, exps)
			}
			if got := per["cbgo_mutation_total"][m.vb]; got < muts || got > muts+imuts {
				s.fail("C16", "cbgo_mutation_total{vb %d} = %v, accepted mutations: %v (+%v library-internal)", m.vb, got, muts, imuts)
			}
		}
		for name, m := range per {
			for vb := range m {
				if s.vbs[vb] == nil {
					s.fail("C16", "%s reported for vb %d outside the assigned range %d-%d", name, vb, s.lo, s.hi)
				}
			}
		}
		if !spec.SeqErr {
			chk("cbgo_total_lag_current", single["cbgo_total_lag_current"], wantTotal)
		} else {
			s.label("scrape_seqno_error")
		}
		chk("cbgo_member_number_current", single["cbgo_member_number_current"], float64(member))
		chk("cbgo_total_members_current", single["cbgo_total_members_current"], float64(total))
		chk("cbgo_vbucket_count_current", single["cbgo_vbucket_count_current"], float64(h.NumVb))
		chk("cbgo_vbucket_range_start_current", single["cbgo_vbucket_range_start_current"], float64(s.lo))
		chk("cbgo_vbucket_range_end_current", single["cbgo_vbucket_range_end_current"], float64(s.hi))
		chk("cbgo_active_stream_current", single["cbgo_active_stream_current"], float64(s.hi-s.lo+1))
		chk("cbgo_rebalance_current", single["cbgo_rebalance_current"], float64(s.rebalances))
		if s.rebalances > 0 {
			s.label("scrape_after_rebalance")
		}
	}
	for i, op := range h.Ops {
		s.step = i + 1
		switch op.Op {
		case "deliver":
			s.deliver(op)
		case "ack":
			s.ack(op)
		case "ackidx":
			s.ackIdx(op)
		case "save":
			s.save(op)
		case "rebalance":
			s.rebalance(op)
		case "scrape":
			scrape()
		}
		if s.viol != nil {
			break
		}
	}
	s.step = len(h.Ops) + 1
	if s.viol == nil {
		scrape()
	}
	s.finish()
	if s.viol != nil {
		return s.viol.Detail, s.labels
	}
	return "", s.labels
}

func TestC16_Metrics(t *testing.T) {
	w := hWeights{deliver: 42, ack: 20, ackidx: 8, save: 6, rebalance: 6, scrape: 14, absorbed: 18, maxVb: 1, minOps: 1, maxOps: scale(60, 200)}
	relGen := rapid.SliceOfN(rapid.SampledFrom([]int{-3, -1, 0, 0, 1, 2, 7, 1000}), 1, 6)
	rapid.Check(t, func(rt *rapid.T) {
		sc := c16Scenario{H: genHistory(rt, w)}
		sc.H.NumVb = rapid.SampledFrom([]int{8, 16, 64}).Draw(rt, "numvb2")
		sc.Total = rapid.IntRange(1, 4).Draw(rt, "total")
		sc.Member = rapid.IntRange(1, sc.Total).Draw(rt, "member")
		sc.H.Lo, sc.H.Hi = c16Range(sc.H.NumVb, sc.Total, sc.Member)
		if rapid.IntRange(0, 2).Draw(rt, "skipuntil") == 0 {
			sc.H.SkipAt = rapid.IntRange(2, 25).Draw(rt, "skipat") // document events older than that are dropped, and must not be counted
		}
		n := 1
		for _, op := range sc.H.Ops {
			if op.Op == "scrape" {
				n++
			}
		}
		for i := 0; i < n; i++ {
			sc.Scrapes = append(sc.Scrapes, c16Scrape{Rel: relGen.Draw(rt, "rel"), SeqErr: rapid.IntRange(0, 9).Draw(rt, "seqerr") == 9})
		}
		journal("C16", "c16", sc)
		d, labels := c16Exec(sc)
		journalDone()
		if d != "" {
			violation(rt, "C16", "c16", sc, "%s", d)
		}
		record("C16", sc, labels["high_below_tracked"] && labels["scrape_after_rebalance"], append(labelList(labels), "histories")...)
	})
}

func init() {
	registerReplay("c16", func(raw json.RawMessage) string {
		var sc c16Scenario
		if err := json.Unmarshal(raw, &sc); err != nil {
			return err.Error()
		}
		d, _ := c16Exec(sc)
		return d
	})
}
