package props

// C16 — exposed metrics and state endpoints tell the truth (DESIGN §5 C16).
// Real metric.NewMetricCollector over the real stream and the REAL VBucketDiscovery (dynamic
// membership fed through the event bus); Collect is drained and decoded with client_model.

import (
	"encoding/json"
	"fmt"
	"github.com/Trendyol/go-dcp/api"
	"io"
	"net/http"
	"os"
	"regexp"
	"strconv"
	"strings"
	"testing"
	"time"

	"github.com/Trendyol/go-dcp/helpers"
	"github.com/Trendyol/go-dcp/membership"
	"github.com/Trendyol/go-dcp/metric"
	"github.com/Trendyol/go-dcp/stream"
	"github.com/asaskevich/EventBus"
	"github.com/prometheus/client_golang/prometheus"
	dto "github.com/prometheus/client_model/go"
	"pgregory.net/rapid"
)

type c16Scenario struct {
	H       hScenario   `json:"h"`
	Total   int         `json:"total"`   // initial group size
	Member  int         `json:"member"`  // initial member number
	Scrapes []c16Scrape `json:"scrapes"` // consumed in order by the "scrape" ops
	// ViaHTTP: the scrapes go through the real HTTP API (fiber + prometheus registry on a local port, child process):
	// GET <metric path> instead of Collect(), and GET /states/offset is compared with the tracked positions as well
	ViaHTTP bool `json:"via_http,omitempty"`
	// Delayed: the stream's membership type is not "dynamic": the reopen of a rebalance waits for the rebalance delay, and
	// some rebalances are triggered twice within it (merged into one)
	Delayed bool `json:"delayed,omitempty"`
}

type c16Scrape struct {
	Rel    []int `json:"rel"`    // per assigned vBucket (cyclic): high seqno relative to the tracked one: -2,-1,0,+1,+5,...
	SeqErr bool  `json:"seqerr"` // the seqno query fails
}

var fqRe = regexp.MustCompile(`fqName: "([^"]+)"`)

type c16Sample struct {
	name   string
	labels map[string]string
	value  float64
	bad    bool
}

func c16Collect(c prometheus.Collector) (out []c16Sample, panicked any, returned bool) {
	ch := make(chan prometheus.Metric, 100000)
	returned, panicked = within(10*time.Second, func() { c.Collect(ch) })
	if !returned || panicked != nil {
		return nil, panicked, returned
	}
	close(ch)
	for m := range ch {
		s := c16Sample{labels: map[string]string{}}
		if mm := fqRe.FindStringSubmatch(m.Desc().String()); mm != nil {
			s.name = mm[1]
		}
		var d dto.Metric
		if err := m.Write(&d); err != nil {
			s.bad = true
		} else {
			for _, l := range d.Label {
				s.labels[l.GetName()] = l.GetValue()
			}
			switch {
			case d.Gauge != nil:
				s.value = d.Gauge.GetValue()
			case d.Counter != nil:
				s.value = d.Counter.GetValue()
			}
		}
		out = append(out, s)
	}
	return out, nil, true
}

// independent partition rule (C09-checked): first N%T members own floor+1 ids
func c16Range(n, t, m int) (lo, hi int) {
	q, r := n/t, n%t
	lo = (m-1)*q + min(m-1, r)
	size := q
	if m-1 < r {
		size++
	}
	return lo, lo + size - 1
}

func c16Exec(sc c16Scenario) (string, map[string]bool) {
	if sc.ViaHTTP && os.Getenv("VERIF_CHILD") == "" {
		r := runChild("c16http", sc, 120*time.Second)
		if r.TimeOut {
			return "scrapes through the HTTP API: the scenario hung", map[string]bool{}
		}
		if r.Exit != 0 {
			return fmt.Sprintf("scrapes through the HTTP API: the process died (exit %d): %s", r.Exit, firstLine(r.Stderr)), map[string]bool{}
		}
		var res struct {
			Detail string          `json:"detail"`
			Labels map[string]bool `json:"labels"`
		}
		if err := json.Unmarshal(r.Result, &res); err != nil {
			return "HARNESS: no result from the child: " + r.Stdout, map[string]bool{}
		}
		if res.Labels == nil {
			res.Labels = map[string]bool{}
		}
		res.Labels["scraped_through_http_api"] = true
		return res.Detail, res.Labels
	}
	h := sc.H
	s := newSession(&h, "C16")
	// the discovery object takes its numbers from the bus (dynamic membership); the stream either reopens at once (dynamic
	// membership) or after the rebalance delay (every other membership type), during which further notifications are merged
	cfgD := *s.cfg
	cfgD.Dcp.Group.Membership.Type = membership.DynamicMembershipType
	s.cfg.Dcp.Group.Membership.Type = membership.DynamicMembershipType
	if sc.Delayed {
		s.cfg.Dcp.Group.Membership.Type = membership.CouchbaseMembershipType
	}
	bus := EventBus.New()
	total, member := sc.Total, sc.Member
	announce := func() {
		bus.Publish(helpers.MembershipChangedBusEventName, &membership.Model{MemberNumber: member, TotalMembers: total})
		bus.WaitAsync()
	}
	disc := stream.NewVBucketDiscovery(s.cl, &cfgD, h.NumVb, bus)
	s.discI = disc
	col := metric.NewMetricCollector(s.cl, nil, disc)
	_ = col
	announce()
	s.lo, s.hi = c16Range(h.NumVb, total, member)
	// before the first open the collector must not block or crash
	s.openDeferred()
	collector := metric.NewMetricCollector(s.cl, s.st, disc)
	collect := func() ([]c16Sample, any, bool) { return c16Collect(collector) }
	offsetsViaAPI := func() (map[uint16]uint64, bool) { return nil, false }
	if sc.ViaHTTP {
		s.cfg.Debug = true // /states/offset is a debug endpoint
		s.cfg.API.Disabled = false
		s.cfg.API.Port = freePort()
		s.cfg.Metric.Path = "/metrics"
		a := api.NewAPI(s.cfg, s.cl, s.st, nil, []prometheus.Collector{collector}, bus)
		go a.Listen()
		base := fmt.Sprintf("http://127.0.0.1:%d", s.cfg.API.Port)
		hc := &http.Client{Timeout: 10 * time.Second}
		for i := 0; i < 400; i++ {
			if resp, err := hc.Get(base + "/rebalance-not-there"); err == nil {
				resp.Body.Close()
				break
			}
			time.Sleep(5 * time.Millisecond)
		}
		collect = func() (out []c16Sample, pv any, ret bool) {
			resp, err := hc.Get(base + "/metrics")
			if err != nil {
				return nil, fmt.Sprintf("GET /metrics: %v", err), true
			}
			defer resp.Body.Close()
			body, _ := io.ReadAll(resp.Body)
			if resp.StatusCode != 200 {
				return nil, fmt.Sprintf("GET /metrics: status %d: %s", resp.StatusCode, strings.ReplaceAll(string(body), "\n", " / ")), true
			}
			return c16ParseExposition(string(body)), nil, true
		}
		offsetsViaAPI = func() (map[uint16]uint64, bool) {
			resp, err := hc.Get(base + "/states/offset")
			if err != nil {
				return nil, false
			}
			defer resp.Body.Close()
			body, _ := io.ReadAll(resp.Body)
			var raw map[string]struct {
				SeqNo uint64 `json:"SeqNo"`
			}
			if json.Unmarshal(body, &raw) != nil {
				return nil, false // "stream is not open" text
			}
			out := map[uint16]uint64{}
			for k, v := range raw {
				n, _ := strconv.Atoi(k)
				out[uint16(n)] = v.SeqNo
			}
			return out, true
		}
	}
	if _, pv, ret := collect(); pv != nil || !ret {
		return fmt.Sprintf("scrape before the stream was opened: returned=%v panic=%v", ret, pv), s.labels
	}
	s.openNow()
	var scrape func()
	s.onRebalance = func(op hOp) (int, int) {
		nt := 1 + ((op.Gap%4)+4)%4
		nm := 1 + ((op.N%nt)+nt)%nt
		if ((op.Snap%2)+2)%2 == 0 && s.viol == nil {
			// the new membership information has arrived, the stream has not reacted yet: it still streams the old range with
			// the old numbers, and those are the values in effect until it has been reopened
			newLo, newHi := s.lo, s.hi
			s.lo, s.hi = s.prevLo, s.prevHi
			bus.Publish(helpers.MembershipChangedBusEventName, &membership.Model{MemberNumber: nm, TotalMembers: nt})
			bus.WaitAsync()
			scrape()
			s.label("scrape_between_info_change_and_reopen")
			s.lo, s.hi = newLo, newHi
			total, member = nt, nm
			return c16Range(h.NumVb, total, member)
		}
		total, member = nt, nm
		announce()
		return c16Range(h.NumVb, total, member)
	}
	s.scrapeClosed = func() {
		if _, pv, ret := collect(); pv != nil || !ret {
			s.fail("C16", "scrape while the stream is closed: returned=%v panic=%v", ret, pv)
		}
		s.label("scrape_while_closed")
	}
	nScrape := 0
	scrape = func() {
		spec := c16Scrape{Rel: []int{3}}
		if nScrape < len(sc.Scrapes) {
			spec = sc.Scrapes[nScrape]
		}
		nScrape++
		if len(spec.Rel) == 0 {
			spec.Rel = []int{0}
		}
		// choose the server's high seqnos relative to the tracked positions
		wantLag := map[uint16]float64{}
		var wantTotal float64
		i := 0
		for v := s.lo; v <= s.hi; v++ {
			m := s.vbs[uint16(v)]
			rel := spec.Rel[i%len(spec.Rel)]
			i++
			high := int64(m.maxSettle) + int64(rel)
			if high < 0 {
				high = 0
			}
			s.cl.setHigh(m.vb, uint64(high))
			if uint64(high) > m.maxSettle {
				wantLag[m.vb] = float64(uint64(high) - m.maxSettle)
			} else if uint64(high) < m.maxSettle {
				s.label("high_below_tracked")
			}
			wantTotal += wantLag[m.vb]
		}
		s.cl.mu.Lock()
		s.cl.seqNoErr = nil
		if spec.SeqErr {
			s.cl.seqNoErr = fmt.Errorf("injected seqno failure")
		}
		s.cl.mu.Unlock()
		samples, pv, ret := collect()
		if offs, ok := offsetsViaAPI(); ok {
			for v := s.lo; v <= s.hi; v++ {
				if m := s.vbs[uint16(v)]; m != nil && offs[m.vb] != m.maxSettle {
					s.fail("C16", "GET /states/offset: vb %d seqNo %d, tracked position is %d", m.vb, offs[m.vb], m.maxSettle)
				}
			}
			for vb := range offs {
				if int(vb) < s.lo || int(vb) > s.hi {
					s.fail("C16", "GET /states/offset lists vb %d outside the assigned range %d-%d", vb, s.lo, s.hi)
				}
			}
			s.label("state_endpoint_compared")
		}
		s.cl.mu.Lock()
		s.cl.seqNoErr = nil
		s.cl.mu.Unlock()
		if str, isStr := pv.(string); isStr && spec.SeqErr && strings.Contains(str, "injected seqno failure") {
			// through HTTP the registry answers a scrape that contains an invalid sample (the lag of a failed sequence-number
			// query) with status 500 and the collector's error: nothing untrue was exposed
			s.label("scrape_seqno_error")
			s.label("scrape_http_500_on_seqno_error")
			return
		}
		if pv != nil || !ret {
			s.fail("C16", "scrape: returned=%v panic=%v", ret, pv)
			return
		}
		s.label("scrape")
		per := map[string]map[uint16]float64{}
		single := map[string]float64{}
		for _, x := range samples {
			if vb, ok := x.labels["vbId"]; ok {
				n, _ := strconv.Atoi(vb)
				if per[x.name] == nil {
					per[x.name] = map[uint16]float64{}
				}
				if x.bad {
					continue
				}
				if _, dup := per[x.name][uint16(n)]; dup {
					s.fail("C16", "metric %s reported twice for vb %d", x.name, n)
				}
				per[x.name][uint16(n)] = x.value
			} else if !x.bad {
				single[x.name] = x.value
			}
		}
		chk := func(name string, got, want float64) {
			if got != want {
				s.fail("C16", "%s = %v, in effect: %v", name, got, want)
			}
		}
		for v := s.lo; v <= s.hi; v++ {
			m := s.vbs[uint16(v)]
			for name, want := range map[string]float64{"cbgo_seq_no_current": float64(m.maxSettle), "cbgo_start_seq_no_current": float64(m.maxTuple.Start), "cbgo_end_seq_no_current": float64(m.maxTuple.End)} {
				got, ok := per[name][m.vb]
				if !ok {
					s.fail("C16", "%s missing for assigned vb %d", name, m.vb)
				} else if got != want {
					s.fail("C16", "%s{vb %d} = %v, tracked position is %+v", name, m.vb, got, m.maxTuple)
				}
			}
			if !spec.SeqErr {
				if got, ok := per["cbgo_lag_current"][m.vb]; !ok || got != wantLag[m.vb] {
					s.fail("C16", "cbgo_lag_current{vb %d} = %v (present=%v), want max(0, high - tracked) = %v", m.vb, got, ok, wantLag[m.vb])
				}
			} else if got, ok := per["cbgo_lag_current"][m.vb]; ok && got != wantLag[m.vb] {
				// the sequence-number query of this scrape failed: the lag is exposed as an invalid sample (or not at all) - a
				// valid sample is a statement about the server's high seqno NOW like any other
				s.fail("C16", "cbgo_lag_current{vb %d} = %v although the sequence-number query of this scrape failed; the server's high seqno is %v above the tracked position", m.vb, got, wantLag[m.vb])
			}
			var muts, imuts, dels, idels, exps, iexps float64
			for _, ev := range m.all {
				if ev.skipped {
					continue // dropped before skipUntil: not "accepted"
				}
				switch ev.ev.Kind {
				case "mut":
					muts++
				case "ikey", "txn":
					switch internalForm(ev.ev) {
					case "mut":
						imuts++
					case "del":
						idels++
					case "exp":
						iexps++
					}
				case "del":
					dels++
				case "exp":
					exps++
				}
			}
			if got := per["cbgo_deletion_total"][m.vb]; got < dels || got > dels+idels {
				s.fail("C16", "cbgo_deletion_total{vb %d} = %v, %v deletions were accepted in this session", m.vb, got, dels)
			}
			if got := per["cbgo_expiration_total"][m.vb]; got < exps || got > exps+iexps {
				s.fail("C16", "cbgo_expiration_total{vb %d} = %v, %v expirations were accepted in this session", m.vb, got, exps)
			}
			if got := per["cbgo_mutation_total"][m.vb]; got < muts || got > muts+imuts {
				s.fail("C16", "cbgo_mutation_total{vb %d} = %v, accepted mutations: %v (+%v library-internal)", m.vb, got, muts, imuts)
			}
		}
		for name, m := range per {
			for vb := range m {
				if s.vbs[vb] == nil {
					s.fail("C16", "%s reported for vb %d outside the assigned range %d-%d", name, vb, s.lo, s.hi)
				}
			}
		}
		if !spec.SeqErr {
			chk("cbgo_total_lag_current", single["cbgo_total_lag_current"], wantTotal)
		} else {
			s.label("scrape_seqno_error")
		}
		chk("cbgo_member_number_current", single["cbgo_member_number_current"], float64(member))
		chk("cbgo_total_members_current", single["cbgo_total_members_current"], float64(total))
		chk("cbgo_vbucket_count_current", single["cbgo_vbucket_count_current"], float64(h.NumVb))
		chk("cbgo_vbucket_range_start_current", single["cbgo_vbucket_range_start_current"], float64(s.lo))
		chk("cbgo_vbucket_range_end_current", single["cbgo_vbucket_range_end_current"], float64(s.hi))
		chk("cbgo_active_stream_current", single["cbgo_active_stream_current"], float64(s.hi-s.lo+1))
		chk("cbgo_rebalance_current", single["cbgo_rebalance_current"], float64(s.rebalances))
		if s.rebalances > 0 {
			s.label("scrape_after_rebalance")
		}
	}
	for i, op := range h.Ops {
		s.step = i + 1
		switch op.Op {
		case "deliver":
			s.deliver(op)
		case "ack":
			s.ack(op)
		case "ackidx":
			s.ackIdx(op)
		case "save":
			s.save(op)
		case "rebalance":
			s.rebalance(op)
		case "end":
			s.end(op) // transient causes only: the vBucket is requested again and keeps counting as an active stream
		case "failover":
			s.failover(op)
		case "scrape":
			scrape()
		}
		if s.viol != nil || s.stopped {
			break
		}
	}
	s.step = len(h.Ops) + 1
	if s.viol == nil && !s.stopped {
		scrape()
	}
	s.finish()
	if s.viol != nil {
		return s.viol.Detail, s.labels
	}
	return "", s.labels
}

func TestC16_Metrics(t *testing.T) {
	w := hWeights{deliver: 42, ack: 20, ackidx: 8, save: 6, rebalance: 6, scrape: 14, end: 4, failover: 2, transientOnly: true, absorbed: 18, maxVb: 1, minOps: 1, maxOps: scale(60, 200)}
	relGen := rapid.SliceOfN(rapid.SampledFrom([]int{-3, -1, 0, 0, 1, 2, 7, 1000}), 1, 6)
	rapid.Check(t, func(rt *rapid.T) {
		sc := c16Scenario{H: genHistory(rt, w)}
		sc.H.NumVb = rapid.SampledFrom([]int{8, 16, 64}).Draw(rt, "numvb2")
		sc.Total = rapid.IntRange(1, 4).Draw(rt, "total")
		sc.Member = rapid.IntRange(1, sc.Total).Draw(rt, "member")
		sc.H.Lo, sc.H.Hi = c16Range(sc.H.NumVb, sc.Total, sc.Member)
		sc.ViaHTTP = rapid.IntRange(0, 39).Draw(rt, "viahttp") == 23 // (rapid favours the ends of a range)
		sc.Delayed = rapid.Bool().Draw(rt, "delayed")
		if rapid.IntRange(0, 2).Draw(rt, "skipuntil") == 0 {
			sc.H.SkipAt = rapid.IntRange(2, 25).Draw(rt, "skipat") // document events older than that are dropped, and must not be counted
		}
		n := 1
		for _, op := range sc.H.Ops {
			if op.Op == "scrape" {
				n++
			}
		}
		for i := 0; i < n; i++ {
			sc.Scrapes = append(sc.Scrapes, c16Scrape{Rel: relGen.Draw(rt, "rel"), SeqErr: rapid.IntRange(0, 9).Draw(rt, "seqerr") == 9})
		}
		journal("C16", "c16", sc)
		d, labels := c16Exec(sc)
		journalDone()
		if d != "" {
			violation(rt, "C16", "c16", sc, "%s", d)
		}
		record("C16", sc, labels["high_below_tracked"] && labels["scrape_after_rebalance"], append(labelList(labels), "histories")...)
	})
}

// c16ParseExposition reads the Prometheus text exposition format (cbgo_* samples only).
func c16ParseExposition(body string) []c16Sample {
	var out []c16Sample
	for _, l := range strings.Split(body, "\n") {
		if !strings.HasPrefix(l, "cbgo_") {
			continue
		}
		sp := strings.LastIndexByte(l, ' ')
		if sp < 0 {
			continue
		}
		v, err := strconv.ParseFloat(strings.TrimSpace(l[sp+1:]), 64)
		head := l[:sp]
		x := c16Sample{labels: map[string]string{}, value: v, bad: err != nil}
		if i := strings.IndexByte(head, '{'); i >= 0 {
			x.name = head[:i]
			for _, kv := range strings.Split(strings.TrimSuffix(head[i+1:], "}"), ",") {
				if j := strings.IndexByte(kv, '='); j > 0 {
					x.labels[kv[:j]] = strings.Trim(kv[j+1:], "\"")
				}
			}
		} else {
			x.name = head
		}
		out = append(out, x)
	}
	return out
}

func init() {
	registerChild("c16http", func(raw json.RawMessage) any {
		var sc c16Scenario
		_ = json.Unmarshal(raw, &sc)
		d, labels := c16Exec(sc)
		return map[string]any{"detail": d, "labels": labels}
	})
	registerReplay("c16", func(raw json.RawMessage) string {
		var sc c16Scenario
		if err := json.Unmarshal(raw, &sc); err != nil {
			return err.Error()
		}
		d, _ := c16Exec(sc)
		return d
	})
}
