package props

import (
	"bytes"
	"context"
	"encoding/json"
	"fmt"
	"io"
	"os"
	"os/exec"
	"strings"
	"time"
)

// Child mode: the test binary re-executes itself with VERIF_CHILD=<unit>; the scenario
// arrives on stdin as JSON, the result leaves on stdout as one JSON line prefixed by
// "RESULT ". Used where a crash or a hang of the library *is* the observable outcome.

var children = map[string]func(raw json.RawMessage) any{}

func registerChild(unit string, f func(raw json.RawMessage) any) { children[unit] = f }

func childMain() {
	unit := os.Getenv("VERIF_CHILD")
	f := children[unit]
	if f == nil {
		fmt.Fprintf(os.Stderr, "no child unit %q\n", unit)
		os.Exit(97)
	}
	raw, err := io.ReadAll(os.Stdin)
	if err != nil {
		os.Exit(98)
	}
	res := f(raw)
	// a panic on a library goroutine may be in flight while its deferred calls already released this
	// goroutine (errgroup's deferred done()): give it the time to take the process down, as it would in production
	time.Sleep(60 * time.Millisecond)
	b, _ := json.Marshal(res)
	fmt.Printf("RESULT %s\n", b)
	os.Exit(0)
}

type childResult struct {
	Exit    int             // process exit code (-1: killed by the deadline)
	Result  json.RawMessage // RESULT line, if the child finished its function
	Stderr  string          // tail of stderr (library panic message etc.)
	Stdout  string
	TimeOut bool
	Wall    time.Duration
}

// runChild executes one scenario in a fresh process of this test binary.
func runChild(unit string, sc any, timeout time.Duration, extraEnv ...string) childResult {
	in, _ := json.Marshal(sc)
	ctx, cancel := context.WithTimeout(context.Background(), timeout)
	defer cancel()
	cmd := exec.CommandContext(ctx, os.Args[0], "-test.run", "^$")
	cmd.Env = append(os.Environ(), "VERIF_CHILD="+unit, "VERIF_STATS_OUT=", "VERIF_INFLIGHT=", "VERIF_REPLAY_OUT=")
	cmd.Env = append(cmd.Env, extraEnv...)
	cmd.Stdin = bytes.NewReader(in)
	var so, se bytes.Buffer
	cmd.Stdout, cmd.Stderr = &so, &se
	t0 := time.Now()
	err := cmd.Run()
	r := childResult{Wall: time.Since(t0), Stdout: so.String()}
	if ctx.Err() != nil {
		r.TimeOut = true
		r.Exit = -1
	} else if err != nil {
		r.Exit = 1
		if ee, ok := err.(*exec.ExitError); ok {
			r.Exit = ee.ExitCode()
		}
	}
	for _, l := range strings.Split(so.String(), "\n") {
		if strings.HasPrefix(l, "RESULT ") {
			r.Result = json.RawMessage(strings.TrimPrefix(l, "RESULT "))
		}
	}
	s := se.String()
	if len(s) > 1500 {
		s = s[:1500]
	}
	r.Stderr = s
	return r
}
