package props

import (
	"encoding/json"
	"fmt"
	"io"
	"os"
)

// Child mode: the test binary re-executes itself with VERIF_CHILD=<unit>; the scenario
// arrives on stdin as JSON, the result leaves on stdout as one JSON line prefixed by
// "RESULT ". Used where a crash or a hang of the library *is* the observable outcome.

var children = map[string]func(raw json.RawMessage) any{}

func registerChild(unit string, f func(raw json.RawMessage) any) { children[unit] = f }

func childMain() {
	unit := os.Getenv("VERIF_CHILD")
	f := children[unit]
	if f == nil {
		fmt.Fprintf(os.Stderr, "no child unit %q\n", unit)
		os.Exit(97)
	}
	raw, err := io.ReadAll(os.Stdin)
	if err != nil {
		os.Exit(98)
	}
	res := f(raw)
	b, _ := json.Marshal(res)
	fmt.Printf("RESULT %s\n", b)
	os.Exit(0)
}
