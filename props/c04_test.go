package props

// C04 — tracked position only moves forward and equals the furthest settled event (DESIGN §5 C04).

import (
	"encoding/json"
	"fmt"
	"github.com/Trendyol/go-dcp/metadata"
	"github.com/Trendyol/go-dcp/models"
	"sync"
	"testing"
	"time"

	"pgregory.net/rapid"
)

func c04Weights() hWeights {
	return hWeights{deliver: 36, ack: 8, ackidx: 26, save: 8, savebegin: 2, saveend: 2, rebalance: 7, ackold: 17, failover: 3, end: 4, transientOnly: true,
		absorbed: 12, maxVb: scale(4, 8), minOps: 1, maxOps: scale(70, 250)}
}

func c04Run(sc *hScenario) (*hViolation, map[string]bool) {
	s := newSession(sc, "C04")
	s.cfg.Dcp.Group.Membership.RebalanceDelay = time.Millisecond
	lostAt := map[uint16]uint64{}
	if sc.File {
		// the file backend knows only the vBuckets it was last given: a member can hand vBuckets over, but a rebalance onto
		// vBuckets missing from its file is refused at start-up (C15). Ranges therefore only shrink here.
		s.onRebalance = func(op hOp) (int, int) {
			cur := s.prevHi - s.prevLo + 1
			size := 1 + ((op.Gap%cur)+cur)%cur
			lo := s.prevLo + ((op.N%(cur-size+1))+(cur-size+1))%(cur-size+1)
			// what the file holds for the vBuckets handed over, at the moment they are handed over
			if st, _, err := metadata.NewFSMetadata(s.cfg).Load(nil, ""); err == nil && st != nil {
				for vb := s.prevLo; vb <= s.prevHi; vb++ {
					if vb < lo || vb > lo+size-1 {
						if doc, ok := st.Load(uint16(vb)); ok && doc != nil && doc.Checkpoint != nil {
							lostAt[uint16(vb)] = doc.Checkpoint.SeqNo
						}
					}
				}
			}
			return lo, lo + size - 1
		}
	}
	s.open()
	for i, op := range sc.Ops {
		s.step = i + 1
		switch op.Op {
		case "deliver":
			s.deliver(op)
		case "ack":
			s.ack(op)
		case "ackidx":
			s.ackIdx(op)
		case "save":
			s.save(op)
		case "savebegin", "saveend":
			if s.inflight != nil {
				s.saveEnd(hOp{Op: "saveend"})
			} else {
				s.saveBegin()
			}
		case "rebalance":
			s.rebalance(op)
		case "ackold":
			s.ackOld(op)
		case "end":
			s.end(op)
		case "failover":
			s.failover(op)
		}
		if s.viol != nil || s.stopped {
			break
		}
		// the offsets API view agrees with the model for every assigned vBucket, at every step
		if offs, _, _ := s.st.GetOffsets(); offs != nil {
			for vb, m := range s.vbs {
				if off, ok := offs.Load(vb); ok && off.SeqNo != m.maxSettle {
					s.fail("C04", "vb %d: offsets API reports %d, furthest settled is %d", vb, off.SeqNo, m.maxSettle)
				}
			}
			offs.Range(func(vb uint16, _ *offT) bool {
				// (the file backend hands back every vBucket its file holds, also ones this member no longer owns: their
				// stale entries are listed, and must merely never change - see TestC04_FileHistory)
				if s.vbs[vb] == nil && s.metaI == nil {
					s.fail("C04", "offsets API lists vb %d which is outside the assigned range %d-%d", vb, s.lo, s.hi)
				}
				return true
			})
		}
	}
	s.step = len(sc.Ops) + 1
	// the next save writes exactly the tracked positions and nothing for foreign vBuckets (onDurableWrite checks ownership)
	if s.viol == nil && s.metaI != nil {
		// file backend: the final save writes the tracked position of every owned vBucket; the entries of vBuckets the
		// member no longer owns stay what they were when it last owned them
		anyFlag := false
		for _, m := range s.vbs {
			anyFlag = anyFlag || m.dirtyGen != m.savedGen
		}
		s.save(hOp{Op: "save"})
		if st, _, err := metadata.NewFSMetadata(s.cfg).Load(nil, ""); err == nil && st != nil && s.viol == nil {
			st.Range(func(vb uint16, doc *models.CheckpointDocument) bool {
				if doc == nil || doc.Checkpoint == nil {
					return true
				}
				if m := s.vbs[vb]; m != nil {
					if anyFlag && doc.Checkpoint.SeqNo != m.maxSettle {
						s.fail("C04", "vb %d: the next save (file backend) wrote seq %d, tracked position is %d", vb, doc.Checkpoint.SeqNo, m.maxSettle)
					}
				} else if want, ok := lostAt[vb]; ok && doc.Checkpoint.SeqNo != want {
					// (compared with what the file held when the vBucket was handed over - not with the model's idea of the
					// last save: a Save() with nothing flagged still rewrites the whole file)
					s.fail("C04", "vb %d is not owned by this member any more, yet its checkpoint in the file changed from seq %d to %d", vb, want, doc.Checkpoint.SeqNo)
				}
				return true
			})
		}
	} else if s.viol == nil && s.inflight == nil {
		flagged := map[uint16]bool{}
		for vb, m := range s.vbs {
			flagged[vb] = m.dirtyGen != m.savedGen
		}
		n := s.meta.callCount()
		s.save(hOp{Op: "save"})
		dur := s.meta.snapshot()
		written := map[uint16]bool{}
		if s.meta.callCount() > n {
			s.meta.mu.Lock()
			for _, vb := range s.meta.calls[len(s.meta.calls)-1].Written {
				written[vb] = true
			}
			s.meta.mu.Unlock()
		}
		for vb, m := range s.vbs {
			// (a vBucket advanced only by library-internal keys is tracked but not flagged for saving - C14)
			if (flagged[vb] || written[vb]) && dur[vb].Seq != m.maxSettle {
				s.fail("C04", "vb %d: the next save wrote seq %d, tracked position is %d", vb, dur[vb].Seq, m.maxSettle)
			}
		}
	}
	s.finish()
	return s.viol, s.labels
}

func TestC04_History(t *testing.T) {
	rapid.Check(t, func(rt *rapid.T) {
		sc := genHistory(rt, c04Weights())
		if rapid.IntRange(0, 4).Draw(rt, "skipuntil") == 0 {
			// with dcp.listener.skipUntil: a dropped document event (also one with an old CAS after newer ones) is not settled
			sc.SkipAt = rapid.IntRange(2, 12).Draw(rt, "skipat")
			for i := range sc.Ops {
				if sc.Ops[i].Op == "deliver" && i%3 == 0 {
					sc.Ops[i].Old = true
				}
			}
		}
		journal("C04", "c04hist", sc)
		v, labels := c04Run(&sc)
		journalDone()
		if v != nil {
			violation(rt, v.Prop, "c04hist", sc, "%s", v.Detail)
		}
		nt := labels["ack_below_position"] && labels["ack_out_of_range"]
		record("C04", sc, nt, append(labelList(labels), "histories")...)
	})
}

// the same on the file (whole-state) backend: its Load returns every vBucket the file holds, so after a rebalance that
// took vBuckets away the stream still knows positions of vBuckets it no longer owns - late acknowledgements for them
// must not move them (no TrackOffset, no change of their entry in the file)
func TestC04_FileHistory(t *testing.T) {
	w := hWeights{deliver: 36, ack: 8, ackidx: 20, save: 12, rebalance: 8, ackold: 18, absorbed: 10, maxVb: scale(4, 8), minOps: 1, maxOps: scale(60, 200)}
	rapid.Check(t, func(rt *rapid.T) {
		sc := genHistory(rt, w)
		sc.File = true
		journal("C04", "c04filehist", sc)
		v, labels := c04Run(&sc)
		journalDone()
		if v != nil {
			violation(rt, v.Prop, "c04filehist", sc, "%s", v.Detail)
		}
		record("C04", sc, labels["ack_out_of_range"] && labels["file_save"], append(labelList(labels), "file_histories")...)
	})
}

// ---- acknowledgements racing on different vBuckets ----

type c04Conc struct {
	Events []int   `json:"events"` // per vBucket: delivered events
	Orders [][]int `json:"orders"` // per vBucket: indices acknowledged, in this order (any permutation / repetition)
}

func c04ExecConc(sc c04Conc) string {
	n := len(sc.Events)
	h := &hScenario{NumVb: 8, Lo: 0, Hi: n - 1}
	s := newSession(h, "C04")
	s.open()
	defer s.finish()
	for v := 0; v < n; v++ {
		for i := 0; i < sc.Events[v]; i++ {
			s.deliver(hOp{Op: "deliver", Vb: v, Kind: "mut", Snap: i % 3})
		}
	}
	var wg sync.WaitGroup
	start := make(chan struct{})
	for v := 0; v < n; v++ {
		m := s.vbOf(v)
		order := sc.Orders[v]
		wg.Add(1)
		go func() { // one goroutine per vBucket: same-vBucket acks are serial, as the library's call structure does
			defer wg.Done()
			<-start
			for _, i := range order {
				if len(m.docs) > 0 {
					m.docs[i%len(m.docs)].delivered.Ctx.Ack()
				}
			}
		}()
	}
	close(start)
	wg.Wait()
	offs, _, _ := s.st.GetOffsets()
	for v := 0; v < n; v++ {
		m := s.vbOf(v)
		want := uint64(0)
		for _, i := range sc.Orders[v] {
			if len(m.docs) > 0 {
				if q := m.docs[i%len(m.docs)].ev.Seq; q > want {
					want = q
				}
			}
		}
		off, _ := offs.Load(m.vb)
		if off == nil || off.SeqNo != want {
			return fmt.Sprintf("vb %d: tracked %v after concurrent acknowledgements, furthest acknowledged is %d", m.vb, off, want)
		}
	}
	last := map[uint16]uint64{}
	for _, t := range s.cons.trackLog() {
		if t.Off.Seq < last[t.Vb] {
			return fmt.Sprintf("vb %d: TrackOffset went backwards %d -> %d", t.Vb, last[t.Vb], t.Off.Seq)
		}
		last[t.Vb] = t.Off.Seq
	}
	if s.viol != nil {
		return s.viol.Detail
	}
	return ""
}

func TestC04_Concurrent(t *testing.T) {
	rapid.Check(t, func(rt *rapid.T) {
		n := rapid.IntRange(2, 8).Draw(rt, "nvb")
		sc := c04Conc{}
		for v := 0; v < n; v++ {
			e := rapid.IntRange(1, 12).Draw(rt, "ev")
			sc.Events = append(sc.Events, e)
			sc.Orders = append(sc.Orders, rapid.SliceOfN(rapid.IntRange(0, e-1), 1, 24).Draw(rt, "order"))
		}
		if d := c04ExecConc(sc); d != "" {
			violation(rt, "C04", "c04conc", sc, "%s", d)
		}
		record("C04", sc, true, "concurrent_vbuckets")
	})
}

func init() {
	registerReplay("c04filehist", func(raw json.RawMessage) string {
		var sc hScenario
		if err := json.Unmarshal(raw, &sc); err != nil {
			return "bad scenario: " + err.Error()
		}
		if v, _ := c04Run(&sc); v != nil {
			return v.Prop + ": " + v.Detail
		}
		return ""
	})
	registerReplay("c04hist", func(raw json.RawMessage) string {
		var sc hScenario
		if err := json.Unmarshal(raw, &sc); err != nil {
			return err.Error()
		}
		if v, _ := c04Run(&sc); v != nil {
			return v.Detail
		}
		return ""
	})
	registerReplay("c04conc", func(raw json.RawMessage) string {
		var sc c04Conc
		if err := json.Unmarshal(raw, &sc); err != nil {
			return err.Error()
		}
		return c04ExecConc(sc)
	})
}
