package props

// C06 — every offset handed out or persisted is a valid, untorn DCP resume point (DESIGN §5 C06).

import (
	"encoding/json"
	"strings"
	"testing"

	"pgregory.net/rapid"
)

func c06Weights() hWeights {
	return hWeights{deliver: 46, ack: 22, save: 12, savefail: 2, savebegin: 6, saveend: 6, crash: 5, failover: 3, end: 4,
		absorbed: 20, outside: 5, maxVb: scale(5, 12), minOps: 1, maxOps: scale(70, 250)}
}

func TestC06_History(t *testing.T) {
	known := isKnown("C01", sigF1)
	rapid.Check(t, func(rt *rapid.T) {
		sc := genHistory(rt, c06Weights())
		journal("C06", "c06hist", sc)
		v, labels, _ := runHistory(&sc, known != nil, "C06")
		journalDone()
		if v != nil {
			violation(rt, v.Prop, "c06hist", sc, "%s", v.Detail)
		}
		nt := labels["ack_after_2_later_markers"] && labels["save_ok"]
		record("C06", sc, nt, append(labelList(labels), "histories")...)
	})
}

func init() {
	registerReplay("c06hist", histReplayer(func() bool { return false }, "C06"))
}

// ---- the branch after a server-requested rollback (Layer B: real client.OpenStream + observer on the simulated node) ----
// C06's vbUUID clause through the second place where the library learns a branch: after a rollback the stream runs on
// the branch named by the first failover entry of the SECOND response; every offset handed out from then on must carry
// that vbUUID together with the event's own seqno and snapshot - not the uuid the re-request was sent with.
func TestC06_RollbackBranch(t *testing.T) {
	rapid.Check(t, func(rt *rapid.T) {
		sc := c08Gen(rt)
		sc.Second = "ok"
		journal("C06", "c06rollback", sc)
		d, _ := c08Exec(sc)
		journalDone()
		if strings.Contains(d, "delivered with vbUUID") || strings.Contains(d, "delivered with offset") {
			violation(rt, "C06", "c06rollback", sc, "after a server-requested rollback: %s (an offset mixing one branch's vbUUID with another branch's position)", d)
		}
		older := len(sc.Log) >= 2 && sc.R < sc.Log[0][1]
		labs := []string{"rollback_branch_cases"}
		if older {
			labs = append(labs, "rollback_point_on_older_branch")
		}
		record("C06", sc, older && len(sc.Events) > 0, labs...)
	})
}

func init() {
	registerReplay("c06rollback", func(raw json.RawMessage) string {
		var sc c08Scenario
		if err := json.Unmarshal(raw, &sc); err != nil {
			return err.Error()
		}
		d, _ := c08Exec(sc)
		if strings.Contains(d, "delivered with vbUUID") || strings.Contains(d, "delivered with offset") {
			return d
		}
		return ""
	})
}
