package props

// C06 — every offset handed out or persisted is a valid, untorn DCP resume point (DESIGN §5 C06).

import (
	"testing"

	"pgregory.net/rapid"
)

func c06Weights() hWeights {
	return hWeights{deliver: 46, ack: 22, save: 12, savefail: 2, savebegin: 6, saveend: 6, crash: 5, failover: 3, end: 4,
		absorbed: 20, outside: 5, maxVb: scale(5, 12), minOps: 1, maxOps: scale(70, 250)}
}

func TestC06_History(t *testing.T) {
	known := isKnown("C01", sigF1)
	rapid.Check(t, func(rt *rapid.T) {
		sc := genHistory(rt, c06Weights())
		journal("C06", "c06hist", sc)
		v, labels, _ := runHistory(&sc, known != nil, "C06")
		journalDone()
		if v != nil {
			violation(rt, v.Prop, "c06hist", sc, "%s", v.Detail)
		}
		nt := labels["ack_after_2_later_markers"] && labels["save_ok"]
		record("C06", sc, nt, append(labelList(labels), "histories")...)
	})
}

func init() {
	registerReplay("c06hist", histReplayer(func() bool { return false }, "C06"))
}
