package props

// C06 — every offset handed out or persisted is a valid, untorn DCP resume point (DESIGN §5 C06).

import (
	"encoding/json"
	"fmt"
	"strconv"
	"strings"
	"sync"
	"testing"
	"time"

	"pgregory.net/rapid"
)

func c06Weights() hWeights {
	return hWeights{deliver: 46, ack: 22, save: 12, savefail: 2, savebegin: 6, saveend: 6, crash: 5, failover: 3, end: 4,
		absorbed: 20, outside: 5, maxVb: scale(5, 12), minOps: 1, maxOps: scale(70, 250)}
}

func TestC06_History(t *testing.T) {
	known := isKnown("C01", sigF1)
	rapid.Check(t, func(rt *rapid.T) {
		sc := genHistory(rt, c06Weights())
		if rapid.IntRange(0, 3).Draw(rt, "latest") == 0 {
			// first start with auto-reset latest on vBuckets that hold events already and have failed over before
			sc.Reset = "latest"
			sc.PreFailover = rapid.IntRange(0, 3).Draw(rt, "prefailover")
			for v := sc.Lo; v <= sc.Hi; v++ {
				sc.Pre = append(sc.Pre, rapid.SliceOfN(rapid.SampledFrom([]string{"mut", "mut", "del", "cc"}), 0, 4).Draw(rt, "pre"))
			}
		}
		journal("C06", "c06hist", sc)
		v, labels, _ := runHistory(&sc, known != nil, "C06")
		journalDone()
		if v != nil {
			violation(rt, v.Prop, "c06hist", sc, "%s", v.Detail)
		}
		nt := labels["ack_after_2_later_markers"] && labels["save_ok"]
		if sc.Reset == "latest" && sc.PreFailover > 0 {
			labels["latest_start_on_a_failed_over_vbucket"] = true
		}
		record("C06", sc, nt, append(labelList(labels), "histories")...)
	})
}

func init() {
	registerReplay("c06hist", histReplayer(func() bool { return false }, "C06"))
}

// ---- the branch after a server-requested rollback (Layer B: real client.OpenStream + observer on the simulated node) ----
// C06's vbUUID clause through the second place where the library learns a branch: after a rollback the stream runs on
// the branch named by the first failover entry of the SECOND response; every offset handed out from then on must carry
// that vbUUID together with the event's own seqno and snapshot - not the uuid the re-request was sent with.
func TestC06_RollbackBranch(t *testing.T) {
	rapid.Check(t, func(rt *rapid.T) {
		sc := c08Gen(rt)
		sc.Second = "ok"
		journal("C06", "c06rollback", sc)
		d, _ := c08Exec(sc)
		journalDone()
		if strings.Contains(d, "delivered with vbUUID") || strings.Contains(d, "delivered with offset") {
			violation(rt, "C06", "c06rollback", sc, "after a server-requested rollback: %s (an offset mixing one branch's vbUUID with another branch's position)", d)
		}
		older := len(sc.Log) >= 2 && sc.R < sc.Log[0][1]
		labs := []string{"rollback_branch_cases"}
		if older {
			labs = append(labs, "rollback_point_on_older_branch")
		}
		record("C06", sc, older && len(sc.Events) > 0, labs...)
	})
}

func init() {
	registerReplay("c06rollback", func(raw json.RawMessage) string {
		var sc c08Scenario
		if err := json.Unmarshal(raw, &sc); err != nil {
			return err.Error()
		}
		d, _ := c08Exec(sc)
		if strings.Contains(d, "delivered with vbUUID") || strings.Contains(d, "delivered with offset") {
			return d
		}
		return ""
	})
}

// ---- a stored checkpoint that lies beyond the vBucket's current high seqno (bucket flushed / restored / failed over hard) ----
// Whatever the library does then (today: it refuses to start, C15), it never requests a stream from - or persists - a
// tuple that is not one event's own position: the stored tuple as it is, or nothing. Child process per case (the refusal
// is a fail-stop); the scenarios are C15's "checkpoint above" class with generated snapshot shapes.
func c06ExecAhead(sc c15Scenario) (string, bool) {
	r := runChild("c15", sc, 90*time.Second)
	lo, hi := sc.rangeOf()
	n := hi - lo + 1
	if r.TimeOut {
		return "", false
	}
	refused := r.Exit != 0
	for _, l := range strings.Split(r.Stdout, "\n") {
		f := strings.Fields(l)
		if len(f) != 7 || f[0] != "OPEN" {
			continue
		}
		vb, _ := strconv.Atoi(f[1])
		start, _ := strconv.ParseUint(f[2], 10, 64)
		snapS, _ := strconv.ParseUint(f[4], 10, 64)
		snapE, _ := strconv.ParseUint(f[5], 10, 64)
		i := vb - lo
		if i < 0 || i >= n {
			continue
		}
		rel := sc.Rel[i%len(sc.Rel)]
		if rel == 9 {
			continue // no stored checkpoint: the start position is C02's
		}
		stored := int64(sc.High[i%len(sc.High)]) + int64(rel)
		if stored < 0 {
			stored = 0
		}
		if start < snapS || start > snapE {
			return fmt.Sprintf("vb %d: stream requested from seq %d with snapshot [%d,%d] - the seqno lies outside its snapshot (stored checkpoint: seq %d [%d,%d], vBucket high seqno %d): a mixture of two positions", vb, start, snapS, snapE, stored, stored, stored, sc.High[i%len(sc.High)]), refused
		}
		if start != uint64(stored) || snapS != uint64(stored) || snapE != uint64(stored) {
			return fmt.Sprintf("vb %d: stream requested from seq %d [%d,%d], the stored checkpoint is seq %d [%d,%d] (vBucket high seqno %d): not the position of any event", vb, start, snapS, snapE, stored, stored, stored, sc.High[i%len(sc.High)]), refused
		}
	}
	return "", refused
}

func TestC06_AheadCheckpoint(t *testing.T) {
	n := scale(32, 400)
	_, nsh := shard()
	var scs []c15Scenario
	rapid.Check(t, func(rt *rapid.T) {
		if len(scs) > 0 {
			return
		}
		for i := 0; i < (n+nsh-1)/nsh; i++ {
			sc := c15Scenario{NumVb: rapid.SampledFrom([]int{8, 16}).Draw(rt, "numvb"), Membership: "static", Reset: rapid.SampledFrom([]string{"earliest", "latest"}).Draw(rt, "reset")}
			sc.Total = rapid.IntRange(1, 3).Draw(rt, "total")
			sc.Member = rapid.IntRange(1, sc.Total).Draw(rt, "member")
			sc.High = rapid.SliceOfN(rapid.IntRange(0, 40), 1, 6).Draw(rt, "high")
			sc.Rel = rapid.SliceOfN(rapid.SampledFrom([]int{-2, -1, 0, 0, 9}), 1, 6).Draw(rt, "rel")
			sc.Rel[rapid.IntRange(0, len(sc.Rel)-1).Draw(rt, "which")] = rapid.SampledFrom([]int{1, 1, 5}).Draw(rt, "over")
			scs = append(scs, sc)
		}
	})
	type res struct {
		d       string
		refused bool
	}
	out := make([]res, len(scs))
	var wg sync.WaitGroup
	sem := make(chan struct{}, 12)
	for i := range scs {
		wg.Add(1)
		go func(i int) {
			defer wg.Done()
			sem <- struct{}{}
			defer func() { <-sem }()
			out[i].d, out[i].refused = c06ExecAhead(scs[i])
		}(i)
	}
	wg.Wait()
	for i, o := range out {
		if o.d != "" {
			violation(t, "C06", "c06ahead", scs[i], "%s", o.d)
		}
		labs := []string{"checkpoint_ahead_cases"}
		if o.refused {
			labs = append(labs, "checkpoint_ahead_refused")
		}
		record("C06", scs[i], true, labs...)
	}
}

func init() {
	registerReplay("c06ahead", func(raw json.RawMessage) string {
		var sc c15Scenario
		if err := json.Unmarshal(raw, &sc); err != nil {
			return err.Error()
		}
		d, _ := c06ExecAhead(sc)
		return d
	})
}
