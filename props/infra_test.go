package props

// Common infrastructure of all property checks: statistics / evidence collection,
// replay files, in-flight journal, known findings, seeds and tiers.
//
// Every check is a Go test in this package. The driver (/verif/bin/vcheck) builds the
// package once with `go test -c -tags verif` against /repo's working tree and runs
// the tests in shards; each shard process writes its statistics to $VERIF_STATS_OUT
// and, on a failing case, the (shrunk) scenario to $VERIF_REPLAY_OUT.

import (
	"encoding/json"
	"fmt"
	"hash/fnv"
	"os"
	"runtime/debug"
	"sort"
	"strconv"
	"strings"
	"sync"
	"testing"
	"time"

	"github.com/Trendyol/go-dcp/logger"
)

// ---------- environment ----------

func envInt(name string, def int) int {
	if v := os.Getenv(name); v != "" {
		if n, err := strconv.Atoi(v); err == nil {
			return n
		}
	}
	return def
}

func tier() string {
	if v := os.Getenv("VERIF_TIER"); v == "thorough" {
		return "thorough"
	}
	return "quick"
}

func thorough() bool { return tier() == "thorough" }

// shard / nshards: used by exhaustive enumerations to split the space.
func shard() (int, int) {
	n := envInt("VERIF_NSHARDS", 1)
	if n < 1 {
		n = 1
	}
	s := envInt("VERIF_SHARD", 0)
	return s % n, n
}

// scale returns q in quick tier and t in thorough tier.
func scale(q, t int) int {
	if thorough() {
		return t
	}
	return q
}

// ---------- statistics ----------

type propStats struct {
	Evaluations    int64            `json:"evaluations"`
	NonTrivial     int64            `json:"nontrivial_total"`
	DistinctByCtor int64            `json:"distinct_by_construction"`
	Hashes         []uint64         `json:"-"`
	HashHex        string           `json:"hashes,omitempty"`
	Labels         map[string]int64 `json:"labels"`
	Samples        []any            `json:"samples"`
	Excluded       int64            `json:"excluded_known"`
	Discarded      int64            `json:"discarded_timing"`
	Known          []string         `json:"known_findings"`
	Notes          []string         `json:"notes"`
	Exhaustive     bool             `json:"exhaustive"`
	hashSet        map[uint64]struct{}
	sampleEvery    int64
}

var (
	statsMu sync.Mutex
	stats   = map[string]*propStats{}
)

func statsFor(prop string) *propStats {
	s := stats[prop]
	if s == nil {
		s = &propStats{Labels: map[string]int64{}, hashSet: map[uint64]struct{}{}}
		stats[prop] = s
	}
	return s
}

const maxHashes = 3_000_000

func hashOf(sc any) uint64 {
	b, err := json.Marshal(sc)
	if err != nil {
		panic(err)
	}
	h := fnv.New64a()
	_, _ = h.Write(b)
	return h.Sum64()
}

// record one evaluated case. sc must be JSON-serialisable plain data (the scenario);
// nontrivial is the per-property rule; labels classify the case.
func record(prop string, sc any, nontrivial bool, labels ...string) {
	statsMu.Lock()
	defer statsMu.Unlock()
	s := statsFor(prop)
	s.Evaluations++
	for _, l := range labels {
		if l != "" {
			s.Labels[l]++
		}
	}
	if !nontrivial {
		return
	}
	s.NonTrivial++
	if len(s.hashSet) < maxHashes {
		s.hashSet[hashOf(sc)] = struct{}{}
	}
	// keep a handful of samples spread over the run: 1st, 2nd, 4th, 8th ... non-trivial case
	if len(s.Samples) < 6 && (s.NonTrivial&(s.NonTrivial-1)) == 0 {
		s.Samples = append(s.Samples, sc)
	}
}

// recordEnum records n cases of an exhaustive enumeration in which cases are distinct by
// construction; nt of them non-trivial. A few samples can be attached with addSample.
func recordEnum(prop string, n, nt int64, labels map[string]int64) {
	statsMu.Lock()
	defer statsMu.Unlock()
	s := statsFor(prop)
	s.Evaluations += n
	s.NonTrivial += nt
	s.DistinctByCtor += nt
	for k, v := range labels {
		s.Labels[k] += v
	}
}

func addSample(prop string, sc any) {
	statsMu.Lock()
	defer statsMu.Unlock()
	s := statsFor(prop)
	if len(s.Samples) < 8 {
		s.Samples = append(s.Samples, sc)
	}
}

func addLabel(prop, label string, n int64) {
	statsMu.Lock()
	defer statsMu.Unlock()
	statsFor(prop).Labels[label] += n
}

func markExhaustive(prop string) {
	statsMu.Lock()
	defer statsMu.Unlock()
	statsFor(prop).Exhaustive = true
}

func addNote(prop, note string) {
	statsMu.Lock()
	defer statsMu.Unlock()
	s := statsFor(prop)
	for _, n := range s.Notes {
		if n == note {
			return
		}
	}
	s.Notes = append(s.Notes, note)
}

func countExcluded(prop string) {
	statsMu.Lock()
	defer statsMu.Unlock()
	statsFor(prop).Excluded++
}

func countDiscarded(prop string) {
	statsMu.Lock()
	defer statsMu.Unlock()
	statsFor(prop).Discarded++
}

func flushStats() {
	out := os.Getenv("VERIF_STATS_OUT")
	if out == "" {
		return
	}
	statsMu.Lock()
	defer statsMu.Unlock()
	for _, s := range stats {
		hs := make([]uint64, 0, len(s.hashSet))
		for h := range s.hashSet {
			hs = append(hs, h)
		}
		sort.Slice(hs, func(i, j int) bool { return hs[i] < hs[j] })
		var sb strings.Builder
		for _, h := range hs {
			sb.WriteString(strconv.FormatUint(h, 36))
			sb.WriteByte(' ')
		}
		s.HashHex = sb.String()
	}
	b, _ := json.Marshal(stats)
	_ = os.WriteFile(out, b, 0o644)
}

// ---------- replay / journal ----------

type replayFile struct {
	Property string          `json:"property"`
	Unit     string          `json:"unit"`
	Detail   string          `json:"detail"`
	Shrunk   bool            `json:"shrunk"`
	Scenario json.RawMessage `json:"scenario"`
}

func writeReplay(path, prop, unit, detail string, shrunk bool, sc any) {
	if path == "" {
		return
	}
	raw, err := json.Marshal(sc)
	if err != nil {
		raw = []byte(`"unserialisable"`)
	}
	b, _ := json.MarshalIndent(replayFile{Property: prop, Unit: unit, Detail: detail, Shrunk: shrunk, Scenario: raw}, "", " ")
	tmp := path + ".tmp"
	if os.WriteFile(tmp, b, 0o644) == nil {
		_ = os.Rename(tmp, path)
	}
}

// journal notes the case about to be executed, so that a process death still leaves
// the scenario behind (the driver turns it into an unshrunk replay).
func journal(prop, unit string, sc any) {
	if p := os.Getenv("VERIF_INFLIGHT"); p != "" {
		writeReplay(p, prop, unit, "process died while executing this case", false, sc)
	}
}

func journalDone() {
	if p := os.Getenv("VERIF_INFLIGHT"); p != "" {
		_ = os.Remove(p)
	}
}

type fataler interface {
	Fatalf(format string, args ...any)
	Helper()
}

// violation reports a failing case: writes the replay (rapid re-runs the property while
// shrinking, so the last file written is the minimal one) and fails the test.
func violation(t fataler, prop, unit string, sc any, format string, args ...any) {
	t.Helper()
	detail := fmt.Sprintf(format, args...)
	// A failure seen while this process was being held up (machine frozen for a snapshot, cores heavily oversubscribed: the
	// stall monitor below) may be the harness's own schedule - sleeps, barriers, placements - having come apart. It is executed
	// once more through the unit's replayer; only a failure that repeats is reported, the other is counted as discarded.
	time.Sleep(15 * time.Millisecond)
	if st := recentStall(3 * time.Minute); st > 500*time.Millisecond && os.Getenv("VERIF_REPLAY") == "" {
		if f := replayers[unit]; f != nil {
			if raw, err := json.Marshal(sc); err == nil {
				d := f(raw)
				if d != "" && recentStall(30*time.Second) > 200*time.Millisecond {
					d = f(raw) // (still being held up while it was executed again)
				}
				if d == "" {
					countDiscarded(prop)
					fmt.Fprintf(os.Stderr, "DISCARDED (process held up for %v in the last 3 min; not repeated on re-execution): %s\n", st, detail)
					return
				}
			}
		}
	}
	writeReplay(os.Getenv("VERIF_REPLAY_OUT"), prop, unit, detail, true, sc)
	t.Fatalf("property %s violated: %s", prop, detail)
}

// replayers: unit name -> function executing one scenario (raw JSON), returning a
// violation detail or "".
var replayers = map[string]func(raw json.RawMessage) string{}

func registerReplay(unit string, f func(raw json.RawMessage) string) { replayers[unit] = f }

// TestReplay re-executes a saved scenario directly, bypassing the generator library.
func TestReplay(t *testing.T) {
	path := os.Getenv("VERIF_REPLAY")
	if path == "" {
		t.Skip("VERIF_REPLAY not set")
	}
	b, err := os.ReadFile(path)
	if err != nil {
		t.Fatalf("cannot read replay: %v", err)
	}
	var rf replayFile
	if err := json.Unmarshal(b, &rf); err != nil {
		t.Fatalf("bad replay file: %v", err)
	}
	f := replayers[rf.Unit]
	if f == nil {
		t.Fatalf("no replayer for unit %q", rf.Unit)
	}
	if d := f(rf.Scenario); d != "" {
		writeReplay(os.Getenv("VERIF_REPLAY_OUT"), rf.Property, rf.Unit, d, rf.Shrunk, rf.Scenario)
		t.Fatalf("property %s violated (replay): %s", rf.Property, d)
	}
}

// ---------- known findings ----------

type knownFinding struct {
	Property  string `json:"property"`
	Signature string `json:"signature"`
	What      string `json:"what"`
	Replay    string `json:"replay"`
	Status    string `json:"status"` // "known" or "fixed"
	Commit    string `json:"commit,omitempty"`
}

var (
	knownOnce sync.Once
	knownList []knownFinding
)

func verifRoot() string {
	if v := os.Getenv("VERIF_ROOT"); v != "" {
		return v
	}
	return "/verif"
}

func loadKnown() []knownFinding {
	knownOnce.Do(func() {
		b, err := os.ReadFile(verifRoot() + "/known_findings.json")
		if err != nil {
			return
		}
		var f struct {
			Findings []knownFinding `json:"findings"`
		}
		if json.Unmarshal(b, &f) == nil {
			knownList = f.Findings
		}
	})
	return knownList
}

// isKnown reports whether a (property, signature) is a listed, unrepaired finding.
func isKnown(prop, signature string) *knownFinding {
	for i, k := range loadKnown() {
		if k.Property == prop && k.Signature == signature && k.Status == "known" {
			return &loadKnown()[i]
		}
	}
	return nil
}

func noteKnown(prop string, k *knownFinding) {
	statsMu.Lock()
	defer statsMu.Unlock()
	s := statsFor(prop)
	line := fmt.Sprintf("KNOWN-FINDING: property=%s %s [%s]", prop, k.What, k.Signature)
	for _, l := range s.Known {
		if l == line {
			return
		}
	}
	s.Known = append(s.Known, line)
}

// ---------- misc ----------

var discardLogOnce sync.Once

func quietLogger() {
	discardLogOnce.Do(func() { logger.Log = nopLogger{} })
}

type nopLogger struct{}

func (nopLogger) Trace(string, ...interface{})       {}
func (nopLogger) Debug(string, ...interface{})       {}
func (nopLogger) Info(string, ...interface{})        {}
func (nopLogger) Warn(string, ...interface{})        {}
func (nopLogger) Error(string, ...interface{})       {}
func (nopLogger) Log(string, string, ...interface{}) {}

// within runs f and reports whether it returned within d (f keeps running otherwise).
func within(d time.Duration, f func()) (ok bool, panicVal any) {
	done := make(chan any, 1)
	go func() {
		defer func() {
			p := recover()
			if p != nil && os.Getenv("VERIF_DEBUG_STACK") != "" {
				fmt.Fprintf(os.Stderr, "within: panic %v\n%s\n", p, debug.Stack())
			}
			done <- p
		}()
		f()
	}()
	select {
	case p := <-done:
		return true, p
	case <-time.After(d):
	}
	// the bound is meant in time the process could use: if it was held up meanwhile (machine frozen for a snapshot, cores
	// heavily oversubscribed) the call gets that time back, threefold, before it is declared stuck
	time.Sleep(15 * time.Millisecond)
	if extra := 3 * recentStall(d+time.Minute); extra > 0 {
		select {
		case p := <-done:
			return true, p
		case <-time.After(extra):
		}
	}
	return false, nil
}

// ---- stall monitor: wall-clock bounds in the harness are bounds on time the process could actually use ----
// A goroutine sleeps 5 ms at a time; a sleep that takes more than 40 ms means the process (or the whole machine) was held up
// for that long. deadlinePassed extends a deadline by three times what was lost in the last two minutes: a library that
// really hangs is still reported (the monitor runs fine then), a frozen or starved process is not mistaken for one.

type stallRec struct {
	at time.Time
	d  time.Duration
}

var (
	stallMu  sync.Mutex
	stallLog []stallRec
)

func startStallMonitor() {
	go func() {
		for {
			t0 := time.Now()
			time.Sleep(5 * time.Millisecond)
			if g := time.Since(t0); g > 40*time.Millisecond {
				stallMu.Lock()
				stallLog = append(stallLog, stallRec{time.Now(), g})
				if len(stallLog) > 4096 {
					stallLog = stallLog[len(stallLog)-2048:]
				}
				stallMu.Unlock()
			}
		}
	}()
}

func recentStall(window time.Duration) time.Duration {
	stallMu.Lock()
	defer stallMu.Unlock()
	var sum time.Duration
	for i := len(stallLog) - 1; i >= 0 && time.Since(stallLog[i].at) <= window; i-- {
		sum += stallLog[i].d
	}
	return sum
}

func deadlinePassed(t time.Time) bool {
	if !time.Now().After(t) {
		return false
	}
	time.Sleep(15 * time.Millisecond) // (a hold-up that has just ended is accounted for by the monitor only now)
	return time.Now().After(t.Add(3 * recentStall(2*time.Minute)))
}

func TestMain(m *testing.M) {
	quietLogger()
	startStallMonitor()
	if os.Getenv("VERIF_CHILD") != "" {
		childMain()
		return
	}
	code := m.Run()
	flushStats()
	os.Exit(code)
}

// runReplayFile executes a committed replay file and returns the violation detail ("" = holds).
func runReplayFile(path string) string {
	b, err := os.ReadFile(path)
	if err != nil {
		return "cannot read " + path + ": " + err.Error()
	}
	var rf replayFile
	if err := json.Unmarshal(b, &rf); err != nil {
		return "bad replay file: " + err.Error()
	}
	f := replayers[rf.Unit]
	if f == nil {
		return "no replayer for " + rf.Unit
	}
	return f(rf.Scenario)
}
