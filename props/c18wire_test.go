package props

// C18 on the wire (Layer C): the REAL dcp.NewDcp bootstraps against the simulated cluster, reads the version string from
// GET /pools and the bucket info from GET /pools/default/buckets/b, evaluates its own gate expressions and negotiates the
// DCP connection; the node records the DCP_CONTROL keys it received. A quarter of the cases also Start() the client and
// Close() it, and the node's log of DCP_CLOSE_STREAM requests shows whether streams were closed serially.

import (
	"encoding/json"
	"fmt"
	"github.com/Trendyol/go-dcp/couchbase"
	"sync"
	"testing"
	"time"

	dcp "github.com/Trendyol/go-dcp"
	"github.com/Trendyol/go-dcp/stream"
	"github.com/Trendyol/go-dcp/tracing"
	"github.com/couchbase/gocbcore/v10/memd"
	"pgregory.net/rapid"
	"verif/simnode"
)

type c18Wire struct {
	S       c18Str `json:"s"`
	Bucket  string `json:"bucket_type"`
	Storage string `json:"storage_backend"`
	Run     bool   `json:"run"`             // Start() + Close(): observe the close pattern
	Pools   string `json:"pools,omitempty"` // "", "error", "garbage"
	Raw     string `json:"raw,omitempty"`   // malformed version string served instead of S
}

var (
	c18wMu      sync.Mutex
	c18wCluster *simnode.Cluster
)

const c18wVbs = 6

func c18GateTuple(v c18V, g [3]int) bool { // v >= (g0,g1,g2,*)
	for i := 0; i < 3; i++ {
		if v[i] != g[i] {
			return v[i] > g[i]
		}
	}
	return true
}

func c18ExecWire(w c18Wire) (detail string, labels []string) {
	c18wMu.Lock()
	defer c18wMu.Unlock()
	if c18wCluster == nil {
		c18wCluster = simnode.New(1, c18wVbs, 0)
	}
	c := c18wCluster
	c.ResetLog()
	str := w.S.format()
	if w.Raw != "" {
		str = w.Raw
	}
	c.Lock()
	c.Version, c.BucketType, c.StorageBackend, c.PoolsMode = str, w.Bucket, w.Storage, w.Pools
	// a server below 5.5.0 does not know the control send_stream_end_on_client_close_stream and sends no end after a close
	c.NoClientCloseEnd = w.Raw == "" && c18Cmp(w.S.V, c18V{5, 5, 0, 0}) < 0
	c.Hook = nil
	c.Unlock()
	cfg := lcConfig(c)
	var d dcp.Dcp
	var ctl map[string]string
	var err error
	var got c18V
	func() {
		defer func() {
			if r := recover(); r != nil {
				detail = fmt.Sprintf("version %q: NewDcp panicked: %v", str, r)
			}
		}()
		dd, cc, e := lcNewDcp(c, cfg)
		ctl, err = cc, e
		if e == nil {
			d = dd
			v := dd.GetVersion()
			got = c18V{v.Major, v.Minor, v.Patch, v.Build}
		}
	}()
	if detail != "" {
		return
	}
	if w.Raw != "" || w.Pools != "" {
		// a version that cannot be read must be reported as an error; nothing may be negotiated on a guess
		labels = append(labels, "wire_unreadable_version")
		if err == nil {
			// the parser may accept the string: then it must denote a tuple and gating follows it (checked below);
			// a text the parser itself rejects denotes no version - the client must not start on a guess
			if w.Raw != "" {
				if _, perr := couchbase.VerifParseVersion(w.Raw); perr != nil {
					if d != nil {
						closeUnstarted(d)
					}
					return fmt.Sprintf("the node's version text %q denotes no version (parser: %v), yet the client was created as server %v and negotiated its features on that guess", w.Raw, perr, got), labels
				}
			}
			if w.Pools != "" {
				if d != nil {
					closeUnstarted(d)
				}
				return fmt.Sprintf("the version endpoint answered %q, yet the client was created as server %v", w.Pools, got), labels
			}
			labels = append(labels, "wire_raw_accepted")
		} else {
			if _, opened := ctl["enable_noop"]; opened {
				return fmt.Sprintf("version %q could not be read (%v) but a DCP connection was negotiated", str, err), labels
			}
			return "", labels
		}
	} else {
		if err != nil {
			return fmt.Sprintf("version %q (bucket %s/%s): NewDcp failed: %v", str, w.Bucket, w.Storage, err), labels
		}
		want := w.S.V
		for i := w.S.Form; i < 4; i++ {
			want[i] = 0
		}
		if got != want {
			return fmt.Sprintf("version string %q was read as %v, it denotes %v", str, got, want), labels
		}
	}
	defer func() {
		if d != nil && !w.Run {
			closeUnstarted(d)
		}
	}()
	_, expiry := ctl["enable_expiry_opcode"]
	_, change := ctl["change_streams"]
	wantExpiry := c18GateTuple(got, [3]int{6, 5, 0})
	wantChange := w.Storage == "magma" && c18GateTuple(got, [3]int{7, 2, 0})
	if _, ok := ctl["enable_noop"]; !ok {
		return fmt.Sprintf("version %q: no DCP connection was negotiated (controls %v)", str, ctl), labels
	}
	if expiry != wantExpiry {
		return fmt.Sprintf("server %v: expiry opcode negotiated = %v, required from 6.5.0 on = %v", got, expiry, wantExpiry), labels
	}
	if change != wantChange {
		return fmt.Sprintf("server %v, storage %q: change streams negotiated = %v, required (7.2.0+ on magma) = %v", got, w.Storage, change, wantChange), labels
	}
	if wantExpiry {
		labels = append(labels, "wire_expiry_on")
	} else {
		labels = append(labels, "wire_expiry_off")
	}
	if wantChange {
		labels = append(labels, "wire_change_streams_on")
	}
	if !w.Run {
		return "", labels
	}
	// ---- serial closing below 5.5.0 ----
	wantSerial := !c18GateTuple(got, [3]int{5, 5, 0})
	for attempt, delay := range []time.Duration{25 * time.Millisecond, 250 * time.Millisecond} {
		if attempt > 0 {
			// second look with a much longer reply delay (a loaded machine may start the closing goroutines late)
			dd, _, e := lcNewDcp(c, lcConfig(c))
			if e != nil {
				return fmt.Sprintf("server %v: second NewDcp failed: %v", got, e), labels
			}
			d = dd
			c.ResetLog()
		}
		overlap, ordered, n, dd := c18CloseRun(c, d, delay)
		d = nil
		if dd != "" {
			return fmt.Sprintf("server %v: %s", got, dd), labels
		}
		if n != c18wVbs {
			return fmt.Sprintf("server %v: %d close-stream requests for %d open streams", got, n, c18wVbs), labels
		}
		if wantSerial {
			labels = append(labels, "wire_serial_close")
			if overlap || !ordered {
				return fmt.Sprintf("server %v (< 5.5.0): streams were closed concurrently / out of order (overlap=%v ascending=%v); serial closing is required", got, overlap, ordered), labels
			}
			return "", labels
		}
		labels = append(labels, "wire_parallel_close")
		if overlap {
			return "", labels
		}
	}
	return fmt.Sprintf("server %v (>= 5.5.0): streams were closed one at a time even with 250 ms per reply; serial closing is only for servers below 5.5.0", got), labels
}

func closeUnstarted(d dcp.Dcp) {
	// a client that was never started holds two agents; Start() is the only public way to release them
	d.GetClient().DcpClose()
	d.GetClient().Close()
}

// c18CloseRun starts the client, waits until every stream is open, closes it with every close-stream reply delayed,
// and reads the node's log: did two close requests overlap, and did they arrive in ascending vBucket order?
func c18CloseRun(c *simnode.Cluster, d dcp.Dcp, delay time.Duration) (overlap, ordered bool, n int, detail string) {
	c.Lock()
	c.Hook = func(e *simnode.Entry) simnode.Action {
		if e.Cmd == memd.CmdDcpCloseStream {
			return simnode.Action{Kind: simnode.Delay, Delay: delay}
		}
		return simnode.Action{}
	}
	c.Unlock()
	done := make(chan any, 1)
	go func() {
		defer func() { done <- recover() }()
		d.Start()
	}()
	select {
	case <-d.WaitUntilReady():
	case r := <-done:
		return false, false, 0, fmt.Sprintf("Start() returned / panicked before readiness: %v", r)
	case <-time.After(20 * time.Second):
		return false, false, 0, "Start() did not become ready within 20 s"
	}
	d.Close()
	select {
	case r := <-done:
		if r != nil {
			return false, false, 0, fmt.Sprintf("Start() panicked during Close: %v", r)
		}
	case <-time.After(30 * time.Second):
		return false, false, 0, "Close() did not complete within 30 s"
	}
	c.Lock()
	c.Hook = nil
	c.Unlock()
	var reqs []simnode.Entry
	for _, e := range c.Log() {
		if e.Cmd == memd.CmdDcpCloseStream {
			reqs = append(reqs, e)
		}
	}
	ordered = true
	for i := 1; i < len(reqs); i++ {
		if reqs[i].Vb <= reqs[i-1].Vb {
			ordered = false
		}
		if !reqs[i-1].Replied || reqs[i].T < reqs[i-1].RepT {
			overlap = true
		}
	}
	return overlap, ordered, len(reqs), ""
}

func c18GenWire(t *rapid.T) c18Wire {
	w := c18Wire{}
	// versions: the gates and their neighbours in every component, plus generated ones
	gate := rapid.SampledFrom([][3]int{{5, 5, 0}, {6, 5, 0}, {7, 2, 0}, {7, 2, 0}}).Draw(t, "gate")
	v := c18V{gate[0], gate[1], gate[2], rapid.SampledFrom([]int{0, 1, 1234, 5325, 99999}).Draw(t, "build")}
	switch rapid.IntRange(0, 5).Draw(t, "class") {
	case 0: // exactly the gate
	case 1: // one component nudged
		i := rapid.IntRange(0, 2).Draw(t, "i")
		v[i] += rapid.SampledFrom([]int{-1, 1}).Draw(t, "d")
		if v[i] < 0 {
			v[i] = 0
		}
	case 2: // just below: previous minor / major with a large patch
		if v[1] > 0 {
			v[1]--
		} else {
			v[0]--
			v[1] = 9
		}
		v[2] = rapid.SampledFrom([]int{0, 9, 10, 99}).Draw(t, "pat")
	case 3: // lower major with higher minor / patch (lexicographic, not component-wise)
		v[0]--
		v[1] = rapid.IntRange(0, 12).Draw(t, "min")
		v[2] = rapid.IntRange(0, 12).Draw(t, "pat")
	case 4: // higher major with lower minor
		v[0]++
		v[1] = rapid.IntRange(0, 2).Draw(t, "min")
		v[2] = 0
	default:
		v = c18V{rapid.IntRange(0, 9).Draw(t, "M"), rapid.IntRange(0, 12).Draw(t, "m"), rapid.IntRange(0, 12).Draw(t, "p"), rapid.IntRange(0, 20000).Draw(t, "b")}
	}
	w.S = c18Str{V: v, Form: rapid.SampledFrom([]int{5, 5, 5, 4, 3}).Draw(t, "form"), Edition: rapid.SampledFrom([]string{"enterprise", "community"}).Draw(t, "ed")}
	w.Bucket = rapid.SampledFrom([]string{"membase", "membase", "ephemeral"}).Draw(t, "bucket")
	w.Storage = rapid.SampledFrom([]string{"couchstore", "magma", "magma"}).Draw(t, "storage")
	if w.Bucket == "ephemeral" {
		w.Storage = ""
	}
	w.Run = rapid.IntRange(0, 3).Draw(t, "run") == 0
	switch rapid.IntRange(0, 19).Draw(t, "bad") {
	case 0:
		w.Pools = rapid.SampledFrom([]string{"error", "garbage", "nofield", "unauthorized"}).Draw(t, "pools")
		w.Run = false
	case 1:
		w.Raw = rapid.SampledFrom([]string{"x", "7.x.1-1-enterprise", "7..2", "-", "7.2.0-abc-enterprise", ".", "seven", "enterprise", "7.2-5325-enterprise", " ", "v7.2.0"}).Draw(t, "raw")
		w.Run = false
	}
	return w
}

func TestC18_WireGates(t *testing.T) {
	rapid.Check(t, func(rt *rapid.T) {
		w := c18GenWire(rt)
		journal("C18", "c18wire", w)
		d, labels := c18ExecWire(w)
		journalDone()
		if d != "" {
			violation(rt, "C18", "c18wire", w, "%s", d)
		}
		record("C18", w, w.Raw == "" && w.Pools == "", append(labels, "wire_cases")...)
	})
}

func init() {
	registerReplay("c18wire", func(raw json.RawMessage) string {
		var w c18Wire
		if err := json.Unmarshal(raw, &w); err != nil {
			return err.Error()
		}
		d, _ := c18ExecWire(w)
		return d
	})
}

// ---- what the serial mode is: one stream closed at a time ----
// Below 5.5.0 the library closes the streams one after the other, and the close of the next vBucket is not issued before the
// end of the previous vBucket's stream has reached its observer (the reason for the gate: gocbcore produces that end on the
// close acknowledgement, on another goroutine). From 5.5.0 on all closes are issued at once. Interface-level client whose
// end notifications arrive a few milliseconds after CloseStream returned, as gocbcore delivers them.
type c18Serial struct {
	V     c18V `json:"v"`
	NVb   int  `json:"nvb"`
	EndMs int  `json:"end_ms"`
	// the gate is a function of the server version alone: other settings (finite mode, rollback mitigation off / on,
	// checkpoint type) do not move it
	Finite bool `json:"finite,omitempty"`
	Auto   bool `json:"auto,omitempty"`
}

func c18ExecSerial(sc c18Serial) (string, bool) {
	cfg := laConfig()
	if sc.Finite {
		cfg.Dcp.Mode = "finite"
	}
	if sc.Auto {
		cfg.Checkpoint.Type = "auto"
		cfg.Checkpoint.Interval = time.Hour
	}
	cl := newFakeClient(16)
	for v := 0; v < 16; v++ {
		cl.setHigh(uint16(v), 10) // (finite mode: the streams are requested up to here and are still open when they are closed)
	}
	cl.endOnClose = true
	cl.endAsync = time.Duration(sc.EndMs) * time.Millisecond
	disc := &fakeDiscovery{}
	disc.set(0, uint16(sc.NVb-1))
	st := stream.NewStream(cl, newFakeMeta(), cfg, sc.V.ver(), &couchbase.BucketInfo{BucketType: "membase"},
		disc, &fakeConsumer{}, map[uint32]string{}, make(chan struct{}, 1), &fakeHandler{}, tracing.NewTracerComponent())
	if ok, pv := within(20*time.Second, func() { st.Open() }); !ok || pv != nil {
		return fmt.Sprintf("Open(): returned=%v panic=%v", ok, pv), false
	}
	if ok, pv := within(20*time.Second, func() { st.Close(false) }); !ok || pv != nil {
		return fmt.Sprintf("server %v: Close() with end notifications arriving %d ms after each close acknowledgement: returned=%v panic=%v", sc.V, sc.EndMs, ok, pv), false
	}
	time.Sleep(time.Duration(sc.EndMs+2) * time.Millisecond) // parallel mode: the last notifications are still on their way
	cl.mu.Lock()
	defer cl.mu.Unlock()
	serial := c18Cmp(sc.V, c18V{5, 5, 0, 0}) < 0
	if len(cl.closeAt) != sc.NVb {
		return fmt.Sprintf("server %v: %d close requests for %d vBuckets", sc.V, len(cl.closeAt), sc.NVb), serial
	}
	endOf := map[uint16]time.Time{}
	for _, e := range cl.endAt {
		endOf[e.vb] = e.t
	}
	overlapped := false
	for i := 1; i < len(cl.closeAt); i++ {
		prev, cur := cl.closeAt[i-1], cl.closeAt[i]
		pe, ended := endOf[prev.vb]
		if !ended || cur.t.Before(pe) {
			overlapped = true
			if serial {
				return fmt.Sprintf("server %v (< 5.5.0, serial stream closing): the close of vb %d was issued before the end of vb %d's stream had reached its observer (it arrives %d ms after the close acknowledgement): more than one stream is being closed at a time", sc.V, cur.vb, prev.vb, sc.EndMs), serial
			}
		}
	}
	if !serial && !overlapped && sc.NVb >= 2 && sc.EndMs >= 2 {
		return fmt.Sprintf("server %v (>= 5.5.0): every close waited for the previous stream's end; serial closing is only for servers below 5.5.0", sc.V), serial
	}
	return "", serial
}

func TestC18_SerialClose(t *testing.T) {
	rapid.Check(t, func(rt *rapid.T) {
		sc := c18Serial{NVb: rapid.IntRange(2, 6).Draw(rt, "nvb"), EndMs: rapid.IntRange(2, 5).Draw(rt, "endms")}
		sc.V = c18V{rapid.SampledFrom([]int{4, 5, 5, 5, 6, 7}).Draw(rt, "major"), rapid.SampledFrom([]int{0, 4, 5, 5, 6}).Draw(rt, "minor"),
			rapid.SampledFrom([]int{0, 0, 1, 9}).Draw(rt, "patch"), rapid.SampledFrom([]int{0, 0, 1, 9999}).Draw(rt, "build")}
		sc.Finite = rapid.IntRange(0, 2).Draw(rt, "finite") == 0
		sc.Auto = rapid.IntRange(0, 3).Draw(rt, "auto") == 0
		d, serial := c18ExecSerial(sc)
		if d != "" {
			violation(rt, "C18", "c18serial", sc, "%s", d)
		}
		lab := "layer_a_parallel_close"
		if serial {
			lab = "layer_a_serial_close"
		}
		labs := []string{"serial_close_cases", lab}
		if sc.Finite {
			labs = append(labs, "serial_close_finite_mode")
		}
		record("C18", sc, sc.V[0] == 5, labs...)
	})
}

func init() {
	registerReplay("c18serial", func(raw json.RawMessage) string {
		var sc c18Serial
		if err := json.Unmarshal(raw, &sc); err != nil {
			return err.Error()
		}
		d, _ := c18ExecSerial(sc)
		return d
	})
}
