package props

// C08 — a server-requested rollback is honoured without replaying or skipping (DESIGN §5 C08).
// Layer B: real client.OpenStream / openStreamWithRollback / GetFailOverLogs over gocbcore against
// the simulated node, real stream + checkpoint + observer on top; consumer and store are recorders.

import (
	"encoding/json"
	"fmt"
	"sync"
	"testing"
	"time"

	"github.com/Trendyol/go-dcp/couchbase"
	"github.com/Trendyol/go-dcp/models"
	"github.com/Trendyol/go-dcp/stream"
	"github.com/Trendyol/go-dcp/tracing"
	"github.com/couchbase/gocbcore/v10"
	"github.com/couchbase/gocbcore/v10/memd"
	"pgregory.net/rapid"

	"verif/simnode"
)

type c08Event struct {
	Seq  uint64 `json:"seq"`
	Kind string `json:"kind"` // mut del exp cc sd adv
}

type c08Scenario struct {
	Vb       int         `json:"vb"`
	Log      [][2]uint64 `json:"log"` // failover log, newest first: (uuid, start seq)
	CkUUID   uint64      `json:"ck_uuid"`
	F        uint64      `json:"f"`
	SnapS    uint64      `json:"snap_start"`
	SnapE    uint64      `json:"snap_end"`
	R        uint64      `json:"r"`
	Finite   bool        `json:"finite"`
	HighOver uint64      `json:"high_over"`
	Events   []c08Event  `json:"events"` // streamed after the rollback (seq > R, increasing)
	Second   string      `json:"second"` // ok | error | rollback
	Colls    []uint32    `json:"colls"`
	// Mid: the session starts normally from the checkpoint; its stream then ends with a transient cause and it is the
	// re-request inside the running session that the server answers with the rollback (the observer object lives on).
	// Mitig: rollback mitigation is enabled (real polling of OBSERVE_SEQNO); the vBucket's single copy reports everything
	// persisted, once - the vBucket is quiet afterwards.
	Mid   bool `json:"mid,omitempty"`
	Mitig bool `json:"mitig,omitempty"`
	// Immediate: the node sends the events directly behind the success response of the re-request (a backfill from disk
	// follows the response in the same flush), not after the client's OpenStream has returned
	Immediate bool `json:"immediate,omitempty"`
	// MidFailover (with Mid): between the session's start and the end of its stream the vBucket fails over: the node's
	// failover log gains the entry (0xB001, MidSeq) on top, and the rollback point R is judged against THAT log
	MidFailover bool   `json:"mid_failover,omitempty"`
	MidSeq      uint64 `json:"mid_seq,omitempty"`
	// PreShown (with Mid): before its stream ends, the session is shown this many documents above F (seqnos F+1 ..) which
	// the consumer has not acknowledged when the rollback happens: the position stays F, and the new branch's events above F
	// are all shown - also those whose seqnos the old branch had used already
	PreShown int `json:"pre_shown,omitempty"`
	preN     int
}

func c08Exec(sc c08Scenario) (detail string, labels map[string]bool) {
	labels = map[string]bool{}
	e := lbShared(1, 64, 0)
	vb := uint16(sc.Vb)
	c := e.c
	var fl []simnode.FailoverEntry
	for _, l := range sc.Log {
		fl = append(fl, simnode.FailoverEntry{UUID: l[0], Seq: l[1]})
	}
	high := sc.F + sc.HighOver
	for _, ev := range sc.Events {
		if ev.Seq > high {
			high = ev.Seq
		}
	}
	if sc.Mid && sc.Second == "ok" && sc.F+uint64(sc.PreShown) > high {
		high = sc.F + uint64(sc.PreShown)
	}
	c.Lock()
	c.Failover[vb] = fl
	for v := 0; v < 64; v++ {
		c.High[uint16(v)] = high
	}
	var evMu sync.Mutex
	var wantEv []c08Event
	evSent := false
	sendEvents := func(s *simnode.Stream) {
		evMu.Lock()
		defer evMu.Unlock()
		if evSent {
			return
		}
		evSent = true
		wantEv = c08SendEvents(sc, s, labels)
	}
	nOpen := 0
	if sc.Immediate && sc.Second == "ok" {
		c.OnStreamOpen = func(s *simnode.Stream) {
			nOpen++
			if (sc.Mid && nOpen == 2) || (!sc.Mid && nOpen == 1) { // the stream opened by the re-request after the rollback
				sendEvents(s)
			}
		}
		labels["events_directly_behind_the_success_response"] = true
	}
	nReq := 0
	c.OnStreamReq = func(r simnode.StreamReq) simnode.StreamReply {
		nReq++
		if sc.Mid && sc.Second == "ok" {
			if nReq == 2 {
				return simnode.StreamReply{Status: memd.StatusRollback, RollbackTo: sc.R}
			}
			return simnode.StreamReply{Status: memd.StatusSuccess}
		}
		if nReq == 1 {
			return simnode.StreamReply{Status: memd.StatusRollback, RollbackTo: sc.R}
		}
		switch sc.Second {
		case "error":
			return simnode.StreamReply{Status: memd.StatusTmpFail}
		case "rollback":
			return simnode.StreamReply{Status: memd.StatusRollback, RollbackTo: sc.R / 2}
		}
		return simnode.StreamReply{Status: memd.StatusSuccess}
	}
	c.Unlock()
	colls := map[uint32]string{}
	for _, id := range sc.Colls {
		colls[id] = fmt.Sprintf("c%d", id)
	}
	// expected target branch: the newest failover entry whose start seqno is <= R (in the log the node has when it answers)
	targetUUID := func() uint64 {
		for _, l := range sc.Log { // newest first
			if l[1] <= sc.R {
				return l[0]
			}
		}
		return 0
	}
	wantEnd := ^uint64(0)
	if sc.Finite {
		e.cfg.Dcp.Mode = "finite"
		wantEnd = high
	}
	mid := sc.Mid && sc.Second == "ok"
	checkReqs := func() string {
		reqs := c.StreamReqs()
		if mid {
			if len(reqs) != 3 {
				return fmt.Sprintf("node saw %d DCP_STREAM_REQ for vb %d, want exactly 3 (start, request after the stream end, re-request after rollback)", len(reqs), vb)
			}
			if r0 := reqs[0]; r0.Start != sc.F || r0.UUID != sc.CkUUID || r0.SnapStart != sc.SnapS || r0.SnapEnd != sc.SnapE {
				return fmt.Sprintf("session start requested start=%d uuid=%d snap=[%d,%d], checkpoint is seq=%d uuid=%d snap=[%d,%d]", r0.Start, r0.UUID, r0.SnapStart, r0.SnapEnd, sc.F, sc.CkUUID, sc.SnapS, sc.SnapE)
			}
			reqs = reqs[1:]
		}
		if len(reqs) != 2 {
			return fmt.Sprintf("node saw %d DCP_STREAM_REQ for vb %d, want exactly 2 (request, re-request after rollback)", len(reqs), vb)
		}
		r1, r2 := reqs[0], reqs[1]
		if mid {
			// the request after the stream end starts from the position reached (nothing was delivered: still F)
			if r1.Start != sc.F {
				return fmt.Sprintf("request after the stream end starts at %d, the position reached is %d", r1.Start, sc.F)
			}
		} else if r1.Start != sc.F || r1.UUID != sc.CkUUID || r1.SnapStart != sc.SnapS || r1.SnapEnd != sc.SnapE {
			return fmt.Sprintf("first request start=%d uuid=%d snap=[%d,%d], checkpoint is seq=%d uuid=%d snap=[%d,%d]", r1.Start, r1.UUID, r1.SnapStart, r1.SnapEnd, sc.F, sc.CkUUID, sc.SnapS, sc.SnapE)
		}
		if r2.Start != sc.R {
			return fmt.Sprintf("re-request starts at %d, server said roll back to %d", r2.Start, sc.R)
		}
		if r2.SnapStart != sc.R || r2.SnapEnd != sc.R {
			return fmt.Sprintf("re-request snapshot [%d,%d], want [%d,%d]", r2.SnapStart, r2.SnapEnd, sc.R, sc.R)
		}
		if wantUUID := targetUUID(); r2.UUID != wantUUID {
			return fmt.Sprintf("re-request on vbuuid %d, the history branch containing %d is %d (log %v)", r2.UUID, sc.R, wantUUID, sc.Log)
		}
		if r2.End != r1.End || r1.End != wantEnd {
			return fmt.Sprintf("request ends %d / %d, want %d both times", r1.End, r2.End, wantEnd)
		}
		if r2.Filter != r1.Filter {
			return fmt.Sprintf("collection filter changed between requests: %q -> %q", r1.Filter, r2.Filter)
		}
		return ""
	}

	if sc.Second != "ok" {
		// a vBucket that cannot be reopened must surface as an error (openAllStreams then stops the process: C15)
		labels["second_"+sc.Second] = true
		off := &models.Offset{SnapshotMarker: &models.SnapshotMarker{StartSeqNo: sc.SnapS, EndSeqNo: sc.SnapE}, VbUUID: gocbcore.VbUUID(sc.CkUUID), SeqNo: sc.F, LatestSeqNo: wantEnd}
		obs := couchbase.NewObserver(e.cfg, vb, wantEnd, func(models.ListenerArgs) {}, func(models.DcpStreamEndContext) {}, colls, tracing.NewTracerComponent())
		var err error
		ok, pv := within(30*time.Second, func() { err = e.client.OpenStream(vb, colls, off, obs) })
		if !ok || pv != nil {
			return fmt.Sprintf("OpenStream: returned=%v panic=%v", ok, pv), labels
		}
		if err == nil {
			_ = e.client.CloseStream(vb)
			return fmt.Sprintf("the re-request was answered with %s but OpenStream reported success", sc.Second), labels
		}
		return checkReqs(), labels
	}

	if sc.Mitig {
		e.cfg.RollbackMitigation.Disabled = false
		e.cfg.RollbackMitigation.Interval = 4 * time.Millisecond
		e.cfg.RollbackMitigation.ConfigWatchInterval = 10 * time.Millisecond
		c.Lock()
		c.Persist[[2]int{int(vb), 0}] = [2]uint64{sc.Log[0][0], 1 << 40}
		c.Unlock()
		labels["rollback_mitigation_on"] = true
	}
	fm := newFakeMeta()
	fm.durable[vb] = ckTuple{UUID: sc.CkUUID, Seq: sc.F, Start: sc.SnapS, End: sc.SnapE}
	cons := &fakeConsumer{}
	disc := &fakeDiscovery{}
	disc.set(vb, vb)
	stopCh := make(chan struct{}, 1)
	st := stream.NewStream(e.client, fm, e.cfg, &couchbase.Version{Major: 7}, &couchbase.BucketInfo{BucketType: "membase"},
		disc, cons, colls, stopCh, &fakeHandler{}, tracing.NewTracerComponent())
	if ok, pv := within(30*time.Second, func() { st.Open() }); !ok || pv != nil {
		return fmt.Sprintf("Open(): returned=%v panic=%v", ok, pv), labels
	}
	closed := false
	defer func() {
		if !closed {
			within(30*time.Second, func() { st.Close(false) })
		}
	}()
	if mid {
		s0 := c.Stream(vb)
		if s0 == nil {
			return "no open stream on the node after the session start", labels
		}
		if sc.Mitig {
			// let the persisted position be observed and handed to the observer before the stream ends
			deadline := time.Now().Add(5 * time.Second)
			for n := 0; n < 2 && !deadlinePassed(deadline); time.Sleep(time.Millisecond) {
				n = 0
				for _, en := range c.Log() {
					if en.Cmd == cmdObserveSeqNo && en.Vb == vb && en.Replied && en.Reply == 0 {
						n++
					}
				}
			}
			time.Sleep(15 * time.Millisecond)
		}
		if sc.PreShown > 0 {
			s0.Marker(sc.F+1, sc.F+uint64(sc.PreShown))
			for j := 1; j <= sc.PreShown; j++ {
				q := sc.F + uint64(j)
				s0.Mutation(simnode.DocEvent{Seq: q, Rev: q, Cas: (1_700_000_000 + q) * 1_000_000_000, Key: []byte(fmt.Sprintf("old%d", q)), Value: []byte(`{}`)})
			}
			for dl := time.Now().Add(10 * time.Second); cons.count() < sc.PreShown; time.Sleep(200 * time.Microsecond) {
				if deadlinePassed(dl) {
					return fmt.Sprintf("the session was sent %d documents above its checkpoint before the stream ended; %d were delivered", sc.PreShown, cons.count()), labels
				}
			}
			sc.preN = sc.PreShown
			labels["shown_unacknowledged_documents_before_the_rollback"] = true
		}
		if sc.MidFailover {
			sc.Log = append([][2]uint64{{0xB001, sc.MidSeq}}, sc.Log...)
			c.Lock()
			c.Failover[vb] = append([]simnode.FailoverEntry{{UUID: 0xB001, Seq: sc.MidSeq}}, fl...)
			if sc.Mitig {
				c.Persist[[2]int{int(vb), 0}] = [2]uint64{0xB001, 1 << 40}
			}
			c.Unlock()
			labels["failover_between_session_start_and_rollback"] = true
			if sc.MidSeq <= sc.R {
				labels["rollback_point_on_the_branch_created_mid_session"] = true
			}
		}
		s0.End(memd.StreamEndStateChanged)
		deadline := time.Now().Add(10 * time.Second)
		for len(c.StreamReqs()) < 3 || c.Stream(vb) == nil || c.Stream(vb) == s0 {
			if deadlinePassed(deadline) {
				return fmt.Sprintf("the stream ended with a transient cause; the node saw %d requests afterwards and has no new open stream", len(c.StreamReqs())-1), labels
			}
			time.Sleep(time.Millisecond)
		}
		labels["rollback_on_request_inside_session"] = true
	}
	if d := checkReqs(); d != "" {
		return d, labels
	}
	s := c.Stream(vb)
	if s == nil {
		return "no open stream on the node after the re-request", labels
	}
	// the new branch streams its events; then the server ends the stream cleanly (sync point)
	if !sc.Immediate {
		sendEvents(s)
	} else {
		// (the node sends them right after its response; the client may be back from Open before that)
		for dl := time.Now().Add(10 * time.Second); !deadlinePassed(dl); time.Sleep(200 * time.Microsecond) {
			evMu.Lock()
			done := evSent
			evMu.Unlock()
			if done {
				break
			}
		}
	}
	evMu.Lock()
	want := append([]c08Event(nil), wantEv...)
	evMu.Unlock()
	s.End(memd.StreamEndOK)
	select {
	case <-stopCh:
	case <-time.After(15 * time.Second):
		return fmt.Sprintf("events and the clean stream end were sent but the stream never finished (consumer has %d events)", len(cons.snapshot())), labels
	}
	d, labels := c08Judge(sc, cons, want, labels, func() {})
	if d == "" {
		// what the session leaves behind for the next one: a checkpoint at or above F (a stored position below F would have
		// the next session show events at or below F again)
		within(20*time.Second, func() { st.Save() })
		if t, ok := fm.snapshot()[vb]; ok && t.Seq < sc.F {
			d = fmt.Sprintf("after the rollback session the stored checkpoint is seq %d (vbUUID %d), below the position F=%d that was already checkpointed: the next session shows events in (%d,%d] again", t.Seq, t.UUID, sc.F, t.Seq, sc.F)
		}
	}
	closed = true
	within(30*time.Second, func() { st.Close(false) })
	return d, labels
}

// c08SendEvents streams the scenario's events on the given stream and returns the document events the consumer must see.
func c08SendEvents(sc c08Scenario, s *simnode.Stream, labels map[string]bool) (want []c08Event) {
	var snapEnd uint64
	last := sc.R
	for i, ev := range sc.Events {
		if ev.Kind == "adv" {
			s.SeqNoAdvanced(ev.Seq)
			snapEnd = ev.Seq
		} else {
			if ev.Seq > snapEnd {
				end := ev.Seq
				if i+2 < len(sc.Events) {
					end = sc.Events[i+2].Seq // a snapshot of up to three events
				} else if i+1 < len(sc.Events) {
					end = sc.Events[i+1].Seq
				}
				s.Marker(last+1, end)
				snapEnd = end
			}
			d := simnode.DocEvent{Seq: ev.Seq, Rev: ev.Seq, Cas: (1_700_000_000 + ev.Seq) * 1_000_000_000, Key: []byte(fmt.Sprintf("k%d", ev.Seq)), Value: []byte(`{}`)}
			switch ev.Kind {
			case "mut":
				s.Mutation(d)
			case "del":
				s.Deletion(d)
			case "exp":
				s.Expiration(d)
			case "cc":
				s.SystemEvent(ev.Seq, memd.StreamEventCollectionCreate, 1, 0, 9, []byte("c9"))
			case "sd":
				s.SystemEvent(ev.Seq, memd.StreamEventScopeDelete, 1, 9, 0, nil)
			}
		}
		last = ev.Seq
		switch ev.Kind {
		case "mut", "del", "exp":
			if ev.Seq > sc.F {
				want = append(want, ev)
				labels["event_above_F"] = true
			} else {
				labels["event_at_or_below_F"] = true
				if ev.Seq == sc.F {
					labels["event_exactly_F"] = true
				}
			}
		}
	}
	return want
}

func c08Judge(sc c08Scenario, cons *fakeConsumer, want []c08Event, labels map[string]bool, closeStream func()) (string, map[string]bool) {
	got := cons.snapshot()
	if sc.preN <= len(got) {
		got = got[sc.preN:] // (what the session was shown before the rollback)
	}
	newUUID := sc.Log[0][0]
	for i := 0; i < len(got) || i < len(want); i++ {
		if i >= len(want) {
			return fmt.Sprintf("consumer was shown %s seq %d again (already checkpointed position F=%d) or an invented event", got[i].Kind, got[i].Seq, sc.F), labels
		}
		if i >= len(got) {
			return fmt.Sprintf("document event seq %d (> F=%d) was not delivered after the rollback", want[i].Seq, sc.F), labels
		}
		if got[i].Seq != want[i].Seq {
			if got[i].Seq <= sc.F {
				return fmt.Sprintf("consumer was shown seq %d although F=%d was already checkpointed", got[i].Seq, sc.F), labels
			}
			return fmt.Sprintf("after the rollback the consumer got seq %d where seq %d was due (skipped / reordered)", got[i].Seq, want[i].Seq), labels
		}
		if got[i].Off.UUID != newUUID {
			return fmt.Sprintf("seq %d delivered with vbUUID %d, the stream was reopened on branch %d (first failover entry of the second response)", got[i].Seq, got[i].Off.UUID, newUUID), labels
		}
		if got[i].Off.Seq != got[i].Seq || got[i].Off.Start > got[i].Seq || got[i].Off.End < got[i].Seq {
			return fmt.Sprintf("seq %d delivered with offset %+v", got[i].Seq, got[i].Off), labels
		}
	}
	closeStream()
	return "", labels
}

func c08Gen(t *rapid.T) c08Scenario {
	sc := c08Scenario{Vb: rapid.IntRange(0, 63).Draw(t, "vb"), Finite: rapid.Bool().Draw(t, "finite"),
		Second: rapid.SampledFrom([]string{"ok", "ok", "ok", "ok", "error", "rollback"}).Draw(t, "second")}
	// failover log: 1..6 entries, newest first, non-increasing starts, oldest 0, equal starts allowed
	n := rapid.IntRange(1, 6).Draw(t, "nlog")
	starts := make([]uint64, n)
	for i := n - 2; i >= 0; i-- {
		starts[i] = starts[i+1] + rapid.SampledFrom([]uint64{0, 1, 2, 5, 10}).Draw(t, "dstart")
	}
	for i := 0; i < n; i++ {
		sc.Log = append(sc.Log, [2]uint64{0xA000 + uint64(n-i), starts[i]})
	}
	top := starts[0]
	// checkpoint F with its snapshot; F relative to the snapshot: start / middle / end
	sc.F = rapid.OneOf(rapid.Uint64Range(0, top+12), rapid.SampledFrom(append([]uint64{0, 1, top, top + 1}, starts...))).Draw(t, "f")
	below := rapid.Uint64Range(0, 3).Draw(t, "below")
	if below > sc.F {
		below = sc.F
	}
	sc.SnapS = sc.F - below
	sc.SnapE = sc.F + rapid.Uint64Range(0, 3).Draw(t, "above")
	// the checkpoint's uuid: usually a branch of the log, sometimes an unknown one (hard failover)
	sc.CkUUID = rapid.OneOf(rapid.SampledFrom(func() []uint64 {
		var u []uint64
		for _, l := range sc.Log {
			u = append(u, l[0])
		}
		return u
	}()), rapid.Just(uint64(0xDEAD))).Draw(t, "ckuuid")
	// rollback point R <= F, dense around entry starts
	var rc []uint64
	for _, s := range starts {
		for _, d := range []int64{-1, 0, 1} {
			if v := int64(s) + d; v >= 0 && uint64(v) <= sc.F {
				rc = append(rc, uint64(v))
			}
		}
	}
	rc = append(rc, 0, sc.F)
	if sc.F > 0 {
		rc = append(rc, sc.F-1)
	}
	sc.R = rapid.OneOf(rapid.SampledFrom(rc), rapid.Uint64Range(0, sc.F)).Draw(t, "r")
	sc.HighOver = rapid.Uint64Range(0, 5).Draw(t, "over")
	// events after the rollback: seq > R, increasing
	cls := rapid.SampledFrom([]string{"none", "below", "exact", "straddle", "straddle", "above"}).Draw(t, "evclass")
	seq := sc.R
	if cls == "exact" || cls == "straddle" {
		// start close below F so that the sequence really crosses it
		back := rapid.Uint64Range(1, 4).Draw(t, "back")
		if sc.F > sc.R+back {
			seq = sc.F - back
		}
	}
	k := rapid.IntRange(1, 10).Draw(t, "nev")
	for i := 0; i < k && cls != "none"; i++ {
		seq += rapid.SampledFrom([]uint64{1, 1, 1, 2, 3}).Draw(t, "gap")
		if cls == "below" && seq > sc.F {
			break
		}
		if cls == "exact" && seq > sc.F {
			break
		}
		if cls == "above" && seq <= sc.F {
			seq = sc.F + 1
		}
		kind := rapid.SampledFrom([]string{"mut", "mut", "mut", "del", "exp", "cc", "sd", "adv"}).Draw(t, "kind")
		sc.Events = append(sc.Events, c08Event{Seq: seq, Kind: kind})
	}
	if cls == "exact" && sc.F > sc.R {
		// make sure one event sits exactly at F
		if len(sc.Events) == 0 || sc.Events[len(sc.Events)-1].Seq != sc.F {
			for len(sc.Events) > 0 && sc.Events[len(sc.Events)-1].Seq >= sc.F {
				sc.Events = sc.Events[:len(sc.Events)-1]
			}
			sc.Events = append(sc.Events, c08Event{Seq: sc.F, Kind: "mut"}, c08Event{Seq: sc.F + 1, Kind: "mut"})
		}
	}
	sc.Colls = rapid.SliceOfNDistinct(rapid.Uint32Range(8, 12), 0, 2, func(u uint32) uint32 { return u }).Draw(t, "colls")
	sc.Immediate = rapid.IntRange(0, 2).Draw(t, "immediate") == 0
	sc.Mid = rapid.IntRange(0, 3).Draw(t, "mid") == 0
	sc.Mitig = rapid.IntRange(0, 2).Draw(t, "mitig") == 0
	if sc.Mid && rapid.Bool().Draw(t, "preshown") {
		sc.PreShown = rapid.IntRange(1, 4).Draw(t, "npreshown")
	}
	if sc.Mid && rapid.Bool().Draw(t, "midfailover") {
		sc.MidFailover = true
		sc.MidSeq = top
		if d := rapid.Uint64Range(0, 2).Draw(t, "midback"); sc.R >= top+d {
			sc.MidSeq = sc.R - d
		}
	}
	return sc
}

func TestC08_Rollback(t *testing.T) {
	rapid.Check(t, func(rt *rapid.T) {
		sc := c08Gen(rt)
		journal("C08", "c08", sc)
		d, labels := c08Exec(sc)
		journalDone()
		if d != "" {
			violation(rt, "C08", "c08", sc, "%s", d)
		}
		older := false
		for i, l := range sc.Log {
			if i > 0 && l[1] <= sc.R && sc.Log[i-1][1] > sc.R {
				older = true // R lies strictly inside an older branch
			}
		}
		if older {
			labels["r_in_older_branch"] = true
		}
		nt := len(sc.Log) >= 2 && older && labels["event_above_F"] && labels["event_at_or_below_F"]
		record("C08", sc, nt, append(labelList(labels), "cases")...)
	})
}

func init() {
	registerReplay("c08", func(raw json.RawMessage) string {
		var sc c08Scenario
		if err := json.Unmarshal(raw, &sc); err != nil {
			return err.Error()
		}
		d, _ := c08Exec(sc)
		return d
	})
}
