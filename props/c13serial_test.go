package props

// C13 - serial stream closing (servers below 5.5.0) over the real client: gocbcore produces the end notification of a closed
// stream itself, on the close acknowledgement and on another goroutine than the one that returns from CloseStream. Close()
// must return every time - at the first rebalance, at the ones after it, and at shutdown.

import (
	"encoding/json"
	"fmt"
	"testing"
	"time"

	godcp "github.com/Trendyol/go-dcp"
	"github.com/Trendyol/go-dcp/helpers"
	"github.com/Trendyol/go-dcp/membership"
	"github.com/couchbase/gocbcore/v10/memd"
	"pgregory.net/rapid"

	"verif/simnode"
)

type c13Serial struct {
	NumVb      int `json:"numvb"`
	Rebalances int `json:"rebalances"`
}

func c13ExecSerial(sc c13Serial) string {
	c := simnode.New(1, sc.NumVb, 0)
	defer c.Close()
	c.Version = "5.0.1-3000-enterprise"
	c.NoClientCloseEnd = true
	d, _, err := lcNewDcp(c, lcConfig(c))
	if err != nil {
		return "HARNESS: NewDcp on a 5.0.1 node failed: " + err.Error()
	}
	done := make(chan any, 1)
	go func() { defer func() { done <- recover() }(); d.Start() }()
	select {
	case <-d.WaitUntilReady():
	case r := <-done:
		return fmt.Sprintf("Start() returned / panicked before readiness: %v", r)
	case <-time.After(30 * time.Second):
		return "HARNESS: client did not become ready"
	}
	reqs := func() int {
		n := 0
		for _, e := range c.Log() {
			if e.Cmd == memd.CmdDcpStreamReq {
				n++
			}
		}
		return n
	}
	for r := 1; r <= sc.Rebalances; r++ {
		godcp.VerifBus(d).Publish(helpers.MembershipChangedBusEventName, &membership.Model{MemberNumber: 1, TotalMembers: 1})
		deadline := time.Now().Add(10 * time.Second)
		for reqs() < (r+1)*sc.NumVb {
			if deadlinePassed(deadline) {
				return fmt.Sprintf("server 5.0.1 (serial stream closing), %d vBuckets: rebalance %d never reopened the streams (%d stream requests seen, %d expected): the close of the streams did not complete", sc.NumVb, r, reqs(), (r+1)*sc.NumVb)
			}
			time.Sleep(time.Millisecond)
		}
		time.Sleep(20 * time.Millisecond)
	}
	d.Close()
	select {
	case r := <-done:
		if r != nil {
			return fmt.Sprintf("Start() panicked during Close: %v", r)
		}
	case <-time.After(15 * time.Second):
		return fmt.Sprintf("server 5.0.1 (serial stream closing), %d vBuckets: Close() after %d rebalance(s) did not complete within 15 s", sc.NumVb, sc.Rebalances)
	}
	return ""
}

func TestC13_SerialCloseReal(t *testing.T) {
	rapid.Check(t, func(rt *rapid.T) {
		sc := c13Serial{NumVb: rapid.SampledFrom([]int{2, 4, 8, 16}).Draw(rt, "numvb"), Rebalances: rapid.IntRange(0, 3).Draw(rt, "rebalances")}
		journal("C13", "c13serial", sc)
		d := c13ExecSerial(sc)
		journalDone()
		if len(d) > 7 && d[:7] == "HARNESS" {
			rt.Skip(d)
		}
		if d != "" {
			violation(rt, "C13", "c13serial", sc, "%s", d)
		}
		record("C13", sc, sc.Rebalances >= 1, "serial_close_real_client_cases")
	})
}

func init() {
	registerReplay("c13serial", func(raw json.RawMessage) string {
		var sc c13Serial
		if err := json.Unmarshal(raw, &sc); err != nil {
			return err.Error()
		}
		d := c13ExecSerial(sc)
		if len(d) > 7 && d[:7] == "HARNESS" {
			return ""
		}
		return d
	})
}
