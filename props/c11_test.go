package props

// C11 — rebalance converges to the latest assignment, once, without stopping the client (DESIGN §5 C11).
// Lifecycle engine in a child process per case (a double unlock or a double channel close is a fatal
// error of the runtime, i.e. process death). Two modes:
//   direct: real stream (Layer-A fakes, fake discovery = "latest membership value"), notifications are
//           direct stream.Rebalance() calls, as GET /rebalance and the bus listener make them, placed with
//           barriers: during close (inside CloseStream), during the delay (10-40 % of it, measured),
//           while reopening (inside OpenStream), right after.
//   bus:    real dcp.Start() (VerifNewDcp) with DYNAMIC membership: notifications are published on the
//           event bus, the real membershipChangedListener and the real dynamic membership react
//           (zero delay: "immediately for dynamic membership").

import (
	"encoding/json"
	"fmt"
	"os"
	"strings"
	"sync"
	"sync/atomic"
	"testing"
	"time"

	godcp "github.com/Trendyol/go-dcp"
	"github.com/Trendyol/go-dcp/couchbase"
	"github.com/Trendyol/go-dcp/helpers"
	"github.com/Trendyol/go-dcp/membership"
	"github.com/Trendyol/go-dcp/models"
	"github.com/Trendyol/go-dcp/stream"
	"github.com/Trendyol/go-dcp/tracing"
	"github.com/couchbase/gocbcore/v10"
	"pgregory.net/rapid"
)

const sigF6 = "first_rebalance_concurrent_trigger"

type c11Notif struct {
	State string `json:"state"` // idle | during_close | during_delay | during_reopen
	Total int    `json:"total"` // membership value announced with the notification
	Num   int    `json:"num"`
	Frac  int    `json:"frac"` // during_delay: percentage of the delay after the previous notification
}

type c11Scenario struct {
	Mode       string       `json:"mode"` // direct | bus
	DelayMs    int          `json:"delay_ms"`
	Bursts     [][]c11Notif `json:"bursts"`
	EndOnClose bool         `json:"end_on_close"` // the server confirms CloseStream with STREAM_END(closed), as a real node does
	Stored     []int        `json:"stored"`       // per vBucket (cyclic): acknowledged + saved position before the first burst
	// Gate (direct mode): rollback mitigation is on (real polling against an in-process simulated cluster, streams played
	// by the harness) and an event above what the cluster has persisted is parked in the gate when the first burst begins
	Gate bool `json:"gate,omitempty"`
	// SlowCb: the application's handler of that lifecycle callback takes SlowMs (it flushes, pauses, logs remotely ...)
	SlowCb string `json:"slow_cb,omitempty"`
	SlowMs int    `json:"slow_ms,omitempty"`
}

type c11NotifRec struct {
	At     int64 `json:"at"`    // logical clock when the call began
	AtNs   int64 `json:"at_ns"` // wall clock when the call began
	Burst  int   `json:"burst"`
	Lo, Hi int
	State  string `json:"state"`
}

type c11Result struct {
	Callbacks   []cbRecJ          `json:"callbacks"`
	Notifs      []c11NotifRec     `json:"notifs"`
	Opens       []c11OpenJ        `json:"opens"`
	CloseCalls  []int64           `json:"close_calls"` // logical clock of every CloseStream
	ConsumedAt  []int64           `json:"consumed_at"`
	FedClosedAt []int64           `json:"fed_closed_at"`
	Stopped     bool              `json:"stopped"`
	Durable     map[string]uint64 `json:"durable"`
	Note        string            `json:"note"`
	Timing      string            `json:"timing"` // non-empty: the placement could not be trusted (case discarded)
}

type cbRecJ struct {
	At    int64  `json:"at"`
	Ns    int64  `json:"ns"`
	Name  string `json:"name"`
	Leave int64  `json:"leave"`
}

type c11OpenJ struct {
	At  int64  `json:"at"`
	Vb  int    `json:"vb"`
	Seq uint64 `json:"seq"`
}

const c11NumVb = 16
const c11BusTotal, c11BusNum = 2, 1

func c11Child(raw json.RawMessage) any {
	var sc c11Scenario
	_ = json.Unmarshal(raw, &sc)
	res := &c11Result{Durable: map[string]uint64{}}
	delay := time.Duration(sc.DelayMs) * time.Millisecond
	cfg := laConfig()
	cfg.Dcp.Group.Membership.RebalanceDelay = delay
	if sc.Mode == "bus" {
		delay = 20 * time.Millisecond // only used for the harness's settle pauses below
	}
	cl := newFakeClient(c11NumVb)
	cl.endOnClose = sc.EndOnClose
	var lb *lbEnv
	if sc.Gate && sc.Mode == "direct" {
		lb = newLBFresh(3, c11NumVb, 1)
		cfg.Hosts = []string{"127.0.0.1"}
		cfg.RollbackMitigation.Disabled = false
		cfg.RollbackMitigation.Interval = 200 * time.Millisecond // the gate re-checks every interval/5
		cfg.RollbackMitigation.ConfigWatchInterval = 30 * time.Millisecond
		cfg.ConnectionTimeout = 5 * time.Second
		cl.agent = lb.agent
		cl.snapFn = lb.dcp.ConfigSnapshot
		lb.c.Lock()
		for v := 0; v < c11NumVb; v++ {
			lb.c.High[uint16(v)] = 1 << 30
			for srv := 0; srv < 3; srv++ {
				lb.c.Persist[[2]int{v, srv}] = [2]uint64{0xA1, 1 << 20} // everything streamed below is persisted ...
			}
		}
		lb.c.Unlock()
	}
	fm := newFakeMeta()
	hand := &fakeHandler{}
	if sc.SlowCb != "" {
		hand.slow = map[string]time.Duration{sc.SlowCb: time.Duration(sc.SlowMs) * time.Millisecond}
	}
	cons := &fakeConsumer{}
	for v := 0; v < c11NumVb; v++ {
		cl.setHigh(uint16(v), 1000)
	}
	// stored checkpoints
	for v := 0; v < c11NumVb; v++ {
		if s := sc.Stored[v%len(sc.Stored)]; s > 0 {
			fm.durable[uint16(v)] = ckTuple{UUID: uint64(cl.failoverOf(uint16(v))[0].VbUUID), Seq: uint64(s), Start: uint64(s), End: uint64(s)}
			res.Durable[fmt.Sprint(v)] = uint64(s)
		}
	}
	stopCh := make(chan struct{}, 1)
	disc := &fakeDiscovery{}
	var rebalance func()
	var announce func(total, num int)
	startDone := make(chan struct{})
	var d godcp.Dcp
	first := sc.Bursts[0][0]
	_ = first
	curLo, curHi := c16Range(c11NumVb, 1, 1)
	if sc.Mode == "busdelay" {
		// the real Dcp with a membership that keeps its numbers (static 1 of 2): notifications are publications on the
		// event bus (what the Couchbase / Kubernetes mechanisms and PUT /membership/info do), the configured delay applies
		cfg.Dcp.Group.Membership.TotalMembers, cfg.Dcp.Group.Membership.MemberNumber = c11BusTotal, c11BusNum
		curLo, curHi = c16Range(c11NumVb, c11BusTotal, c11BusNum)
		d = godcp.VerifNewDcp(cfg, cl, cons, &couchbase.Version{Major: 7, Minor: 6}, &couchbase.BucketInfo{BucketType: "membase"})
		d.SetMetadata(fm)
		d.SetEventHandler(hand)
		bus := godcp.VerifBus(d)
		go func() { defer close(startDone); d.Start() }()
		announce = func(total, num int) {
			bus.Publish(helpers.MembershipChangedBusEventName, &membership.Model{MemberNumber: num, TotalMembers: total})
		}
		rebalance = func() {}
		select {
		case <-d.WaitUntilReady():
		case <-time.After(20 * time.Second):
			res.Note = "HARNESS: not ready"
			return res
		}
		for i := 0; i < 2000 && !bus.HasCallback(helpers.MembershipChangedBusEventName); i++ {
			time.Sleep(time.Millisecond)
		}
	} else if sc.Mode == "bus" {
		cfg.Dcp.Group.Membership.Type = membership.DynamicMembershipType
		d = godcp.VerifNewDcp(cfg, cl, cons, &couchbase.Version{Major: 7, Minor: 6}, &couchbase.BucketInfo{BucketType: "membase"})
		d.SetMetadata(fm)
		d.SetEventHandler(hand)
		bus := godcp.VerifBus(d)
		go func() { defer close(startDone); d.Start() }()
		announce = func(total, num int) {
			bus.Publish(helpers.MembershipChangedBusEventName, &membership.Model{MemberNumber: num, TotalMembers: total})
		}
		rebalance = func() {}
		// dynamic membership waits for its first value
		for i := 0; i < 200 && !bus.HasCallback(helpers.MembershipChangedBusEventName); i++ {
			time.Sleep(time.Millisecond)
		}
		announce(1, 1)
		select {
		case <-d.WaitUntilReady():
		case <-time.After(20 * time.Second):
			res.Note = "HARNESS: not ready"
			return res
		}
	} else {
		disc.set(uint16(curLo), uint16(curHi))
		st := stream.NewStream(cl, fm, cfg, &couchbase.Version{Major: 7, Minor: 6}, &couchbase.BucketInfo{BucketType: "membase"},
			disc, cons, map[uint32]string{}, stopCh, hand, tracing.NewTracerComponent())
		st.Open()
		announce = func(total, num int) {
			lo, hi := c16Range(c11NumVb, total, num)
			disc.set(uint16(lo), uint16(hi))
		}
		rebalance = st.Rebalance
	}
	cbCount := func(name string) int {
		n := 0
		for _, x := range hand.names() {
			if x == name {
				n++
			}
		}
		return n
	}
	waitCb := func(name string, n int, d time.Duration) bool {
		dl := time.Now().Add(d)
		for cbCount(name) < n {
			if deadlinePassed(dl) {
				return false
			}
			time.Sleep(100 * time.Microsecond)
		}
		return true
	}
	var nmu sync.Mutex
	notify := func(bi int, n c11Notif) {
		lo, hi := c16Range(c11NumVb, n.Total, n.Num)
		// recording the notification and publishing its membership value are one atomic step, so that the
		// order of the records is the order in which the values became "the latest membership information"
		nmu.Lock()
		res.Notifs = append(res.Notifs, c11NotifRec{At: tick(), AtNs: time.Now().UnixNano(), Burst: bi, Lo: lo, Hi: hi, State: n.State})
		if sc.Mode == "direct" {
			announce(n.Total, n.Num)
		}
		nmu.Unlock()
		if sc.Mode != "direct" {
			announce(n.Total, n.Num) // bus mode: the publication is the notification itself (value + trigger)
		}
		rebalance()
	}
	feedClosed := func(obsBefore map[uint16]couchbase.Observer) {
		// the (old) stream is closed: whatever the server still sends must not reach the consumer
		for vb, o := range obsBefore {
			func() {
				defer func() { _ = recover() }()
				nmu.Lock()
				res.FedClosedAt = append(res.FedClosedAt, tick())
				nmu.Unlock()
				o.SnapshotMarker(models.DcpSnapshotMarker{VbID: vb, StartSeqNo: 900, EndSeqNo: 900})
				o.Mutation(gocbcore.DcpMutation{SeqNo: 900, VbID: vb, Key: []byte("while-closed"), Cas: 1})
			}()
			break
		}
	}
	var wg sync.WaitGroup
	reopenGate := make(chan struct{})
	reopenEntered := make(chan struct{}, 256)
	gateArmed := false
	// the barrier holds exactly one OpenStream call of the NEXT reopen (identified by the number of
	// BeforeStreamStart callbacks seen so far); all other calls pass
	armReopen := func() {
		reopenGate = make(chan struct{})
		g := reopenGate
		gateArmed = true
		target := cbCount("BSStart") + 1
		var once sync.Once
		cl.mu.Lock()
		cl.onOpen = func(uint16) {
			if cbCount("BSStart") == target {
				once.Do(func() { reopenEntered <- struct{}{}; <-g })
			}
		}
		cl.mu.Unlock()
	}
	if lb != nil {
		// ... except one event far above it on the first vBucket of the range: it parks inside the gate, on the
		// harness's feeder goroutine (one feeder per vBucket, as a connection's read loop)
		time.Sleep(2 * cfg.RollbackMitigation.Interval) // the thresholds are known by now
		if o := cl.observer(uint16(curLo)); o != nil {
			go func() {
				defer func() {
					if r := recover(); r != nil && os.Getenv("VERIF_DEBUG") != "" {
						fmt.Fprintln(os.Stderr, "DBG parked feeder panicked:", r)
					}
				}()
				o.SnapshotMarker(models.DcpSnapshotMarker{VbID: uint16(curLo), StartSeqNo: 1 << 10, EndSeqNo: 1<<30 + 5}) // the marker itself lies below the threshold and passes
				o.Mutation(gocbcore.DcpMutation{SeqNo: 1<<30 + 5, VbID: uint16(curLo), Key: []byte("parked"), Cas: 1})
				if os.Getenv("VERIF_DEBUG") != "" {
					fmt.Fprintln(os.Stderr, "DBG parked feeder returned at", tick(), "consumed", cons.count(), "names", hand.names())
				}
			}()
			time.Sleep(20 * time.Millisecond)
		}
	}
	for bi, burst := range sc.Bursts {
		leader := burst[0]
		are := cbCount("ARE")
		brs0 := cbCount("BRS")
		cl.mu.Lock()
		obsBefore := map[uint16]couchbase.Observer{}
		for vb, o := range cl.obs {
			obsBefore[vb] = o
		}
		cl.mu.Unlock()
		wantReopenBarrier := bi+1 < len(sc.Bursts) && sc.Bursts[bi+1][0].State == "during_reopen"
		var closeGate chan struct{}
		closeEntered := make(chan struct{}, 256)
		hasDuringClose := false
		for _, f := range burst[1:] {
			hasDuringClose = hasDuringClose || f.State == "during_close"
		}
		if hasDuringClose && sc.Mode != "bus" && leader.State == "idle" {
			closeGate = make(chan struct{})
			g := closeGate
			cl.mu.Lock()
			cl.onClose = func(uint16) { closeEntered <- struct{}{}; <-g }
			cl.mu.Unlock()
		}
		if wantReopenBarrier && sc.Mode != "bus" && leader.State != "during_reopen" {
			armReopen()
		}
		// leader
		if leader.State == "during_reopen" && sc.Mode != "bus" {
			// the previous burst's reopen is blocked inside OpenStream: this notification starts a new burst
			wg.Add(1)
			go func() { defer wg.Done(); notify(bi, leader) }()
			time.Sleep(2 * time.Millisecond)
			// further followers of this burst arrive while still reopening or in the following delay
			for _, f := range burst[1:] {
				time.Sleep(time.Duration(sc.DelayMs*f.Frac/100) * time.Millisecond)
				wg.Add(1)
				ff := f
				go func() { defer wg.Done(); notify(bi, ff) }()
			}
			time.Sleep(2 * time.Millisecond)
			prevGate := reopenGate
			gateArmed = false
			if wantReopenBarrier { // arm for the cycle of this burst (the blocked reopen has already had its BSStart)
				armReopen()
			} else {
				cl.mu.Lock()
				cl.onOpen = nil
				cl.mu.Unlock()
			}
			close(prevGate) // previous reopen completes now
			// the previous cycle ends, then this burst's own cycle must run: two more ARE... the first is the previous one
			if !waitCb("ARE", are+1, 20*time.Second) {
				res.Note = fmt.Sprintf("burst %d: the blocked reopen never completed", bi)
				return res
			}
			are++
		} else {
			wg.Add(1)
			go func() { defer wg.Done(); notify(bi, leader) }()
			if closeGate != nil {
				select {
				case <-closeEntered:
				case <-time.After(10 * time.Second):
					res.Note = "HARNESS: CloseStream barrier never entered"
					return res
				}
			}
			last := time.Now()
			for _, f := range burst[1:] {
				ff := f
				switch f.State {
				case "during_close":
					if closeGate != nil {
						wg.Add(1)
						go func() { defer wg.Done(); notify(bi, ff) }()
						// the close keeps running for a while after the trigger (a real close takes network round
						// trips): the timer the trigger re-arms must expire clearly before the cycle's own timer
						time.Sleep(70 * time.Millisecond)
						last = time.Now()
						continue
					}
					fallthrough
				default: // during_delay
					if closeGate != nil {
						close(closeGate)
						closeGate = nil
						cl.mu.Lock()
						cl.onClose = nil
						cl.mu.Unlock()
					}
					if !waitCb("BRS", brs0+1, 10*time.Second) || !waitCb("ARS", brs0+1, 10*time.Second) {
						res.Note = "HARNESS: rebalance start never completed"
						return res
					}
					if sc.Mode != "bus" {
						time.Sleep(time.Until(last.Add(time.Duration(sc.DelayMs*ff.Frac/100) * time.Millisecond)))
					}
					wg.Add(1)
					go func() { defer wg.Done(); notify(bi, ff) }()
					time.Sleep(500 * time.Microsecond)
					last = time.Now()
				}
			}
			if closeGate != nil {
				close(closeGate)
				cl.mu.Lock()
				cl.onClose = nil
				cl.mu.Unlock()
			}
		}
		// while closed: the server's late events go nowhere
		if leader.State == "idle" && waitCb("ASStop", brs0+1, 10*time.Second) && cbCount("ASStart") == cbCount("ASStop") {
			feedClosed(obsBefore)
		}
		if wantReopenBarrier && sc.Mode != "bus" {
			select {
			case <-reopenEntered:
			case <-time.After(20 * time.Second):
				res.Note = fmt.Sprintf("burst %d: the stream was never reopened", bi)
				return res
			}
			continue // next burst's leader arrives while reopening
		}
		if !waitCb("ARE", are+1, 20*time.Second) {
			res.Note = fmt.Sprintf("burst %d: the stream was never reopened (no AfterRebalanceEnd)", bi)
			return res
		}
		// settle: a wrongly scheduled extra cycle would show up within the delay
		time.Sleep(delay + delay/2 + 10*time.Millisecond)
	}
	if gateArmed {
		close(reopenGate)
	}
	wg.Wait()
	time.Sleep(delay + delay/2 + 20*time.Millisecond)
	// the new session streams: one event per vBucket of the final range
	cl.mu.Lock()
	final := map[uint16]couchbase.Observer{}
	for vb, o := range cl.obs {
		final[vb] = o
	}
	cl.mu.Unlock()
	_ = final
	for _, r := range hand.log {
		res.Callbacks = append(res.Callbacks, cbRecJ{r.At, r.T.UnixNano(), r.Name, r.Leave})
	}
	for _, o := range cl.openLog() {
		res.Opens = append(res.Opens, c11OpenJ{o.At, int(o.Vb), o.Off.SeqNo})
	}
	for _, dv := range cons.snapshot() {
		res.ConsumedAt = append(res.ConsumedAt, dv.At)
	}
	select {
	case <-stopCh:
		res.Stopped = true
	default:
	}
	if d != nil {
		select {
		case <-startDone:
			res.Stopped = true
		default:
		}
	}
	return res
}

func c11Exec(sc c11Scenario) (detail string, discarded bool) {
	r := runChild("c11", sc, 120*time.Second)
	if r.TimeOut {
		return "rebalance scenario hung: " + firstLine(r.Stderr), false
	}
	if r.Exit != 0 {
		return fmt.Sprintf("the process died during a rebalance (exit %d): %s", r.Exit, firstLine(r.Stderr)), false
	}
	var res c11Result
	if err := json.Unmarshal(r.Result, &res); err != nil {
		return "HARNESS: no result from the child: " + r.Stdout, false
	}
	if strings.HasPrefix(res.Note, "HARNESS") {
		return res.Note, false
	}
	if res.Note != "" {
		return res.Note, false
	}
	if res.Stopped {
		return "the client stopped on its own after a rebalance", false
	}
	delay := time.Duration(sc.DelayMs) * time.Millisecond
	if sc.Mode == "bus" {
		delay = 0
	}
	// 1. bracket grammar
	cbs := res.Callbacks
	if len(cbs) < 2 || cbs[0].Name != "BSStart" || cbs[1].Name != "ASStart" {
		return fmt.Sprintf("HARNESS: unexpected start of the callback trace %v", names(cbs)), false
	}
	type cycle struct{ brs, ars, bre, are, bsstop, asstop, bsstart, asstart *cbRecJ }
	var cycles []*cycle
	i := 2
	for i < len(cbs) {
		c := &cycle{}
		exp := func(name string) *cbRecJ {
			if i < len(cbs) && cbs[i].Name == name {
				i++
				return &cbs[i-1]
			}
			return nil
		}
		if c.brs = exp("BRS"); c.brs == nil {
			return fmt.Sprintf("lifecycle callbacks out of bracket order at #%d: %v", i, names(cbs)), false
		}
		if c.bsstop = exp("BSStop"); c.bsstop != nil {
			if c.asstop = exp("ASStop"); c.asstop == nil {
				return fmt.Sprintf("BeforeStreamStop without AfterStreamStop: %v", names(cbs)), false
			}
		}
		if c.ars = exp("ARS"); c.ars == nil {
			return fmt.Sprintf("BeforeRebalanceStart not closed by AfterRebalanceStart: %v", names(cbs)), false
		}
		c.bre = exp("BRE")
		if c.bre == nil {
			return fmt.Sprintf("rebalance started but the reopen part is missing or out of order: %v", names(cbs)), false
		}
		c.bsstart, c.asstart, c.are = exp("BSStart"), nil, nil
		if c.bsstart != nil {
			c.asstart = exp("ASStart")
		}
		c.are = exp("ARE")
		if c.bsstart == nil || c.asstart == nil || c.are == nil {
			return fmt.Sprintf("reopen callbacks not properly bracketed: %v", names(cbs)), false
		}
		cycles = append(cycles, c)
		// bracketed also in time: within a cycle a callback is emitted after the one before it has returned
		for _, pair := range [][2]*cbRecJ{{c.brs, c.bsstop}, {c.bsstop, c.asstop}, {c.asstop, c.ars}, {c.brs, c.ars}, {c.ars, c.bre}, {c.bre, c.bsstart}, {c.bsstart, c.asstart}, {c.asstart, c.are}} {
			if a, b := pair[0], pair[1]; a != nil && b != nil && (a.Leave == 0 || a.Leave > b.At) {
				return fmt.Sprintf("cycle %d: %s was emitted while the application's %s handler had not returned: the callbacks are not bracketed (%v)", len(cycles)-1, b.Name, a.Name, names(cbs)), false
			}
		}
	}
	// 2. bursts as they really happened: a notification belongs to the cycle whose reopen (BRE) had not started when it arrived
	nb := 0
	for _, n := range res.Notifs {
		if n.Burst+1 > nb {
			nb = n.Burst + 1
		}
	}
	// timing trust: every follower of a burst must have arrived before that burst's reopen started
	burstOf := func(n c11NotifRec) int { // index of the first cycle whose BRE comes after the notification
		for ci, c := range cycles {
			if n.At < c.bre.At {
				return ci
			}
		}
		return len(cycles)
	}
	realBursts := map[int][]c11NotifRec{}
	for _, n := range res.Notifs {
		realBursts[burstOf(n)] = append(realBursts[burstOf(n)], n)
	}
	for _, n := range res.Notifs {
		if n.State == "during_delay" || n.State == "during_close" {
			// intended as a follower: if it arrived after the reopen had begun the placement failed (slow machine)
			intended := -1
			for _, m := range res.Notifs {
				if m.Burst == n.Burst && (intended == -1) {
					intended = burstOf(m)
				}
			}
			if burstOf(n) != intended {
				return "", true
			}
		}
	}
	closes := 0
	for _, c := range cycles {
		if c.bsstop != nil {
			closes++
		}
	}
	if len(cycles) != len(realBursts) || closes != len(realBursts) {
		return fmt.Sprintf("%d bursts of notifications, but the stream was closed %d times and reopened %d times (callbacks %v)", len(realBursts), closes, len(cycles), names(cbs)), false
	}
	for ci, c := range cycles {
		ns := realBursts[ci]
		if len(ns) == 0 {
			return fmt.Sprintf("cycle %d has no notification", ci), false
		}
		lastN := ns[len(ns)-1]
		for _, n := range ns {
			if n.At > lastN.At {
				lastN = n
			}
		}
		// dynamic membership: the reopen follows immediately (the configured delay, 300 ms here, is ignored)
		if sc.Mode == "bus" {
			if gap := time.Duration(c.bre.Ns - c.ars.Ns); gap > time.Duration(sc.DelayMs)*time.Millisecond*2/3 {
				return fmt.Sprintf("cycle %d: dynamic membership, but the reopen began %v after the stream was closed (configured delay %d ms must not apply)", ci, gap, sc.DelayMs), false
			}
		}
		// reopen not earlier than the delay after the burst's last notification
		if gap := time.Duration(c.bre.Ns - lastN.AtNs); gap < delay-2*time.Millisecond {
			return fmt.Sprintf("cycle %d: reopen began %v after the last notification of its burst, configured delay is %v", ci, gap, delay), false
		}
		// reopened on the range of the most recent membership information
		got := map[int]uint64{}
		for _, o := range res.Opens {
			if o.At > c.bsstart.At && o.At < c.are.At {
				got[o.Vb] = o.Seq
			}
		}
		if len(got) != lastN.Hi-lastN.Lo+1 {
			return fmt.Sprintf("cycle %d: reopened %d vBuckets %v, the latest membership information assigns %d-%d", ci, len(got), keysOf(got), lastN.Lo, lastN.Hi), false
		}
		for vb, seq := range got {
			if vb < lastN.Lo || vb > lastN.Hi {
				return fmt.Sprintf("cycle %d: reopened vb %d, the latest membership information assigns %d-%d", ci, vb, lastN.Lo, lastN.Hi), false
			}
			if seq != res.Durable[fmt.Sprint(vb)] {
				return fmt.Sprintf("cycle %d: vb %d reopened from seq %d, stored checkpoint is %d", ci, vb, seq, res.Durable[fmt.Sprint(vb)]), false
			}
		}
		// no delivery while closed
		for _, at := range res.ConsumedAt {
			if c.bsstop != nil && at > c.asstop.At && at < c.asstart.At {
				return fmt.Sprintf("cycle %d: an event was delivered while the stream was closed", ci), false
			}
		}
		// every CloseStream lies inside a stop bracket
	}
	for _, at := range res.CloseCalls {
		_ = at
	}
	return "", false
}

func names(cbs []cbRecJ) []string {
	out := make([]string, len(cbs))
	for i, c := range cbs {
		out[i] = c.Name
	}
	return out
}

func keysOf(m map[int]uint64) []int {
	var k []int
	for v := range m {
		k = append(k, v)
	}
	return k
}

func c11InF6Class(sc c11Scenario) bool {
	// a direct trigger arriving during the close of the very first rebalance of the stream object
	if sc.Mode != "direct" || len(sc.Bursts) == 0 || sc.Bursts[0][0].State != "idle" {
		return false
	}
	for _, f := range sc.Bursts[0][1:] {
		if f.State == "during_close" {
			return true
		}
	}
	return false
}

func c11Gen(rt *rapid.T) c11Scenario {
	sc := c11Scenario{Mode: rapid.SampledFrom([]string{"direct", "direct", "direct", "bus", "busdelay", "busdelay"}).Draw(rt, "mode"),
		DelayMs: rapid.SampledFrom([]int{60, 100, 160}).Draw(rt, "delay"), EndOnClose: rapid.Bool().Draw(rt, "endonclose")}
	sc.Stored = rapid.SliceOfN(rapid.IntRange(0, 9), 1, 8).Draw(rt, "stored")
	sc.Gate = sc.Mode == "direct" && rapid.IntRange(0, 3).Draw(rt, "gate") == 0
	if sc.Mode == "bus" {
		sc.DelayMs = 300
	}
	if k := rapid.IntRange(0, 2).Draw(rt, "slow"); k == 0 || (sc.Mode == "bus" && k == 1) {
		sc.SlowCb = rapid.SampledFrom([]string{"BRS", "BSStop", "ASStop", "ARS", "ARS", "ARS", "BRE", "BSStart", "ASStart", "ARE"}).Draw(rt, "slowcb")
		sc.SlowMs = rapid.IntRange(5, 30).Draw(rt, "slowms")
	}
	nb := rapid.IntRange(1, 3).Draw(rt, "nbursts")
	val := func(n *c11Notif) {
		n.Total = rapid.IntRange(1, 4).Draw(rt, "total")
		n.Num = rapid.IntRange(1, n.Total).Draw(rt, "num")
		if sc.Mode == "busdelay" {
			n.Total, n.Num = c11BusTotal, c11BusNum // the membership keeps its numbers; the notification still starts a cycle
		}
	}
	for b := 0; b < nb; b++ {
		var burst []c11Notif
		lead := c11Notif{State: "idle"}
		if b > 0 && sc.Mode != "bus" && rapid.IntRange(0, 2).Draw(rt, "reopenlead") == 0 {
			lead.State = "during_reopen"
		}
		val(&lead)
		burst = append(burst, lead)
		k := rapid.IntRange(0, 4).Draw(rt, "followers")
		if sc.Mode == "bus" {
			k = 0 // zero delay: every notification is its own burst
		}
		for i := 0; i < k; i++ {
			f := c11Notif{State: rapid.SampledFrom([]string{"during_close", "during_delay", "during_delay"}).Draw(rt, "fstate"), Frac: rapid.IntRange(10, 40).Draw(rt, "frac")}
			if sc.Mode == "bus" || lead.State == "during_reopen" {
				f.State = "during_delay"
			}
			val(&f)
			burst = append(burst, f)
		}
		// during_close followers first (the close barrier is released by the first during_delay follower)
		var dc, dd []c11Notif
		for _, f := range burst[1:] {
			if f.State == "during_close" {
				dc = append(dc, f)
			} else {
				dd = append(dd, f)
			}
		}
		burst = append(append(burst[:1], dc...), dd...)
		sc.Bursts = append(sc.Bursts, burst)
	}
	return sc
}

func TestC11_Rebalance(t *testing.T) {
	n := scale(96, 2400)
	_, nsh := shard()
	known := isKnown("C11", sigF6) // (repaired: nil unless the finding is listed as known again)
	var scs []c11Scenario
	rapid.Check(t, func(rt *rapid.T) {
		if len(scs) > 0 {
			return
		}
		for i := 0; i < (n+nsh-1)/nsh; i++ {
			sc := c11Gen(rt)
			if known != nil && c11InF6Class(sc) {
				countExcluded("C11")
				for j := range sc.Bursts[0] {
					if sc.Bursts[0][j].State == "during_close" {
						sc.Bursts[0][j].State = "during_delay"
					}
				}
			}
			scs = append(scs, sc)
		}
	})
	out := make([]string, len(scs))
	disc := make([]bool, len(scs))
	var retried atomic.Int64
	var wg sync.WaitGroup
	sem := make(chan struct{}, 5)
	for i := range scs {
		wg.Add(1)
		go func(i int) {
			defer wg.Done()
			sem <- struct{}{}
			defer func() { <-sem }()
			out[i], disc[i] = c11Exec(scs[i])
			if !disc[i] && strings.Contains(out[i], "but the stream was closed") {
				// one close/reopen cycle too many can also come from a timer of the library firing late on a loaded machine
				// (a notification during the close is kept as a timer; fired after the reopen it starts a cycle of its own):
				// a schedule the harness does not own. Only a count that repeats in a second execution is reported.
				retried.Add(1)
				out[i], disc[i] = c11Exec(scs[i])
			}
		}(i)
	}
	wg.Wait()
	for k := int64(0); k < retried.Load(); k++ {
		countDiscarded("C11")
	}
	for i, d := range out {
		if strings.HasPrefix(d, "HARNESS") {
			t.Fatalf("harness trouble: %s (%+v)", d, scs[i])
		}
		if disc[i] {
			countDiscarded("C11")
			continue
		}
		if d != "" {
			violation(t, "C11", "c11", scs[i], "%s", d)
		}
		states := map[string]bool{}
		multi := false
		for _, b := range scs[i].Bursts {
			if len(b) >= 2 {
				multi = true
			}
			for _, nf := range b {
				states[nf.State] = true
			}
		}
		labs := []string{"cases", "mode_" + scs[i].Mode}
		if scs[i].Gate {
			labs = append(labs, "event_parked_in_mitigation_gate")
		}
		for s := range states {
			labs = append(labs, "notif_"+s)
		}
		if scs[i].SlowCb != "" {
			labs = append(labs, "slow_handler", "slow_handler_"+scs[i].SlowCb+"_"+scs[i].Mode)
		}
		record("C11", scs[i], (multi && len(states) >= 2) || (scs[i].SlowCb != "" && scs[i].Mode == "bus"), labs...)
	}
}

// stress unit for the schedule the harness does not own: the library's finish-token waiter vs. the reopen
// histories with rebalances on the model-based engine: after every rebalance the member streams the whole range of the most
// recent membership information - also when the server ends a freshly requested stream with a transient cause while the
// rebalance is still completing (the vBucket is requested again, as at any other time)
func TestC11_ReopenHistory(t *testing.T) {
	w := hWeights{deliver: 40, ack: 26, save: 6, rebalance: 14, absorbed: 8, maxVb: scale(6, 12), minOps: 1, maxOps: scale(40, 120)}
	known := isKnown("C01", sigF1)
	rapid.Check(t, func(rt *rapid.T) {
		sc := genHistory(rt, w)
		sc.EndOnClose = rapid.Bool().Draw(rt, "endOnClose")
		journal("C11", "c11rehist", sc)
		v, labels, _ := runHistory(&sc, known != nil, "C11")
		journalDone()
		if v != nil {
			violation(rt, v.Prop, "c11rehist", sc, "%s", v.Detail)
		}
		record("C11", sc, labels["transient_end_while_rebalance_completes"], append(labelList(labels), "reopen_histories")...)
	})
}

func init() {
	registerReplay("c11rehist", histReplayer(func() bool { return false }, "C11"))
}

// notifications placed by the lifecycle callbacks on a real stream + real discovery object (the executor of C09's
// StreamFollowsMembership): whatever the moment of the last notification - also while the AfterRebalanceEnd callback of the
// previous rebalance is still running - the stream ends up reopened on the range of the most recent membership information
func TestC11_FollowMembership(t *testing.T) {
	rapid.Check(t, func(rt *rapid.T) {
		sc := c09GenFollow(rt)
		journal("C11", "c11follow", sc)
		d, labels := c09ExecFollow(sc)
		journalDone()
		if d != "" {
			violation(rt, "C11", "c11follow", sc, "not reopened on the range of the most recent membership information: %s", d)
		}
		record("C11", sc, labels["event_while_rebalance_ends"] || labels["event_while_reopening"], append(labelList(labels), "follow_cases")...)
	})
}

func init() {
	registerReplay("c11follow", func(raw json.RawMessage) string {
		var sc c09Follow
		if err := json.Unmarshal(raw, &sc); err != nil {
			return "bad scenario: " + err.Error()
		}
		d, _ := c09ExecFollow(sc)
		return d
	})
}

// Couchbase heart-beat membership (real, on the simulated node; child process per history): an instance behind this member
// disappears and a new one registers within one monitor round - the set of instances changes, this member's number and the
// group size do not: nothing is announced to the stream, no interruption (the executor is C10's Couchbase unit)
func TestC11_CouchbaseSwap(t *testing.T) {
	n := scale(8, 240)
	_, nsh := shard()
	var scs []c10CB
	rapid.Check(t, func(rt *rapid.T) {
		if len(scs) > 0 {
			return
		}
		for i := 0; i < (n+nsh-1)/nsh; i++ {
			sc := c10CB{}
			for j, k := 0, rapid.IntRange(2, 5).Draw(rt, "members"); j < k; j++ {
				sc.Ops = append(sc.Ops, c10Op{Join: true})
			}
			sc.Ops = append(sc.Ops, c10Op{Swap: rapid.IntRange(1, 8).Draw(rt, "swapwho")})
			scs = append(scs, sc)
		}
	})
	out := make([]string, len(scs))
	tim := make([]bool, len(scs))
	var wg sync.WaitGroup
	sem := make(chan struct{}, 8)
	for i := range scs {
		wg.Add(1)
		go func(i int) {
			defer wg.Done()
			sem <- struct{}{}
			defer func() { <-sem }()
			out[i], tim[i] = c10ExecCB(scs[i])
			if tim[i] || strings.Contains(out[i], "died") {
				out[i], tim[i] = c10ExecCB(scs[i])
			}
		}(i)
	}
	wg.Wait()
	for i, d := range out {
		if strings.HasPrefix(d, "HARNESS") {
			t.Fatalf("harness trouble: %s", d)
		}
		if tim[i] {
			countDiscarded("C11")
			continue
		}
		if strings.Contains(d, "repeating the membership in effect") {
			violation(t, "C11", "c11cbswap", scs[i], "%s", d)
		}
		record("C11", scs[i], true, "couchbase_instance_swap_cases")
	}
}

func init() {
	registerReplay("c11cbswap", func(raw json.RawMessage) string {
		var sc c10CB
		if err := json.Unmarshal(raw, &sc); err != nil {
			return err.Error()
		}
		d, timing := c10ExecCB(sc)
		if timing || !strings.Contains(d, "repeating the membership in effect") {
			return ""
		}
		return d
	})
}

func TestC11_Stress(t *testing.T) {
	sc := c11Stress{Rebalances: scale(4000, 40000), Spinners: 8}
	if d := c11ExecStress(sc); d != "" {
		violation(t, "C11", "c11stress", sc, "%s", d)
	}
	sc2 := c11Stress{Rebalances: scale(300, 3000), Spinners: 8, DelayUs: 200}
	if d := c11ExecStress(sc2); d != "" {
		violation(t, "C11", "c11stress", sc2, "%s", d)
	}
	sc3 := c11DynStress{Rounds: scale(5000, 60000), Spinners: 8}
	if d := c11ExecDynStress(sc3); d != "" {
		violation(t, "C11", "c11dynstress", sc3, "%s", d)
	}
	recordEnum("C11", int64(sc.Rebalances+sc2.Rebalances+sc3.Rounds), 3, map[string]int64{"stress_rebalances": int64(sc.Rebalances + sc2.Rebalances), "stress_dynamic_announcements": int64(sc3.Rounds)})
}

// repaired defects: their replays must hold now (a regression is reported like any other violation)
func TestC11_Fixed(t *testing.T) {
	for _, f := range []string{"findings/C11_first_rebalance_concurrent_trigger.json", "findings/C11_dynamic_membership_stale_info.json"} {
		if d := runReplayFile(verifRoot() + "/" + f); d != "" {
			var rf replayFile
			b, _ := os.ReadFile(verifRoot() + "/" + f)
			_ = json.Unmarshal(b, &rf)
			violation(t, "C11", rf.Unit, rf.Scenario, "regression of a repaired defect (%s): %s", f, d)
		}
		record("C11", f, false, "fixed_replay")
	}
}

func init() {
	registerChild("c11", c11Child)
	registerReplay("c11dynstress", func(raw json.RawMessage) string {
		var sc c11DynStress
		if err := json.Unmarshal(raw, &sc); err != nil {
			return err.Error()
		}
		return c11ExecDynStress(sc)
	})
	registerReplay("c11", func(raw json.RawMessage) string {
		var sc c11Scenario
		if err := json.Unmarshal(raw, &sc); err != nil {
			return err.Error()
		}
		for try := 0; try < 3; try++ {
			d, discarded := c11Exec(sc)
			if !discarded {
				return d
			}
		}
		return ""
	})
}
