package props

// Layer C: the real dcp.NewDcp (client.Connect over gocbcore's HTTP bootstrap + SCRAM, HTTP client, version and
// bucket-info requests, gate expressions of newDcp, client.DcpConnect) against the simulated cluster. What the
// library negotiated is read off the node: DCP_CONTROL keys per DCP connection.

import (
	"fmt"
	"testing"
	"time"

	dcp "github.com/Trendyol/go-dcp"
	"github.com/Trendyol/go-dcp/config"
	"github.com/Trendyol/go-dcp/membership"
	"github.com/Trendyol/go-dcp/models"
	"verif/simnode"
)

func lcConfig(c *simnode.Cluster) *config.Dcp {
	cfg := &config.Dcp{BucketName: "b", Username: "u", Password: "p"}
	cfg.Hosts = c.HTTPAddrs()
	cfg.Dcp.Group.Name = "g"
	cfg.Dcp.Group.Membership.Type = membership.StaticMembershipType
	cfg.Dcp.Group.Membership.RebalanceDelay = 5 * time.Millisecond
	cfg.Checkpoint.Type = "manual"
	cfg.Metadata.Type = "couchbase"
	cfg.ConnectionTimeout = 10 * time.Second
	cfg.Dcp.ConnectionTimeout = 10 * time.Second
	cfg.RollbackMitigation.Disabled = true
	cfg.HealthCheck.Disabled = true
	cfg.API.Disabled = true
	return cfg
}

// lcNewDcp runs the real constructor; returns the client, what the node saw, and the error.
func lcNewDcp(c *simnode.Cluster, cfg *config.Dcp) (d dcp.Dcp, controls map[string]string, err error) {
	before := len(c.DcpControls())
	d, err = dcp.NewDcp(cfg, func(*models.ListenerContext) {})
	controls = map[string]string{}
	for _, k := range c.DcpControls()[before:] {
		controls[k.Key] = k.Value
	}
	return
}

func TestLayerCProbe(t *testing.T) {
	c := simnode.New(1, 8, 0)
	defer c.Close()
	c.Version = "7.2.0-5325-enterprise"
	c.StorageBackend = "magma"
	t0 := time.Now()
	d, ctl, err := lcNewDcp(c, lcConfig(c))
	fmt.Println("took", time.Since(t0), "err", err, "controls", ctl)
	if err == nil {
		fmt.Println("version", d.GetVersion())
		d.Close()
	}
}
