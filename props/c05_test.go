package props

// C05 — settled progress becomes durable; a failed save loses nothing (DESIGN §5 C05).

import (
	"encoding/json"
	"fmt"
	"os"
	"testing"
	"time"

	"pgregory.net/rapid"
)

func c05Weights() hWeights {
	return hWeights{deliver: 34, ack: 28, save: 10, savefail: 7, savebegin: 11, saveend: 10, savequeue: 6, failover: 3, end: 3, rebalance: 3, transientOnly: true,
		absorbed: 25, maxVb: scale(5, 12), minOps: 1, maxOps: scale(60, 200)}
}

func TestC05_History(t *testing.T) {
	known := isKnown("C01", sigF1) // same engine: keep the C01 finding out of the way of C05's search
	rapid.Check(t, func(rt *rapid.T) {
		sc := genHistory(rt, c05Weights())
		journal("C05", "c05hist", sc)
		v, labels, _ := runHistory(&sc, known != nil, "C05")
		journalDone()
		if v != nil {
			violation(rt, v.Prop, "c05hist", sc, "%s", v.Detail)
		}
		nt := labels["save_ok_after_failure"] || (labels["ack_during_store"] && labels["save_ok"]) || labels["absorbed_only_vb_saved"]
		record("C05", sc, nt, append(labelList(labels), "histories")...)
	})
}

// the same on the whole-state (file) backend: several saves with different dirty sets, read back after each
func TestC05_FileHistory(t *testing.T) {
	w := hWeights{deliver: 40, ack: 30, save: 18, crash: 4, absorbed: 20, maxVb: 5, minOps: 1, maxOps: scale(50, 150)}
	known := isKnown("C01", sigF1)
	rapid.Check(t, func(rt *rapid.T) {
		sc := genHistory(rt, w)
		sc.File = true
		journal("C05", "c05filehist", sc)
		v, labels, _ := runHistory(&sc, known != nil, "C05")
		journalDone()
		if v != nil {
			violation(rt, v.Prop, "c05filehist", sc, "%s", v.Detail)
		}
		record("C05", sc, labels["file_save_with_idle_vbucket"], append(labelList(labels), "file_histories")...)
	})
}

func init() {
	registerReplay("c05hist", histReplayer(func() bool { return false }, "C05"))
	registerReplay("c05filehist", histReplayer(func() bool { return false }, "C05"))
}

// ---- periodic schedule and explicit Commit (real checkpoint ticker, interval 2 ms) ----

type c05Periodic struct {
	NVb      int   `json:"nvb"`
	Events   []int `json:"events"`   // per vBucket: number of document events delivered
	Acked    []int `json:"acked"`    // per vBucket: how many of them are acknowledged (in order)
	SysOnly  []int `json:"sysonly"`  // per vBucket: additional non-document events afterwards (only if all acked)
	Failures int   `json:"failures"` // the store rejects this many save calls first
	Commit   bool  `json:"commit"`   // use ListenerContext.Commit instead of waiting for the ticker
}

func c05ExecPeriodic(sc c05Periodic) string {
	h := &hScenario{NumVb: 8, Lo: 0, Hi: sc.NVb - 1}
	s := newSession(h, "C05")
	if !sc.Commit {
		s.cfg.Checkpoint.Type = "auto"
		s.cfg.Checkpoint.Interval = 2 * time.Millisecond
	}
	fails := sc.Failures
	s.meta.mu.Lock()
	s.meta.next = saveOutcome{writes: -1}
	s.meta.mu.Unlock()
	// reject the first `fails` store calls (decided per call, under the store's lock)
	var failLeft = fails
	s.meta.onWrite = nil
	s.open()
	defer s.finish()
	s.meta.mu.Lock()
	s.meta.nextFn = func() saveOutcome {
		if failLeft > 0 {
			failLeft--
			return saveOutcome{err: errInjected, writes: 0}
		}
		return saveOutcome{writes: -1}
	}
	s.meta.mu.Unlock()
	want := map[uint16]uint64{}
	var lastCtx *delivered
	for v := 0; v < sc.NVb; v++ {
		for i := 0; i < sc.Events[v]; i++ {
			s.deliver(hOp{Op: "deliver", Vb: v, Kind: "mut", Snap: 1})
		}
		m := s.vbOf(v)
		for i := 0; i < sc.Acked[v] && len(m.pending) > 0; i++ {
			ev := m.pending[0]
			m.pending = m.pending[1:]
			ev.delivered.Ctx.Ack()
			lastCtx = ev.delivered
			want[m.vb] = ev.ev.Seq
		}
		if len(m.pending) == 0 {
			for i := 0; i < sc.SysOnly[v]; i++ {
				s.deliver(hOp{Op: "deliver", Vb: v, Kind: []string{"cc", "adv", "sd"}[i%3]})
				want[m.vb] = m.lastSent
			}
		}
	}
	if s.viol != nil {
		return s.viol.Detail
	}
	if sc.Commit {
		if lastCtx == nil {
			return ""
		}
		for i := 0; i <= fails; i++ {
			lastCtx.Ctx.Commit()
		}
	}
	// bounded wait (typical: one or two ticks = a few ms; the bound is 1000x that)
	deadline := time.Now().Add(5 * time.Second)
	for {
		dur := s.meta.snapshot()
		ok := true
		for vb, w := range want {
			if dur[vb].Seq != w {
				ok = false
			}
		}
		if ok {
			break
		}
		if sc.Commit || deadlinePassed(deadline) {
			return fmt.Sprintf("settled positions %v not durable (store: %v) after %d rejected save(s), commit=%v", want, dur, fails, sc.Commit)
		}
		time.Sleep(time.Millisecond)
	}
	// nothing else was written: vBuckets without settled progress have no document
	for vb := range s.meta.snapshot() {
		if _, ok := want[vb]; !ok {
			return fmt.Sprintf("vb %d written although nothing was settled on it", vb)
		}
	}
	return ""
}

func TestC05_Periodic(t *testing.T) {
	rapid.Check(t, func(rt *rapid.T) {
		sc := c05Periodic{NVb: rapid.IntRange(1, 4).Draw(rt, "nvb"), Failures: rapid.IntRange(0, 3).Draw(rt, "fail"), Commit: rapid.Bool().Draw(rt, "commit")}
		for v := 0; v < sc.NVb; v++ {
			e := rapid.IntRange(0, 5).Draw(rt, "ev")
			sc.Events = append(sc.Events, e)
			sc.Acked = append(sc.Acked, rapid.IntRange(0, e).Draw(rt, "ack"))
			sc.SysOnly = append(sc.SysOnly, rapid.IntRange(0, 2).Draw(rt, "sys"))
		}
		if d := c05ExecPeriodic(sc); d != "" {
			violation(rt, "C05", "c05periodic", sc, "%s", d)
		}
		lab := "periodic_ticker"
		if sc.Commit {
			lab = "explicit_commit"
		}
		record("C05", sc, sc.Failures > 0, lab)
	})
}

// repaired defects (known_findings.json, status fixed): their replays must hold now; if one fails
// again it is reported as a violation like any other.
func TestC05_Fixed(t *testing.T) {
	for _, f := range []string{"findings/C05_nondoc_only_progress_never_saved.json", "findings/C05_progress_during_inflight_save_unmarked.json", "findings/C05_queued_save_stale_dirty_set.json"} {
		if d := runReplayFile(verifRoot() + "/" + f); d != "" {
			var rf replayFile
			b, _ := os.ReadFile(verifRoot() + "/" + f)
			_ = json.Unmarshal(b, &rf)
			violation(t, "C05", rf.Unit, rf.Scenario, "regression of a repaired defect (%s): %s", f, d)
		}
		record("C05", f, false, "fixed_replay")
	}
}

func init() {
	registerReplay("c05periodic", func(raw json.RawMessage) string {
		var sc c05Periodic
		if err := json.Unmarshal(raw, &sc); err != nil {
			return err.Error()
		}
		return c05ExecPeriodic(sc)
	})
}
