package props

// C19, Stop() from several goroutines at once: "Stop() returns promptly ... and no ping is issued after it has returned,
// and repeated ... Stop calls are harmless" also holds when the repeated calls overlap (Dcp.Close() from the application
// and from the signal handler, say). The first Stop() arrives while a ping is in flight and a tick is already queued
// behind it, the others shortly after; once ANY of them has returned the checker must be silent.

import (
	"encoding/json"
	"fmt"
	"sync"
	"sync/atomic"
	"testing"
	"time"

	"github.com/Trendyol/go-dcp/config"
	"github.com/Trendyol/go-dcp/couchbase"
	"pgregory.net/rapid"
)

type c19Overlap struct {
	Trials     int   `json:"trials"`      // independent health checkers, one after the other (which branch the checker's select takes is a coin flip)
	PingUs     int   `json:"ping_us"`     // every ping takes this long
	IntervalUs int   `json:"interval_us"` // check interval (shorter than a ping: a tick is queued when the ping returns)
	GapsUs     []int `json:"gaps_us"`     // the further Stop() calls start this long after the first (each from its own goroutine)
	InPing     bool  `json:"in_ping"`     // the first Stop() is called while a ping is in flight (else right after one returned)
	StartAgain bool  `json:"start_again"` // Start() is called again after the Stops: harmless, the checker stays stopped
}

func c19ExecOverlap(sc c19Overlap) string {
	for tr := 0; tr < sc.Trials; tr++ {
		var anyReturned atomic.Bool
		var late atomic.Int64
		var pings atomic.Int64
		inflight := make(chan struct{}, 1)
		done := make(chan struct{}, 1)
		cl := newFakeClient(2)
		cl.pingFn = func() error {
			if anyReturned.Load() {
				late.Add(1)
			}
			pings.Add(1)
			select {
			case inflight <- struct{}{}:
			default:
			}
			time.Sleep(time.Duration(sc.PingUs) * time.Microsecond)
			select {
			case done <- struct{}{}:
			default:
			}
			return nil
		}
		hc := couchbase.NewHealthCheck(&config.HealthCheck{Interval: time.Duration(sc.IntervalUs) * time.Microsecond, Timeout: time.Second}, cl)
		hc.Start()
		select {
		case <-inflight:
		case <-time.After(10 * time.Second):
			hc.Stop()
			return "HARNESS: no ping within 10 s"
		}
		if !sc.InPing {
			<-done
		}
		var wg sync.WaitGroup
		var slowest atomic.Int64
		stop := func(after time.Duration) {
			defer wg.Done()
			time.Sleep(after)
			t0 := time.Now()
			hc.Stop()
			anyReturned.Store(true)
			el := time.Since(t0)
			if el -= recentStall(el + 10*time.Millisecond); el < 0 {
				el = 0
			}
			if d := el.Microseconds(); d > slowest.Load() {
				slowest.Store(d)
			}
		}
		wg.Add(1 + len(sc.GapsUs))
		go stop(0)
		for _, g := range sc.GapsUs {
			go stop(time.Duration(g) * time.Microsecond)
		}
		wg.Wait()
		if sc.StartAgain {
			hc.Start()
		}
		// a checker that survived pings again within one ping + one interval
		time.Sleep(time.Duration(2*sc.PingUs+2*sc.IntervalUs)*time.Microsecond + 3*time.Millisecond)
		if n := late.Load(); n > 0 {
			return fmt.Sprintf("trial %d: %d ping(s) were issued after a Stop() call had returned (%d overlapping Stop() calls, the first %s)", tr, n, 1+len(sc.GapsUs), map[bool]string{true: "while a ping was in flight", false: "right after a ping returned"}[sc.InPing])
		}
		if d := slowest.Load(); d > 900_000 {
			return fmt.Sprintf("trial %d: a Stop() call took %d us", tr, d)
		}
	}
	return ""
}

func TestC19_OverlappingStops(t *testing.T) {
	rapid.Check(t, func(rt *rapid.T) {
		sc := c19Overlap{Trials: 14, PingUs: rapid.SampledFrom([]int{500, 2000, 5000}).Draw(rt, "ping"), InPing: rapid.IntRange(0, 3).Draw(rt, "inping") != 0,
			StartAgain: rapid.Bool().Draw(rt, "startagain")}
		sc.IntervalUs = rapid.SampledFrom([]int{100, 300, sc.PingUs / 2, sc.PingUs * 3}).Draw(rt, "interval")
		sc.GapsUs = rapid.SliceOfN(rapid.IntRange(0, sc.PingUs*3/4), 0, 3).Draw(rt, "gaps")
		if d := c19ExecOverlap(sc); d != "" {
			if len(d) > 8 && d[:8] == "HARNESS:" {
				rt.Fatalf("harness trouble: %s", d)
			}
			violation(rt, "C19", "c19overlap", sc, "%s", d)
		}
		lab := "stops_one_after_the_other"
		if len(sc.GapsUs) > 0 {
			lab = "stops_overlapping"
			if sc.InPing && sc.IntervalUs < sc.PingUs {
				lab = "stops_overlapping_in_ping_with_tick_queued"
			}
		}
		record("C19", sc, len(sc.GapsUs) > 0 && sc.InPing, "overlap_cases", lab)
	})
}

func init() {
	registerReplay("c19overlap", func(raw json.RawMessage) string {
		var sc c19Overlap
		if err := json.Unmarshal(raw, &sc); err != nil {
			return err.Error()
		}
		d := c19ExecOverlap(sc)
		if len(d) > 8 && d[:8] == "HARNESS:" {
			return ""
		}
		return d
	})
}
