package props

// C09 — vBucket partition across group members is exact.
// Exhaustive enumeration of (N, T) for helpers.ChunkSlice, member selection through the real
// stream.NewVBucketDiscovery(...).Get() with static membership, plus a rapid-sampled variant
// whose failing case shrinks to a minimal (N, T, m).

import (
	"encoding/json"
	"fmt"
	"net/rpc"
	"os"
	"path/filepath"
	"strconv"
	"strings"
	"sync"
	"testing"
	"time"

	"github.com/Trendyol/go-dcp/config"
	"github.com/Trendyol/go-dcp/couchbase"
	"github.com/Trendyol/go-dcp/helpers"
	"github.com/Trendyol/go-dcp/membership"
	"github.com/Trendyol/go-dcp/metadata"
	"github.com/Trendyol/go-dcp/models"
	"github.com/Trendyol/go-dcp/servicediscovery"
	"github.com/Trendyol/go-dcp/stream"
	"github.com/Trendyol/go-dcp/tracing"
	"github.com/asaskevich/EventBus"
	"pgregory.net/rapid"
)

type c09Case struct {
	N int `json:"n"`
	T int `json:"t"`
	M int `json:"m,omitempty"` // member number (discovery variant); 0 = all members
}

// checkPartition states the property on the chunk list computed for (N, T).
func c09CheckChunks(n, t int, chunks [][]uint16) string {
	if len(chunks) != t {
		return fmt.Sprintf("N=%d T=%d: %d chunks", n, t, len(chunks))
	}
	next := 0
	minSz, maxSz := n+1, 0
	for i, c := range chunks {
		if len(c) == 0 {
			return fmt.Sprintf("N=%d T=%d: member %d has an empty set", n, t, i+1)
		}
		for j, v := range c {
			if int(v) != next {
				return fmt.Sprintf("N=%d T=%d: member %d element %d is %d, expected %d (gap/overlap/not ascending)", n, t, i+1, j, v, next)
			}
			next++
		}
		if len(c) < minSz {
			minSz = len(c)
		}
		if len(c) > maxSz {
			maxSz = len(c)
		}
	}
	if next != n {
		return fmt.Sprintf("N=%d T=%d: covered 0..%d, expected 0..%d", n, t, next-1, n-1)
	}
	if maxSz-minSz > 1 {
		return fmt.Sprintf("N=%d T=%d: sizes differ by %d", n, t, maxSz-minSz)
	}
	return ""
}

func c09Slice(n int) []uint16 {
	s := make([]uint16, n)
	for i := range s {
		s[i] = uint16(i)
	}
	return s
}

func c09ExecChunk(c c09Case) (d string) {
	defer func() {
		if r := recover(); r != nil {
			d = fmt.Sprintf("N=%d T=%d: panic %v", c.N, c.T, r)
		}
	}()
	in := c09Slice(c.N)
	a := helpers.ChunkSlice(in, c.T)
	if d := c09CheckChunks(c.N, c.T, a); d != "" {
		return d
	}
	// purity: a second evaluation gives the same answer and the input is untouched
	b := helpers.ChunkSlice(c09Slice(c.N), c.T)
	for i := range a {
		if len(a[i]) != len(b[i]) || a[i][0] != b[i][0] {
			return fmt.Sprintf("N=%d T=%d: two evaluations differ at member %d", c.N, c.T, i+1)
		}
	}
	for i, v := range in {
		if int(v) != i {
			return fmt.Sprintf("N=%d T=%d: input slice modified", c.N, c.T)
		}
	}
	return ""
}

func c09Discovery(n, t, m int) []uint16 {
	cfg := &config.Dcp{}
	cfg.Dcp.Group.Membership.Type = membership.StaticMembershipType
	cfg.Dcp.Group.Membership.MemberNumber = m
	cfg.Dcp.Group.Membership.TotalMembers = t
	d := stream.NewVBucketDiscovery(nil, cfg, n, EventBus.New())
	return d.Get()
}

// c09ExecDiscovery: every member asks the real discovery object independently (in a
// generated order when m != 0 selects a single member compared against the reference).
func c09ExecDiscovery(c c09Case) (d string) {
	defer func() {
		if r := recover(); r != nil {
			d = fmt.Sprintf("N=%d T=%d m=%d: panic %v", c.N, c.T, c.M, r)
		}
	}()
	if c.M != 0 {
		got := c09Discovery(c.N, c.T, c.M)
		q, r := c.N/c.T, c.N%c.T
		if len(got) == 0 || (len(got) != q && len(got) != q+1) || (r == 0 && len(got) != q) {
			return fmt.Sprintf("N=%d T=%d m=%d: size %d not in {%d,%d}", c.N, c.T, c.M, len(got), q, q+1)
		}
		for j := 1; j < len(got); j++ {
			if got[j] != got[j-1]+1 {
				return fmt.Sprintf("N=%d T=%d m=%d: not contiguous at %d", c.N, c.T, c.M, j)
			}
		}
		// neighbours (asked after m): adjacent, no gap, no overlap; ends of the range pinned
		if c.M == 1 && got[0] != 0 {
			return fmt.Sprintf("N=%d T=%d m=1: starts at %d", c.N, c.T, got[0])
		}
		if c.M == c.T && int(got[len(got)-1]) != c.N-1 {
			return fmt.Sprintf("N=%d T=%d m=%d: last member ends at %d", c.N, c.T, c.M, got[len(got)-1])
		}
		if c.M > 1 {
			prev := c09Discovery(c.N, c.T, c.M-1)
			if len(prev) == 0 || prev[len(prev)-1]+1 != got[0] {
				return fmt.Sprintf("N=%d T=%d: members %d and %d are not adjacent", c.N, c.T, c.M-1, c.M)
			}
		}
		if c.M < c.T {
			next := c09Discovery(c.N, c.T, c.M+1)
			if len(next) == 0 || got[len(got)-1]+1 != next[0] {
				return fmt.Sprintf("N=%d T=%d: members %d and %d are not adjacent", c.N, c.T, c.M, c.M+1)
			}
		}
		again := c09Discovery(c.N, c.T, c.M)
		if len(again) != len(got) || again[0] != got[0] {
			return fmt.Sprintf("N=%d T=%d m=%d: Get() not pure", c.N, c.T, c.M)
		}
		return ""
	}
	chunks := make([][]uint16, c.T)
	// members evaluate in reverse order: the answer may not depend on who asks first
	for m := c.T; m >= 1; m-- {
		chunks[m-1] = c09Discovery(c.N, c.T, m)
	}
	return c09CheckChunks(c.N, c.T, chunks)
}

func c09Ns() []int {
	var ns []int
	if thorough() {
		for n := 1; n <= 1024; n++ {
			ns = append(ns, n)
		}
		return ns
	}
	for n := 1; n <= 256; n++ {
		ns = append(ns, n)
	}
	return append(ns, 512, 1024)
}

func TestC09_ChunkExhaustive(t *testing.T) {
	sh, nsh := shard()
	var n64, nt int64
	for i, n := range c09Ns() {
		if i%nsh != sh {
			continue
		}
		for tt := 1; tt <= n; tt++ {
			c := c09Case{N: n, T: tt}
			if d := c09ExecChunk(c); d != "" {
				violation(t, "C09", "c09chunk", c, "%s", d)
			}
			n64++
			if n%tt != 0 {
				nt++
				if nt == 1 || nt == 1000 || nt == 30000 {
					addSample("C09", c)
				}
			}
		}
	}
	recordEnum("C09", n64, nt, map[string]int64{"chunk_pairs": n64})
	if thorough() {
		markExhaustive("C09")
	}
	addNote("C09", fmt.Sprintf("ChunkSlice enumerated for every T in 1..N, N in %s", map[bool]string{true: "1..1024 (complete)", false: "1..256 plus 512 and 1024"}[thorough()]))
}

func TestC09_DiscoveryExhaustive(t *testing.T) {
	sh, nsh := shard()
	ns := []int{64, 128, 1024}
	var n64, nt int64
	idx := 0
	for _, n := range ns {
		for tt := 1; tt <= n; tt++ {
			idx++
			if idx%nsh != sh {
				continue
			}
			if !thorough() && n == 1024 && tt > 64 && tt%17 != 0 && tt < 1000 {
				continue // quick tier thins the 1024 row
			}
			c := c09Case{N: n, T: tt}
			if d := c09ExecDiscovery(c); d != "" {
				violation(t, "C09", "c09disc", c, "%s", d)
			}
			n64++
			if n%tt != 0 {
				nt++
				if nt == 7 {
					addSample("C09", map[string]any{"via": "NewVBucketDiscovery.Get static", "n": n, "t": tt})
				}
			}
		}
	}
	recordEnum("C09", n64, nt, map[string]int64{"discovery_pairs_all_members": n64})
}

func TestC09_Rapid(t *testing.T) {
	rapid.Check(t, func(rt *rapid.T) {
		n := rapid.IntRange(1, 1024).Draw(rt, "n")
		tt := rapid.IntRange(1, n).Draw(rt, "t")
		m := rapid.IntRange(1, tt).Draw(rt, "m")
		c := c09Case{N: n, T: tt, M: m}
		if d := c09ExecDiscovery(c); d != "" {
			violation(rt, "C09", "c09disc", c, "%s", d)
		}
		c2 := c09Case{N: n, T: tt}
		if d := c09ExecChunk(c2); d != "" {
			violation(rt, "C09", "c09chunk", c2, "%s", d)
		}
		record("C09", c, n%tt != 0, "rapid_member")
	})
}

// ---------- one discovery object over a membership history ----------

type c09HistStep struct {
	T    int `json:"t"`
	M    int `json:"m"`
	Gets int `json:"gets"`
}

type c09Hist struct {
	N     int           `json:"n"`
	Steps []c09HistStep `json:"steps"`
}

// c09ExecHistory: ONE discovery object (dynamic membership, numbers arrive over the event bus as they do from
// PUT /membership/info and from the Couchbase / Kubernetes mechanisms) is asked after every membership change; the
// answer must be the one a fresh object gives for the same (N, T, member number) - i.e. a pure function of them.
func c09ExecHistory(h c09Hist) (d string) {
	defer func() {
		if r := recover(); r != nil {
			d = fmt.Sprintf("N=%d: panic %v", h.N, r)
		}
	}()
	cfg := &config.Dcp{}
	cfg.Dcp.Group.Membership.Type = membership.DynamicMembershipType
	bus := EventBus.New()
	disc := stream.NewVBucketDiscovery(nil, cfg, h.N, bus)
	defer disc.Close()
	for i, st := range h.Steps {
		bus.Publish(helpers.MembershipChangedBusEventName, &membership.Model{MemberNumber: st.M, TotalMembers: st.T})
		want := c09Discovery(h.N, st.T, st.M)
		for g := 0; g <= st.Gets; g++ {
			got := disc.Get()
			if len(got) != len(want) || len(got) == 0 || got[0] != want[0] || got[len(got)-1] != want[len(want)-1] {
				return fmt.Sprintf("N=%d step %d: member %d/%d is given %s by an object with a history, %s by a fresh one (not a pure function of N, T, member number)",
					h.N, i, st.M, st.T, c09Range(got), c09Range(want))
			}
			for j := 1; j < len(got); j++ {
				if got[j] != got[j-1]+1 {
					return fmt.Sprintf("N=%d step %d: member %d/%d: not contiguous at %d", h.N, i, st.M, st.T, j)
				}
			}
		}
	}
	return ""
}

func c09Range(v []uint16) string {
	if len(v) == 0 {
		return "nothing"
	}
	return fmt.Sprintf("%d-%d", v[0], v[len(v)-1])
}

func TestC09_DiscoveryHistory(t *testing.T) {
	rapid.Check(t, func(rt *rapid.T) {
		h := c09Hist{N: rapid.SampledFrom([]int{1, 2, 3, 7, 8, 16, 64, 100, 128, 1024}).Draw(rt, "n")}
		var prev c09HistStep
		sameT, sameInfo := false, false
		for i, k := 0, rapid.IntRange(1, 12).Draw(rt, "steps"); i < k; i++ {
			st := c09HistStep{Gets: rapid.IntRange(0, 2).Draw(rt, "gets")}
			switch cls := rapid.IntRange(0, 3).Draw(rt, "class"); {
			case i > 0 && cls == 0: // same group size, another number (a member ahead of this one was replaced)
				st.T = prev.T
				st.M = rapid.IntRange(1, st.T).Draw(rt, "m")
				sameT = sameT || st.M != prev.M
			case i > 0 && cls == 1: // unchanged info published again
				st.T, st.M = prev.T, prev.M
				sameInfo = true
			default:
				maxT := h.N
				if maxT > 40 && rapid.Bool().Draw(rt, "smallgroup") {
					maxT = 8
				}
				st.T = rapid.IntRange(1, maxT).Draw(rt, "t")
				st.M = rapid.IntRange(1, st.T).Draw(rt, "m")
			}
			h.Steps = append(h.Steps, st)
			prev = st
		}
		if d := c09ExecHistory(h); d != "" {
			violation(rt, "C09", "c09hist", h, "%s", d)
		}
		labels := []string{"discovery_histories"}
		if sameT {
			labels = append(labels, "renumbered_same_group_size")
		}
		if sameInfo {
			labels = append(labels, "same_info_again")
		}
		record("C09", h, sameT, labels...)
	})
}

func init() {
	registerReplay("c09hist", func(raw json.RawMessage) string {
		var h c09Hist
		if err := json.Unmarshal(raw, &h); err != nil {
			return "bad scenario: " + err.Error()
		}
		return c09ExecHistory(h)
	})
	registerReplay("c09chunk", func(raw json.RawMessage) string {
		var c c09Case
		if err := json.Unmarshal(raw, &c); err != nil {
			return "bad scenario: " + err.Error()
		}
		return c09ExecChunk(c)
	})
	registerReplay("c09disc", func(raw json.RawMessage) string {
		var c c09Case
		if err := json.Unmarshal(raw, &c); err != nil {
			return "bad scenario: " + err.Error()
		}
		return c09ExecDiscovery(c)
	})
}

// ---------- the member's streams follow the membership: what it streams once the group is stable ----------
// The partition is what the members STREAM: after any sequence of membership events - also events arriving while an
// earlier one is still being applied (stream closing, reopen pending, reopen running) - the member ends up streaming
// exactly the set a fresh discovery object computes for the last (N, T, member number).

type c09FollowStep struct {
	T    int    `json:"t"`
	M    int    `json:"m"`
	When string `json:"when"` // idle | closing | pending | reopen_before | reopen_after (relative to the previous event's rebalance)
}

type c09Follow struct {
	N       int             `json:"n"`
	Dynamic bool            `json:"dynamic"` // dynamic membership: the reopen is not delayed
	Steps   []c09FollowStep `json:"steps"`
	// File: metadata type file, and the checkpoint file holds an entry for EVERY vBucket of the bucket (written while this
	// instance was the only member): what the member streams is its partition, not what its file happens to list
	File bool `json:"file,omitempty"`
}

func c09ExecFollow(sc c09Follow) (string, map[string]bool) {
	labels := map[string]bool{}
	cfgS := laConfig()
	cfgS.Dcp.Group.Membership.RebalanceDelay = 8 * time.Millisecond
	if sc.Dynamic {
		cfgS.Dcp.Group.Membership.Type = membership.DynamicMembershipType
	}
	cfgD := &config.Dcp{}
	cfgD.Dcp.Group.Membership.Type = membership.DynamicMembershipType
	bus := EventBus.New()
	disc := stream.NewVBucketDiscovery(nil, cfgD, sc.N, bus)
	defer disc.Close()
	bus.Publish(helpers.MembershipChangedBusEventName, &membership.Model{MemberNumber: sc.Steps[0].M, TotalMembers: sc.Steps[0].T})
	cl := newFakeClient(sc.N)
	hand := &fakeHandler{}
	var md metadata.Metadata = newFakeMeta()
	if sc.File {
		dir := os.Getenv("VERIF_WORK")
		if dir == "" {
			dir = os.TempDir()
		}
		path := filepath.Join(dir, fmt.Sprintf("c09-%d-%d-%d.json", os.Getpid(), tick(), time.Now().UnixNano()))
		defer os.Remove(path)
		cfgS.Metadata.Type = "file"
		cfgS.Metadata.Config = map[string]string{"fileName": path}
		md = metadata.NewFSMetadata(cfgS)
		all := map[uint16]*models.CheckpointDocument{}
		for v := 0; v < sc.N; v++ {
			all[uint16(v)] = c02DocOf(ckTuple{UUID: uint64(cl.failoverOf(uint16(v))[0].VbUUID)}, "u")
		}
		if err := md.Save(all, nil, "u"); err != nil {
			return "HARNESS: cannot write the checkpoint file: " + err.Error(), labels
		}
		labels["file_lists_every_vbucket"] = true
	}
	st := stream.NewStream(cl, md, cfgS, &couchbase.Version{Major: 7}, &couchbase.BucketInfo{BucketType: "membase"},
		disc, &fakeConsumer{}, map[uint32]string{}, make(chan struct{}, 1), hand, tracing.NewTracerComponent())
	if ok, pv := within(20*time.Second, func() { st.Open() }); !ok || pv != nil {
		return fmt.Sprintf("Open(): returned=%v panic=%v", ok, pv), labels
	}
	counts := func() (brs, are int) {
		for _, n := range hand.names() {
			switch n {
			case "BRS":
				brs++
			case "ARE":
				are++
			}
		}
		return
	}
	var mu sync.Mutex
	fired := make([]bool, len(sc.Steps))
	fired[0] = true
	var fire func(j int, where string)
	fire = func(j int, where string) {
		mu.Lock()
		if j >= len(sc.Steps) || fired[j] {
			mu.Unlock()
			return
		}
		fired[j] = true
		mu.Unlock()
		labels["event_"+where] = true
		if j+1 < len(sc.Steps) {
			nxt := j + 1
			switch sc.Steps[nxt].When {
			case "closing":
				hand.hook("ASStop", func() { fire(nxt, "while_closing") })
			case "reopen_before":
				hand.hook("BSStart", func() { fire(nxt, "at_reopen_start") })
			case "reopen_after":
				hand.hook("ASStart", func() { fire(nxt, "while_reopening") })
			case "ending":
				// from another goroutine while the AfterRebalanceEnd callback of the previous rebalance is still running (the
				// rebalance has lowered its flag but still holds its lock): the call queues behind it
				hand.hook("ARE", func() {
					started := make(chan struct{})
					go func() { close(started); fire(nxt, "while_rebalance_ends") }()
					<-started
					time.Sleep(3 * time.Millisecond)
				})
			}
		}
		// what the library does with a membership event: the membership object and dcp.membershipChangedListener
		bus.Publish(helpers.MembershipChangedBusEventName, &membership.Model{MemberNumber: sc.Steps[j].M, TotalMembers: sc.Steps[j].T})
		st.Rebalance()
		if j+1 < len(sc.Steps) && sc.Steps[j+1].When == "pending" {
			fire(j+1, "while_reopen_pending")
		}
	}
	waitIdle := func(limit time.Duration) bool {
		deadline := time.Now().Add(limit)
		stableSince := time.Now()
		lb, la := counts()
		for !deadlinePassed(deadline) {
			b, a := counts()
			if b != lb || a != la || b != a || !st.IsOpen() {
				lb, la, stableSince = b, a, time.Now()
			} else if time.Since(stableSince) > 40*time.Millisecond {
				return true
			}
			time.Sleep(time.Millisecond)
		}
		return false
	}
	for j := 1; j < len(sc.Steps); j++ {
		mu.Lock()
		done := fired[j]
		mu.Unlock()
		if done {
			continue
		}
		waitIdle(5 * time.Second)
		if ok, pv := within(20*time.Second, func() { fire(j, "idle") }); !ok || pv != nil {
			return fmt.Sprintf("membership event %d: Rebalance() returned=%v panic=%v", j, ok, pv), labels
		}
	}
	last := sc.Steps[len(sc.Steps)-1]
	want := c09Range(c09Discovery(sc.N, last.T, last.M))
	deadline := time.Now().Add(10 * time.Second)
	for {
		b, a := counts()
		if b == a && st.IsOpen() && cl.liveRange() == want {
			break
		}
		if deadlinePassed(deadline) {
			b, a := counts()
			return fmt.Sprintf("N=%d: the membership settled at member %d of %d; the member streams vBuckets %s, a member with that number streams %s (rebalances begun %d, finished %d)",
				sc.N, last.M, last.T, cl.liveRange(), want, b, a), labels
		}
		time.Sleep(time.Millisecond)
	}
	waitIdle(2 * time.Second)
	if got := cl.liveRange(); got != want {
		return fmt.Sprintf("N=%d: after settling at member %d of %d the member went on to stream %s instead of %s", sc.N, last.M, last.T, got, want), labels
	}
	within(20*time.Second, func() { st.Close(false) })
	return "", labels
}

func c09GenFollow(rt *rapid.T) c09Follow {
	sc := c09Follow{N: rapid.SampledFrom([]int{4, 8, 16, 64, 128}).Draw(rt, "n"), Dynamic: rapid.IntRange(0, 3).Draw(rt, "dynamic") == 0}
	for i, k := 0, rapid.IntRange(2, 5).Draw(rt, "steps"); i < k; i++ {
		maxT := sc.N
		if maxT > 8 {
			maxT = 8
		}
		s := c09FollowStep{T: rapid.IntRange(1, maxT).Draw(rt, "t")}
		s.M = rapid.IntRange(1, s.T).Draw(rt, "m")
		s.When = "idle"
		if i > 0 {
			s.When = rapid.SampledFrom([]string{"idle", "closing", "pending", "reopen_before", "reopen_after", "reopen_after", "ending", "ending"}).Draw(rt, "when")
		}
		sc.Steps = append(sc.Steps, s)
	}
	sc.File = rapid.IntRange(0, 3).Draw(rt, "file") == 0
	return sc
}

func TestC09_StreamFollowsMembership(t *testing.T) {
	rapid.Check(t, func(rt *rapid.T) {
		sc := c09GenFollow(rt)
		journal("C09", "c09follow", sc)
		d, labels := c09ExecFollow(sc)
		journalDone()
		if d != "" {
			violation(rt, "C09", "c09follow", sc, "%s", d)
		}
		record("C09", sc, labels["event_while_reopening"] || labels["event_while_closing"] || labels["event_while_rebalance_ends"], append(labelList(labels), "stream_follows_cases")...)
	})
}

func init() {
	registerReplay("c09follow", func(raw json.RawMessage) string {
		var sc c09Follow
		if err := json.Unmarshal(raw, &sc); err != nil {
			return "bad scenario: " + err.Error()
		}
		d, _ := c09ExecFollow(sc)
		return d
	})
}

// ---------- the partition of a leader-numbered group (kubernetesHa): numbering + partition rule together ----------

type c09Group struct {
	N int       `json:"n"`
	G c10Leader `json:"group"`
}

func c09ExecGroup(g c09Group) string {
	_, part := c10ExecLeaderGroup(g.G, g.N)
	return part
}

// TestC09_LeaderGroup: the members of a leader-numbered group (real service discovery on the leader and on every
// follower, real kubernetesHa membership and vBucket discovery per member; only the RPC link is a fake that can fail)
// must together own every vBucket exactly once at the end of generated histories of ping failures, failed assignment
// RPCs and restarted followers.
func TestC09_LeaderGroup(t *testing.T) {
	n := scale(96, 2400)
	_, nsh := shard()
	var gs []c09Group
	rapid.Check(t, func(rt *rapid.T) {
		if len(gs) > 0 {
			return
		}
		for i := 0; i < (n+nsh-1)/nsh; i++ {
			gs = append(gs, c09Group{N: rapid.SampledFrom([]int{64, 128, 1024}).Draw(rt, "n"), G: c10GenLeader(rt)})
		}
	})
	out := make([]string, len(gs))
	var wg sync.WaitGroup
	for i := range gs {
		wg.Add(1)
		go func(i int) { defer wg.Done(); out[i] = c09ExecGroup(gs[i]) }(i) // sleep-dominated (5 s monitor rounds): all cases run concurrently
	}
	wg.Wait()
	for i, d := range out {
		if d != "" {
			violation(t, "C09", "c09group", gs[i], "%s", d)
		}
		fault := false
		for _, f := range gs[i].G.Followers {
			fault = fault || len(f.RpcFail) > 0 || f.Restart > 0 || f.PingFail > 0
		}
		labs := []string{"leader_groups"}
		if fault {
			labs = append(labs, "leader_group_with_fault")
		}
		record("C09", gs[i], len(gs[i].G.Followers) >= 2 && fault, labs...)
	}
}

func init() {
	registerReplay("c09group", func(raw json.RawMessage) string {
		var g c09Group
		if err := json.Unmarshal(raw, &g); err != nil {
			return "bad scenario: " + err.Error()
		}
		return c09ExecGroup(g)
	})
}

// ---------- the partition of a Couchbase-membership group (heart-beat documents on the simulated node) ----------

// TestC09_CouchbaseGroup: generated join / leave histories of real cbMembership instances (child process, as in C10);
// the (member number, group size) every live member holds at the end is turned into vBucket sets by the partition rule
// and the sets must partition the bucket.
func TestC09_CouchbaseGroup(t *testing.T) {
	n := scale(16, 1200)
	_, nsh := shard()
	var scs []c10CB
	rapid.Check(t, func(rt *rapid.T) {
		if len(scs) > 0 {
			return
		}
		for i := 0; i < (n+nsh-1)/nsh; i++ {
			sc := c10CB{}
			liveN := 0
			for j, k := 0, rapid.IntRange(2, 6).Draw(rt, "nops"); j < k; j++ {
				if liveN < 2 || (liveN < 5 && rapid.IntRange(0, 2).Draw(rt, "join") > 0) {
					sc.Ops = append(sc.Ops, c10Op{Join: true})
					liveN++
				} else {
					sc.Ops = append(sc.Ops, c10Op{Leave: rapid.IntRange(0, liveN-1).Draw(rt, "who")})
					liveN--
				}
			}
			scs = append(scs, sc)
		}
	})
	run := func(sc c10CB) (string, bool) {
		r := runChild("c10cb", sc, 120*time.Second)
		if r.TimeOut || r.Exit != 0 {
			return "", true // C10's business (a hang / a dead member process)
		}
		var res c10CBResult
		if err := json.Unmarshal(r.Result, &res); err != nil || res.Timing {
			return "", true
		}
		const numVb = 1024
		owner := make([]int, numVb)
		for i := range owner {
			owner[i] = -1
		}
		for mi, s := range res.Settled {
			if s[1] <= 0 || s[0] <= 0 || s[0] > s[1] || s[1] > numVb {
				return fmt.Sprintf("member #%d holds the numbering %d/%d at the end of the history (%v)", mi, s[0], s[1], res.Settled), false
			}
			for _, v := range helpers.ChunkSlice[uint16](c09Slice(numVb), s[1])[s[0]-1] {
				if owner[v] >= 0 {
					return fmt.Sprintf("vBucket %d is owned by member #%d (%d/%d) and member #%d (%d/%d) at the end of the history", v, owner[v], res.Settled[owner[v]][0], res.Settled[owner[v]][1], mi, s[0], s[1]), false
				}
				owner[v] = mi
			}
		}
		for v, o := range owner {
			if o < 0 && len(res.Settled) > 0 {
				return fmt.Sprintf("vBucket %d has no owner at the end of the history (members hold %v)", v, res.Settled), false
			}
		}
		return "", false
	}
	out := make([]string, len(scs))
	skip := make([]bool, len(scs))
	var wg sync.WaitGroup
	sem := make(chan struct{}, 8)
	for i := range scs {
		wg.Add(1)
		go func(i int) {
			defer wg.Done()
			sem <- struct{}{}
			defer func() { <-sem }()
			out[i], skip[i] = run(scs[i])
			if out[i] != "" || skip[i] {
				out[i], skip[i] = run(scs[i]) // convergence is bounded by real time: only a repeated miss is reported
			}
		}(i)
	}
	wg.Wait()
	for i, d := range out {
		if skip[i] {
			countDiscarded("C09")
			continue
		}
		if d != "" {
			violation(t, "C09", "c09cbgroup", scs[i], "%s", d)
		}
		record("C09", scs[i], len(scs[i].Ops) >= 3, "couchbase_groups")
	}
}

func init() {
	registerReplay("c09cbgroup", func(raw json.RawMessage) string {
		var sc c10CB
		if err := json.Unmarshal(raw, &sc); err != nil {
			return "bad scenario: " + err.Error()
		}
		d, _ := c10ExecCB(sc)
		return d
	})
}

// ---------- a follower takes the leader's assignments through the real RPC handler ----------
// kubernetesHa: the leader pushes (member number, group size) to each follower's RPC server (Handler.Rebalance). Whatever has
// happened to the follower's own handle on the leader meanwhile (assigned, lost after failed pings, assigned again), a pushed
// assignment takes effect: the follower's discovery object computes its share from the LAST one pushed - otherwise it keeps
// streaming the share of a group that no longer exists (overlap and gap at once).
type c09PushStep struct {
	Op string `json:"op"` // push | assign_leader | lose_leader
	M  int    `json:"m,omitempty"`
	T  int    `json:"t,omitempty"`
}

type c09Push struct {
	N     int           `json:"n"`
	Steps []c09PushStep `json:"steps"`
}

func c09ExecPush(sc c09Push) string {
	cfg := laConfig()
	cfg.Dcp.Group.Membership.Type = membership.KubernetesHaMembershipType
	bus := EventBus.New()
	sd := servicediscovery.NewServiceDiscovery(cfg, bus)
	disc := stream.NewVBucketDiscovery(nil, cfg, sc.N, bus)
	defer disc.Close()
	me := &models.Identity{IP: "127.0.0.1", Name: "follower", ClusterJoinTime: 2}
	leader := &models.Identity{IP: "127.0.0.1", Name: "leader", ClusterJoinTime: 1}
	var port int
	var srvOK bool
	var srv servicediscovery.Server
	defer func() {
		if srvOK {
			func() { defer func() { _ = recover() }(); srv.Shutdown() }()
		}
	}()
	for try := 0; try < 20 && !srvOK; try++ {
		func() {
			defer func() { _ = recover() }()
			port = freePort()
			srv = servicediscovery.NewServer(port, me, sd)
			srv.Listen()
			srvOK = true
		}()
	}
	if !srvOK {
		return "HARNESS: no RPC server"
	}
	cl, err := rpc.Dial("tcp", fmt.Sprintf("127.0.0.1:%d", port))
	if err != nil {
		return "HARNESS: cannot reach the follower's RPC server: " + err.Error()
	}
	defer cl.Close()
	var last *c09PushStep
	for i, st := range sc.Steps {
		st := st
		switch st.Op {
		case "assign_leader":
			sd.AssignLeader(servicediscovery.NewService(&fakeFollower{name: "leader", rpcBad: map[int]bool{}}, "leader", 1))
		case "lose_leader":
			sd.RemoveLeader() // what the heart-beat does after a failed ping of the leader and a failed re-registration
		case "push":
			var reply bool
			if err := cl.Call("Handler.Rebalance", servicediscovery.Rebalance{From: leader, MemberNumber: st.M, TotalMembers: st.T}, &reply); err != nil {
				return fmt.Sprintf("HARNESS: Rebalance RPC failed: %v", err)
			}
			last = &st
			var got []uint16
			want := c09Discovery(sc.N, st.T, st.M)
			// (the membership object learns the numbering from the bus a moment after the RPC has been answered)
			for dl := time.Now().Add(3 * time.Second); ; time.Sleep(time.Millisecond) {
				if ok, _ := within(3*time.Second, func() { got = disc.Get() }); !ok {
					return fmt.Sprintf("step %d: the leader pushed %d/%d to the follower, its discovery object still has no numbering", i, st.M, st.T)
				}
				if c09Range(got) == c09Range(want) || deadlinePassed(dl) {
					break
				}
			}
			if c09Range(got) != c09Range(want) {
				return fmt.Sprintf("step %d: the leader pushed %d/%d to the follower (steps so far %v); the follower computes its share as %s, member %d of %d owns %s", i, st.M, st.T, sc.Steps[:i+1], c09Range(got), st.M, st.T, c09Range(want))
			}
		}
	}
	_ = last
	return ""
}

func TestC09_FollowerTakesAssignments(t *testing.T) {
	rapid.Check(t, func(rt *rapid.T) {
		sc := c09Push{N: rapid.SampledFrom([]int{8, 64, 128, 1024}).Draw(rt, "n")}
		lost := false
		pushedWithout := false
		for i, k := 0, rapid.IntRange(2, 8).Draw(rt, "steps"); i < k; i++ {
			switch rapid.IntRange(0, 4).Draw(rt, "kind") {
			case 0:
				sc.Steps = append(sc.Steps, c09PushStep{Op: "assign_leader"})
				lost = false
			case 1:
				sc.Steps = append(sc.Steps, c09PushStep{Op: "lose_leader"})
				lost = true
			default:
				tt := rapid.IntRange(2, 8).Draw(rt, "t")
				sc.Steps = append(sc.Steps, c09PushStep{Op: "push", M: rapid.IntRange(2, tt).Draw(rt, "m"), T: tt})
				pushedWithout = pushedWithout || lost
			}
		}
		journal("C09", "c09push", sc)
		d := c09ExecPush(sc)
		journalDone()
		if strings.HasPrefix(d, "HARNESS") {
			rt.Skip(d)
		}
		if d != "" {
			violation(rt, "C09", "c09push", sc, "%s", d)
		}
		labs := []string{"follower_push_cases"}
		if pushedWithout {
			labs = append(labs, "assignment_pushed_while_the_follower_has_no_leader_handle")
		}
		record("C09", sc, pushedWithout, labs...)
	})
}

func init() {
	registerReplay("c09push", func(raw json.RawMessage) string {
		var sc c09Push
		if err := json.Unmarshal(raw, &sc); err != nil {
			return err.Error()
		}
		d := c09ExecPush(sc)
		if strings.HasPrefix(d, "HARNESS") {
			return ""
		}
		return d
	})
}

// ---------- static membership: the numbers as they reach the discovery object from the configuration ----------
// Every member of a static group is configured with its number and the group size - in the configuration struct / yaml,
// or through the environment (GO_DCP__DCP_GROUP_MEMBERSHIP_TOTALMEMBERS / _MEMBERNUMBER, which win over the file: the
// usual deployment sets the group size of all replicas in one place). Members that agree on the EFFECTIVE group size and
// hold distinct numbers partition 0..N-1, whatever source each number came from and whatever the overridden file value was.

type c09Cfg struct {
	N        int   `json:"n"`
	T        int   `json:"t"`
	TotalEnv bool  `json:"total_env"`  // the group size comes from the environment ...
	FileT    []int `json:"file_total"` // ... and the file says this instead (per member, cyclic; 0 = absent, else a stale size)
	NumEnv   []int `json:"num_env"`    // per member (cyclic): 1 = the member number comes from the environment (file: absent), 2 = from the environment over a stale file value
}

func c09ExecCfg(c c09Cfg) (d string) {
	defer func() {
		os.Unsetenv("GO_DCP__DCP_GROUP_MEMBERSHIP_TOTALMEMBERS")
		os.Unsetenv("GO_DCP__DCP_GROUP_MEMBERSHIP_MEMBERNUMBER")
		if r := recover(); r != nil {
			d = fmt.Sprintf("N=%d T=%d: panic %v", c.N, c.T, r)
		}
	}()
	chunks := make([][]uint16, c.T)
	for m := 1; m <= c.T; m++ {
		os.Unsetenv("GO_DCP__DCP_GROUP_MEMBERSHIP_TOTALMEMBERS")
		os.Unsetenv("GO_DCP__DCP_GROUP_MEMBERSHIP_MEMBERNUMBER")
		cfg := &config.Dcp{BucketName: "b"}
		cfg.Dcp.Group.Name = "g"
		cfg.Dcp.Group.Membership.Type = membership.StaticMembershipType
		cfg.Dcp.Group.Membership.TotalMembers = c.T
		cfg.Dcp.Group.Membership.MemberNumber = m
		if c.TotalEnv {
			os.Setenv("GO_DCP__DCP_GROUP_MEMBERSHIP_TOTALMEMBERS", strconv.Itoa(c.T))
			cfg.Dcp.Group.Membership.TotalMembers = 0
			if len(c.FileT) > 0 {
				cfg.Dcp.Group.Membership.TotalMembers = c.FileT[(m-1)%len(c.FileT)]
			}
		}
		if len(c.NumEnv) > 0 {
			switch c.NumEnv[(m-1)%len(c.NumEnv)] {
			case 1:
				os.Setenv("GO_DCP__DCP_GROUP_MEMBERSHIP_MEMBERNUMBER", strconv.Itoa(m))
				cfg.Dcp.Group.Membership.MemberNumber = 0
			case 2:
				os.Setenv("GO_DCP__DCP_GROUP_MEMBERSHIP_MEMBERNUMBER", strconv.Itoa(m))
				cfg.Dcp.Group.Membership.MemberNumber = 1 + (m % c.T)
			}
		}
		cfg.ApplyDefaults()
		chunks[m-1] = stream.NewVBucketDiscovery(nil, cfg, c.N, EventBus.New()).Get()
	}
	return c09CheckChunks(c.N, c.T, chunks)
}

func TestC09_StaticConfigSources(t *testing.T) {
	rapid.Check(t, func(rt *rapid.T) {
		c := c09Cfg{N: rapid.SampledFrom([]int{64, 128, 1024, 1024}).Draw(rt, "n")}
		c.T = rapid.OneOf(rapid.IntRange(1, 8), rapid.IntRange(1, c.N)).Draw(rt, "t")
		c.TotalEnv = rapid.Bool().Draw(rt, "totalenv")
		if c.TotalEnv {
			c.FileT = rapid.SliceOfN(rapid.OneOf(rapid.Just(0), rapid.IntRange(1, c.T+2)), 0, 4).Draw(rt, "filet")
		}
		c.NumEnv = rapid.SliceOfN(rapid.IntRange(0, 2), 0, 4).Draw(rt, "numenv")
		if d := c09ExecCfg(c); d != "" {
			violation(rt, "C09", "c09cfg", c, "%s", d)
		}
		labs := []string{"static_config_cases"}
		if c.TotalEnv {
			labs = append(labs, "group_size_from_environment")
		}
		record("C09", c, c.T >= 2 && c.TotalEnv, labs...)
	})
}

func init() {
	registerReplay("c09cfg", func(raw json.RawMessage) string {
		var c c09Cfg
		if err := json.Unmarshal(raw, &c); err != nil {
			return err.Error()
		}
		return c09ExecCfg(c)
	})
}
