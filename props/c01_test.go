package props

// C01 — durable checkpoint never ahead of what the consumer settled (DESIGN §5 C01).

import (
	"encoding/json"
	"strconv"
	"strings"
	"testing"
	"time"

	"pgregory.net/rapid"
)

const sigF1 = "absorb_overtakes_unacked"

func c01Weights() hWeights {
	return hWeights{deliver: 36, ack: 26, save: 8, savefail: 3, savebegin: 10, saveend: 8, crash: 6, savequeue: 4, end: 4, rebalance: 2,
		absorbed: 18, maxVb: scale(6, 16), minOps: 1, maxOps: scale(80, 300)}
}

func TestC01_History(t *testing.T) {
	known := isKnown("C01", sigF1)
	rapid.Check(t, func(rt *rapid.T) {
		sc := genHistory(rt, c01Weights())
		if rapid.IntRange(0, 2).Draw(rt, "resetlatest") == 0 {
			sc.Reset = "latest"
		}
		if rapid.IntRange(0, 3).Draw(rt, "skipuntil") == 0 {
			// dcp.listener.skipUntil: older document events are dropped - also a document with an old CAS arriving after
			// newer ones (restored / replicated documents keep their CAS). A dropped event is not a settled one.
			sc.SkipAt = rapid.IntRange(2, 12).Draw(rt, "skipat")
			for i := range sc.Ops {
				if sc.Ops[i].Op == "deliver" && i%3 == 0 {
					sc.Ops[i].Old = true
				}
			}
		}
		if rapid.IntRange(0, 3).Draw(rt, "poison") == 0 {
			// a listener that panics on a document before acknowledging it (one or two deliveries of the history)
			n := 0
			for i := range sc.Ops {
				if sc.Ops[i].Op == "deliver" && i%7 == 3 && n < 2 {
					sc.Ops[i].Panic = true
					n++
				}
			}
		}
		journal("C01", "c01hist", sc)
		v, labels, excl := runHistory(&sc, known != nil, "C01")
		journalDone()
		for i := 0; i < excl; i++ {
			countExcluded("C01")
		}
		if v != nil {
			violation(rt, v.Prop, "c01hist", sc, "%s", v.Detail)
		}
		record("C01", sc, labels["crash_outstanding_after_write"], append(labelList(labels), "histories")...)
	})
}

// the committed replay of the known finding: printed as KNOWN-FINDING while it still fails
func TestC01_KnownFindings(t *testing.T) {
	k := isKnown("C01", sigF1)
	if k == nil {
		t.Skip("no known finding listed")
	}
	d := runReplayFile(verifRoot() + "/" + k.Replay)
	if d != "" {
		noteKnown("C01", k)
	} else {
		addNote("C01", "listed known finding "+sigF1+" no longer reproduces")
	}
	record("C01", "known-finding-replay", false, "known_replay")
}

func init() {
	registerReplay("c01hist", histReplayer(func() bool { return false }, "C01"))
}

// ---- the file backend: the process dies inside the file write of a save ----
// The file backend rewrites one file per save (truncate, then write): dying inside leaves an empty file or a prefix of
// the content. A restart then either refuses to start (the current behaviour: no position for the vBucket, the stream
// request panics - nothing is skipped) or resumes every vBucket at or before its first unsettled event. As a refusal
// takes the process down, every history runs in a child process.
type c01TornResult struct {
	Prop   string   `json:"prop,omitempty"`
	Detail string   `json:"detail,omitempty"`
	Labels []string `json:"labels"`
}

func c01TornChild(raw json.RawMessage) any {
	var sc hScenario
	_ = json.Unmarshal(raw, &sc)
	v, labels, _ := runHistory(&sc, isKnown("C01", sigF1) != nil, "C01")
	r := c01TornResult{Labels: labelList(labels)}
	if v != nil {
		r.Prop, r.Detail = v.Prop, v.Detail
	}
	return r
}

// c01TornExec returns a violation detail ("" = none), an error of the harness ("" = none) and the labels.
func c01TornExec(sc hScenario) (string, string, []string) {
	cr := runChild("c01torn", sc, 60*time.Second)
	if cr.Result != nil {
		var r c01TornResult
		_ = json.Unmarshal(cr.Result, &r)
		if r.Prop != "" {
			return r.Detail, "", r.Labels
		}
		return "", "", r.Labels
	}
	if cr.TimeOut {
		return "", "child timed out", nil
	}
	if strings.Contains(cr.Stdout, "TORN_RESTART") && (strings.Contains(cr.Stderr, "not found on offset map") || strings.Contains(cr.Stderr, "checkpoint")) {
		return "", "", []string{"torn_restart_refused", "crash_torn_file"}
	}
	return "", "child died outside the restart on a torn file: exit " + strconv.Itoa(cr.Exit) + ": " + cr.Stderr, nil
}

func TestC01_TornFile(t *testing.T) {
	w := hWeights{deliver: 44, ack: 26, save: 14, crash: 3, absorbed: 15, maxVb: 4, minOps: 2, maxOps: scale(30, 80)}
	rapid.Check(t, func(rt *rapid.T) {
		sc := genHistory(rt, w)
		sc.File = true
		if rapid.IntRange(0, 2).Draw(rt, "resetlatest") != 0 {
			sc.Reset = "latest"
		}
		sc.Ops = append(sc.Ops, hOp{Op: "crash", Torn: rapid.IntRange(0, 3).Draw(rt, "torn"), N: rapid.IntRange(0, 4000).Draw(rt, "cut")})
		journal("C01", "c01torn", sc)
		d, herr, labels := c01TornExec(sc)
		journalDone()
		if herr != "" {
			rt.Fatalf("harness: %s", herr)
		}
		if d != "" {
			violation(rt, "C01", "c01torn", sc, "%s", d)
		}
		has := map[string]bool{}
		for _, l := range labels {
			has[l] = true
		}
		labs := []string{"torn_file_cases"}
		for _, l := range []string{"crash_torn_file", "torn_restart_refused", "torn_restart_started", "crash_with_outstanding_ack", "redelivery_checked"} {
			if has[l] {
				labs = append(labs, l)
			}
		}
		if has["crash_torn_file"] && sc.Reset == "latest" {
			labs = append(labs, "torn_file_reset_latest")
		}
		record("C01", sc, has["crash_torn_file"], labs...)
	})
}

func init() {
	registerChild("c01torn", c01TornChild)
	registerReplay("c01torn", func(raw json.RawMessage) string {
		var sc hScenario
		if err := json.Unmarshal(raw, &sc); err != nil {
			return "bad scenario: " + err.Error()
		}
		d, herr, _ := c01TornExec(sc)
		if herr != "" {
			return ""
		}
		return d
	})
}

// ---- restart answered with a ROLLBACK (Layer B: real client.OpenStream + observer on the simulated node) ----
// The durable checkpoint names F. At the restart the server refuses the request and has the client roll back to R < F;
// what it streams then is whatever survives on its side (a document written again later is sent once, at its later
// seqno - so F itself need not appear). C01's clause: everything above F - in particular the first event that was
// delivered and not acknowledged before the crash - reaches the consumer again; nothing above F is skipped.
func TestC01_RollbackRestart(t *testing.T) {
	rapid.Check(t, func(rt *rapid.T) {
		sc := c08Gen(rt)
		sc.Second = "ok"
		journal("C01", "c01rollback", sc)
		d, labels := c08Exec(sc)
		journalDone()
		if strings.Contains(d, "was not delivered after the rollback") || strings.Contains(d, "skipped / reordered") {
			violation(rt, "C01", "c01rollback", sc, "restart after a server-requested rollback: %s (the checkpoint said F=%d: an event above it that the consumer never acknowledged is lost)", d, sc.F)
		}
		absent := true
		above := false
		for _, e := range sc.Events {
			absent = absent && e.Seq != sc.F
			above = above || e.Seq > sc.F
		}
		labs := []string{"rollback_restart_cases"}
		if absent && above {
			labs = append(labs, "rollback_restart_checkpointed_event_not_resent")
		}
		_ = labels
		record("C01", sc, absent && above, labs...)
	})
}

func init() {
	registerReplay("c01rollback", func(raw json.RawMessage) string {
		var sc c08Scenario
		if err := json.Unmarshal(raw, &sc); err != nil {
			return err.Error()
		}
		d, _ := c08Exec(sc)
		if strings.Contains(d, "was not delivered after the rollback") || strings.Contains(d, "skipped / reordered") {
			return d
		}
		return ""
	})
}
