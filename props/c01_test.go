package props

// C01 — durable checkpoint never ahead of what the consumer settled (DESIGN §5 C01).

import (
	"encoding/json"
	"strings"
	"testing"

	"pgregory.net/rapid"
)

const sigF1 = "absorb_overtakes_unacked"

func c01Weights() hWeights {
	return hWeights{deliver: 36, ack: 26, save: 8, savefail: 3, savebegin: 10, saveend: 8, crash: 6, savequeue: 4, end: 4, rebalance: 2,
		absorbed: 18, maxVb: scale(6, 16), minOps: 1, maxOps: scale(80, 300)}
}

func TestC01_History(t *testing.T) {
	known := isKnown("C01", sigF1)
	rapid.Check(t, func(rt *rapid.T) {
		sc := genHistory(rt, c01Weights())
		if rapid.IntRange(0, 2).Draw(rt, "resetlatest") == 0 {
			sc.Reset = "latest"
		}
		journal("C01", "c01hist", sc)
		v, labels, excl := runHistory(&sc, known != nil, "C01")
		journalDone()
		for i := 0; i < excl; i++ {
			countExcluded("C01")
		}
		if v != nil {
			violation(rt, v.Prop, "c01hist", sc, "%s", v.Detail)
		}
		record("C01", sc, labels["crash_outstanding_after_write"], append(labelList(labels), "histories")...)
	})
}

// the committed replay of the known finding: printed as KNOWN-FINDING while it still fails
func TestC01_KnownFindings(t *testing.T) {
	k := isKnown("C01", sigF1)
	if k == nil {
		t.Skip("no known finding listed")
	}
	d := runReplayFile(verifRoot() + "/" + k.Replay)
	if d != "" {
		noteKnown("C01", k)
	} else {
		addNote("C01", "listed known finding "+sigF1+" no longer reproduces")
	}
	record("C01", "known-finding-replay", false, "known_replay")
}

func init() {
	registerReplay("c01hist", histReplayer(func() bool { return false }, "C01"))
}

// ---- restart answered with a ROLLBACK (Layer B: real client.OpenStream + observer on the simulated node) ----
// The durable checkpoint names F. At the restart the server refuses the request and has the client roll back to R < F;
// what it streams then is whatever survives on its side (a document written again later is sent once, at its later
// seqno - so F itself need not appear). C01's clause: everything above F - in particular the first event that was
// delivered and not acknowledged before the crash - reaches the consumer again; nothing above F is skipped.
func TestC01_RollbackRestart(t *testing.T) {
	rapid.Check(t, func(rt *rapid.T) {
		sc := c08Gen(rt)
		sc.Second = "ok"
		journal("C01", "c01rollback", sc)
		d, labels := c08Exec(sc)
		journalDone()
		if strings.Contains(d, "was not delivered after the rollback") || strings.Contains(d, "skipped / reordered") {
			violation(rt, "C01", "c01rollback", sc, "restart after a server-requested rollback: %s (the checkpoint said F=%d: an event above it that the consumer never acknowledged is lost)", d, sc.F)
		}
		absent := true
		above := false
		for _, e := range sc.Events {
			absent = absent && e.Seq != sc.F
			above = above || e.Seq > sc.F
		}
		labs := []string{"rollback_restart_cases"}
		if absent && above {
			labs = append(labs, "rollback_restart_checkpointed_event_not_resent")
		}
		_ = labels
		record("C01", sc, absent && above, labs...)
	})
}

func init() {
	registerReplay("c01rollback", func(raw json.RawMessage) string {
		var sc c08Scenario
		if err := json.Unmarshal(raw, &sc); err != nil {
			return err.Error()
		}
		d, _ := c08Exec(sc)
		if strings.Contains(d, "was not delivered after the rollback") || strings.Contains(d, "skipped / reordered") {
			return d
		}
		return ""
	})
}
