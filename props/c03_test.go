package props

// C03 — per-vBucket delivery is complete, ordered, duplicate-free and faithful (Layer A, bulk).
// 1-8 vBuckets are fed CONCURRENTLY (one feeder goroutine each, as gocbcore's per-connection read
// loops would) through the real observers and the real stream into a recording consumer; the
// oracle is an independent filter model.

import (
	"bytes"
	"encoding/json"
	"fmt"
	"sync"
	"testing"
	"time"

	"github.com/Trendyol/go-dcp/couchbase"
	"github.com/Trendyol/go-dcp/models"
	"github.com/Trendyol/go-dcp/stream"
	"github.com/Trendyol/go-dcp/tracing"
	"github.com/couchbase/gocbcore/v10"
	"pgregory.net/rapid"
)

type c03Event struct {
	Kind     string `json:"kind"` // mut del exp cc cd cf sc sd cm adv oso
	Key      []byte `json:"key,omitempty"`
	Value    []byte `json:"value,omitempty"`
	Cas      uint64 `json:"cas"`
	Rev      uint64 `json:"rev,omitempty"`
	Flags    uint32 `json:"flags,omitempty"`
	Expiry   uint32 `json:"expiry,omitempty"`
	Lock     uint32 `json:"lock,omitempty"`
	Datatype uint8  `json:"dt,omitempty"`
	Coll     uint32 `json:"coll,omitempty"`
	DelTime  uint32 `json:"deltime,omitempty"`
	Gap      int    `json:"gap,omitempty"`
	Snap     int    `json:"snap,omitempty"` // room left in a newly announced snapshot
}

type c03Scenario struct {
	Lo        int               `json:"lo"`
	Vbs       [][]c03Event      `json:"vbs"`
	SkipUntil *int64            `json:"skip_until_ns,omitempty"` // unix nanoseconds
	Colls     map[uint32]string `json:"colls,omitempty"`
	AckAll    bool              `json:"ack_all"`
	// Catch[i] (optional): vBucket i is streamed after a server-requested rollback; the position already reached is
	// the seqno of its event Idx plus Delta (the library is told through observer.SetCatchup, as client.go does).
	Catch []c03Catch `json:"catch,omitempty"`
	// EndAt[i] (optional, >0): after its EndAt-th event the stream of vBucket i ends with a transient cause; the library
	// requests it again and the server resumes after the requested position (events above it are sent again)
	EndAt []int `json:"end_at,omitempty"`
}

type c03Catch struct {
	On    bool `json:"on"`
	Idx   int  `json:"idx"`
	Delta int  `json:"delta"`
}

type c03Expect struct {
	seq        uint64
	ev         c03Event
	snap       [2]uint64
	delivered  bool
	uuid       uint64
	collection string
	timeSec    int64
}

var reservedPrefixes = [][]byte{[]byte("_connector:cbgo:"), []byte("_txn:")}

// independent filter model (written from the property statement)
func c03Filtered(e c03Event, skipUntil *int64) (reserved, early bool) {
	for _, p := range reservedPrefixes {
		if bytes.HasPrefix(e.Key, p) {
			reserved = true
		}
	}
	if skipUntil != nil {
		sec := int64(e.Cas / 1_000_000_000)
		// event time (CAS seconds) strictly before skipUntil
		su := *skipUntil
		if sec < su/1_000_000_000 || (sec == su/1_000_000_000 && su%1_000_000_000 > 0) {
			early = true
		}
	}
	return
}

func c03Exec(sc c03Scenario) (detail string, labels map[string]bool) {
	labels = map[string]bool{}
	n := len(sc.Vbs)
	cfg := laConfig()
	if sc.SkipUntil != nil {
		t := time.Unix(0, *sc.SkipUntil)
		cfg.Dcp.Listener.SkipUntil = &t
	}
	cl := newFakeClient(64)
	meta := newFakeMeta()
	cons := &fakeConsumer{}
	if sc.AckAll {
		cons.onEvent = func(d *delivered) { d.Ctx.Ack() }
	}
	disc := &fakeDiscovery{}
	disc.set(uint16(sc.Lo), uint16(sc.Lo+n-1))
	colls := sc.Colls
	if colls == nil {
		colls = map[uint32]string{}
	}
	st := stream.NewStream(cl, meta, cfg, &couchbase.Version{Major: 7}, &couchbase.BucketInfo{BucketType: "membase"},
		disc, cons, colls, make(chan struct{}, 1), &fakeHandler{}, tracing.NewTracerComponent())
	st.Open()
	defer within(20*time.Second, func() { st.Close(false) })

	expect := make([][]*c03Expect, n)
	ended := make([]string, n)
	var wg sync.WaitGroup
	panics := make([]any, n)
	for i := 0; i < n; i++ {
		vb := uint16(sc.Lo + i)
		o := cl.observer(vb)
		uuid := uint64(cl.failoverOf(vb)[0].VbUUID)
		// plan (sequential, deterministic): seqnos, snapshots, expectation
		var last uint64
		var snap [2]uint64
		snapValid := false
		type step struct {
			marker *[2]uint64
			x      *c03Expect
		}
		var plan []step
		// position already reached before the rollback (0 = no rollback on this vBucket)
		var reached uint64
		if i < len(sc.Catch) && sc.Catch[i].On {
			var l uint64
			var seqs []uint64
			for _, e := range sc.Vbs[i] {
				if e.Kind != "oso" {
					l += 1 + uint64(e.Gap)
					seqs = append(seqs, l)
				}
			}
			if len(seqs) > 0 {
				r := int64(seqs[sc.Catch[i].Idx%len(seqs)]) + int64(sc.Catch[i].Delta)
				if r >= 1 {
					reached = uint64(r)
					labels["catchup"] = true
				}
			}
		}
		for _, e := range sc.Vbs[i] {
			if e.Kind == "oso" {
				plan = append(plan, step{x: &c03Expect{ev: e}})
				continue
			}
			seq := last + 1 + uint64(e.Gap)
			st := step{}
			if e.Kind == "adv" {
				snap, snapValid = [2]uint64{seq, seq}, true
			} else if !snapValid || seq > snap[1] {
				snap, snapValid = [2]uint64{last + 1, seq + uint64(e.Snap)}, true
				m := snap
				st.marker = &m
				if last > 0 {
					labels["multi_snapshot"] = true
				}
				if reached != 0 && m[0] == reached {
					labels["catchup_at_snapshot_start"] = true
				}
			}
			last = seq
			x := &c03Expect{seq: seq, ev: e, snap: snap, uuid: uuid, timeSec: int64(e.Cas / 1_000_000_000)}
			x.collection = "_default"
			if name, ok := colls[e.Coll]; ok {
				x.collection = name
			}
			switch e.Kind {
			case "mut", "del", "exp":
				res, early := c03Filtered(e, sc.SkipUntil)
				x.delivered = !res && !early && seq > reached
				if !res && !early && seq <= reached {
					labels["filtered_catchup"] = true
				}
				if reached != 0 && seq == reached {
					labels["catchup_event_at_position"] = true
				}
				if res {
					labels["filtered_reserved_key"] = true
				}
				if early {
					labels["filtered_skip_until"] = true
				}
				if x.delivered {
					labels["delivered"] = true
				}
			}
			st.x = x
			plan = append(plan, st)
		}
		wg.Add(1)
		go func(i int) {
			defer wg.Done()
			defer func() { panics[i] = recover() }()
			if reached != 0 {
				o.SetCatchup(gocbcore.SeqNo(reached))
			}
			endAt := 0
			if reached == 0 && i < len(sc.EndAt) && sc.EndAt[i] > 0 && len(plan) > 0 {
				endAt = 1 + (sc.EndAt[i]-1)%len(plan)
			}
			feed := func(p step, remark bool) {
				if p.marker != nil || (remark && p.x.ev.Kind != "adv" && p.x.ev.Kind != "oso") {
					m := p.x.snap
					if p.marker != nil {
						m = *p.marker
					}
					o.SnapshotMarker(models.DcpSnapshotMarker{VbID: vb, StartSeqNo: m[0], EndSeqNo: m[1]})
				}
				if p.x.delivered {
					expect[i] = append(expect[i], p.x)
				}
				e, seq := p.x.ev, p.x.seq
				switch e.Kind {
				case "mut":
					o.Mutation(gocbcore.DcpMutation{SeqNo: seq, RevNo: e.Rev, Flags: e.Flags, Expiry: e.Expiry, LockTime: e.Lock, Cas: e.Cas,
						Datatype: e.Datatype, VbID: vb, CollectionID: e.Coll, Key: e.Key, Value: e.Value})
				case "del":
					o.Deletion(gocbcore.DcpDeletion{SeqNo: seq, RevNo: e.Rev, Cas: e.Cas, Datatype: e.Datatype, VbID: vb, CollectionID: e.Coll,
						Key: e.Key, Value: e.Value, DeleteTime: e.DelTime})
				case "exp":
					o.Expiration(gocbcore.DcpExpiration{SeqNo: seq, RevNo: e.Rev, Cas: e.Cas, VbID: vb, CollectionID: e.Coll, Key: e.Key, DeleteTime: e.DelTime})
				case "oso":
					o.OSOSnapshot(gocbcore.DcpOSOSnapshot{VbID: vb, SnapshotType: 1})
				default:
					feedEvent(o, vb, srvEvent{Seq: seq, Kind: e.Kind})
				}
			}
			for idx, p := range plan {
				feed(p, false)
				if idx+1 != endAt {
					continue
				}
				// the stream ends (transient): the library asks again, the server resumes after the requested position
				nOpen := cl.openCountOf(vb)
				o.End(models.DcpStreamEnd{VbID: vb}, gocbcore.ErrSocketClosed)
				for t0 := time.Now(); cl.openCountOf(vb) == nOpen && time.Since(t0) < 10*time.Second; {
					time.Sleep(200 * time.Microsecond)
				}
				if cl.openCountOf(vb) == nOpen {
					ended[i] = fmt.Sprintf("vb %d: stream ended with a transient cause after seq %d and was not requested again", vb, p.x.seq)
					return
				}
				var from uint64
				for _, r := range cl.openLog() {
					if r.Vb == vb {
						from = r.Off.SeqNo
					}
				}
				o = cl.observer(vb)
				first := true
				for _, q := range plan[:idx+1] {
					if q.x.ev.Kind == "oso" || q.x.seq <= from {
						continue
					}
					feed(q, first)
					first = false
				}
			}
		}(i)
	}
	wg.Wait()
	for _, d := range ended {
		if d != "" {
			return d, labels
		}
	}
	for i, p := range panics {
		if p != nil {
			return fmt.Sprintf("vb %d: feeding a valid server history panicked: %v", sc.Lo+i, p), labels
		}
	}
	got := map[uint16][]*delivered{}
	for _, d := range cons.snapshot() {
		if d.Kind != "mutation" && d.Kind != "deletion" && d.Kind != "expiration" {
			return fmt.Sprintf("consumer received a non-document event %s", d.Kind), labels
		}
		got[d.Vb] = append(got[d.Vb], d)
	}
	for i := 0; i < n; i++ {
		vb := uint16(sc.Lo + i)
		g, w := got[vb], expect[i]
		for j := 0; j < len(g) || j < len(w); j++ {
			if j >= len(w) {
				return fmt.Sprintf("vb %d: unexpected extra delivery #%d: %s seq %d (duplicate / invented / filtered event shown)", vb, j, g[j].Kind, g[j].Seq), labels
			}
			if j >= len(g) {
				return fmt.Sprintf("vb %d: event seq %d (%s key %q) was never delivered", vb, w[j].seq, w[j].ev.Kind, w[j].ev.Key), labels
			}
			if d := c03Compare(vb, g[j], w[j]); d != "" {
				return d, labels
			}
		}
	}
	return "", labels
}

func c03Compare(vb uint16, d *delivered, w *c03Expect) string {
	bad := func(f string, got, want any) string {
		return fmt.Sprintf("vb %d seq %d (%s): %s = %v, server sent %v", vb, w.seq, w.ev.Kind, f, got, want)
	}
	wantKind := map[string]string{"mut": "mutation", "del": "deletion", "exp": "expiration"}[w.ev.Kind]
	if d.Kind != wantKind {
		return fmt.Sprintf("vb %d: position %d: got a %s seq %d, server sent a %s seq %d (order / kind changed)", vb, w.seq, d.Kind, d.Seq, wantKind, w.seq)
	}
	if d.Seq != w.seq {
		return fmt.Sprintf("vb %d: got seq %d where the server's order has seq %d (reordered / dropped / duplicated)", vb, d.Seq, w.seq)
	}
	var key, val []byte
	var cas, rev uint64
	var vbid uint16
	var coll uint32
	var cname string
	var et time.Time
	var off *models.Offset
	switch e := d.Event.(type) {
	case models.DcpMutation:
		key, val, cas, rev, vbid, coll, cname, et, off = e.Key, e.Value, e.Cas, e.RevNo, e.VbID, e.CollectionID, e.CollectionName, e.EventTime, e.Offset
		if e.Flags != w.ev.Flags {
			return bad("flags", e.Flags, w.ev.Flags)
		}
		if e.Expiry != w.ev.Expiry {
			return bad("expiry", e.Expiry, w.ev.Expiry)
		}
		if e.Datatype != w.ev.Datatype {
			return bad("datatype", e.Datatype, w.ev.Datatype)
		}
		if e.LockTime != w.ev.Lock {
			return bad("lockTime", e.LockTime, w.ev.Lock)
		}
	case models.DcpDeletion:
		key, val, cas, rev, vbid, coll, cname, et, off = e.Key, e.Value, e.Cas, e.RevNo, e.VbID, e.CollectionID, e.CollectionName, e.EventTime, e.Offset
		if e.Datatype != w.ev.Datatype {
			return bad("datatype", e.Datatype, w.ev.Datatype)
		}
		if e.DeleteTime != w.ev.DelTime {
			return bad("deleteTime", e.DeleteTime, w.ev.DelTime)
		}
	case models.DcpExpiration:
		key, cas, rev, vbid, coll, cname, et, off = e.Key, e.Cas, e.RevNo, e.VbID, e.CollectionID, e.CollectionName, e.EventTime, e.Offset
		val = w.ev.Value
		if e.DeleteTime != w.ev.DelTime {
			return bad("deleteTime", e.DeleteTime, w.ev.DelTime)
		}
	}
	switch {
	case !bytes.Equal(key, w.ev.Key):
		return bad("key", key, w.ev.Key)
	case !bytes.Equal(val, w.ev.Value):
		return bad("value", val, w.ev.Value)
	case cas != w.ev.Cas:
		return bad("cas", cas, w.ev.Cas)
	case rev != w.ev.Rev:
		return bad("revNo", rev, w.ev.Rev)
	case vbid != vb:
		return bad("vbID", vbid, vb)
	case coll != w.ev.Coll:
		return bad("collectionID", coll, w.ev.Coll)
	case cname != w.collection:
		return bad("collection name", cname, w.collection)
	case !et.Equal(time.Unix(w.timeSec, 0)):
		return bad("event time", et.UnixNano(), time.Unix(w.timeSec, 0).UnixNano())
	}
	wantOff := ckTuple{UUID: w.uuid, Seq: w.seq, Start: w.snap[0], End: w.snap[1]}
	if off == nil || offTuple(off) != wantOff {
		return bad("offset", fmt.Sprintf("%+v", off), fmt.Sprintf("%+v", wantOff))
	}
	if off.LatestSeqNo != ^uint64(0) {
		return bad("offset.LatestSeqNo (stream end, infinite mode)", off.LatestSeqNo, ^uint64(0))
	}
	return ""
}

// ---------- generator ----------

var c03KeyGen = rapid.OneOf(
	rapid.Map(rapid.StringMatching(`[a-z0-9:_]{0,12}`), func(s string) []byte { return []byte(s) }),
	rapid.SliceOfN(rapid.Byte(), 0, 10),
	rapid.SampledFrom([][]byte{
		[]byte("_connector:cbgo:g:checkpoint:7"), []byte("_connector:cbgo:"), []byte("_connector:cbgo"), []byte("_connector:cbg"),
		[]byte("_connector:"), []byte("x_connector:cbgo:a"), []byte("_txn:atr-1"), []byte("_txn:"), []byte("_txn"), []byte("x_txn:1"),
		[]byte("_TXN:1"), []byte(""), []byte("_connector:cbgo:instance:1"), {0, 1, 2}, []byte("_txn:\x00"),
	}),
)

func c03GenEvent(t *rapid.T, skipUntil *int64, collIDs []uint32) c03Event {
	e := c03Event{}
	e.Kind = rapid.SampledFrom([]string{"mut", "mut", "mut", "mut", "del", "del", "exp", "exp", "cc", "cd", "cf", "sc", "sd", "cm", "adv", "oso"}).Draw(t, "kind")
	e.Gap = rapid.SampledFrom([]int{0, 0, 0, 1, 3}).Draw(t, "gap")
	e.Snap = rapid.SampledFrom([]int{0, 0, 1, 2, 5}).Draw(t, "snap")
	switch e.Kind {
	case "mut", "del", "exp":
	default:
		return e
	}
	e.Key = c03KeyGen.Draw(t, "key")
	if e.Kind != "exp" {
		e.Value = rapid.SliceOfN(rapid.Byte(), 0, 16).Draw(t, "value")
	}
	casChoices := []*rapid.Generator[uint64]{rapid.Uint64(), rapid.SampledFrom([]uint64{0, 1, 999_999_999, 1_000_000_000, ^uint64(0), 1 << 63})}
	if skipUntil != nil {
		su := uint64(*skipUntil)
		around := []uint64{su, su - 1, su + 1, su - 1_000_000_000, su + 1_000_000_000, su / 1_000_000_000 * 1_000_000_000,
			su/1_000_000_000*1_000_000_000 - 1, su/1_000_000_000*1_000_000_000 + 999_999_999, (su/1_000_000_000 + 1) * 1_000_000_000}
		casChoices = append(casChoices, rapid.SampledFrom(around), rapid.SampledFrom(around))
	}
	e.Cas = rapid.OneOf(casChoices...).Draw(t, "cas")
	e.Rev = rapid.Uint64().Draw(t, "rev")
	e.Coll = rapid.OneOf(rapid.SampledFrom(append([]uint32{0, 0xffffffff}, collIDs...)), rapid.Uint32()).Draw(t, "coll")
	e.DelTime = rapid.Uint32().Draw(t, "deltime")
	if e.Kind == "mut" {
		e.Flags, e.Expiry, e.Lock = rapid.Uint32().Draw(t, "flags"), rapid.Uint32().Draw(t, "expiry"), rapid.Uint32().Draw(t, "lock")
	}
	if e.Kind != "exp" {
		e.Datatype = rapid.Uint8().Draw(t, "dt")
	}
	return e
}

func c03Gen(t *rapid.T) c03Scenario {
	sc := c03Scenario{AckAll: rapid.Bool().Draw(t, "ackall")}
	n := rapid.IntRange(1, 8).Draw(t, "nvb")
	sc.Lo = rapid.IntRange(0, 64-n).Draw(t, "lo")
	switch rapid.IntRange(0, 3).Draw(t, "skipclass") {
	case 1:
		v := rapid.Int64Range(1_600_000_000, 1_800_000_000).Draw(t, "susec") * 1_000_000_000
		sc.SkipUntil = &v
	case 2:
		v := rapid.Int64Range(1_600_000_000, 1_800_000_000).Draw(t, "susec")*1_000_000_000 + rapid.Int64Range(1, 999_999_999).Draw(t, "sunano")
		sc.SkipUntil = &v
	case 3:
		v := rapid.SampledFrom([]int64{1, 1_000_000_000, 4_000_000_000_000_000_000}).Draw(t, "suext")
		sc.SkipUntil = &v
	}
	var ids []uint32
	if rapid.Bool().Draw(t, "hascolls") {
		sc.Colls = map[uint32]string{}
		for i, k := 0, rapid.IntRange(1, 3).Draw(t, "ncolls"); i < k; i++ {
			id := rapid.OneOf(rapid.Uint32Range(8, 20), rapid.Uint32()).Draw(t, "collid")
			sc.Colls[id] = rapid.SampledFrom([]string{"orders", "users", "_default", "c-1"}).Draw(t, "collname")
			ids = append(ids, id)
		}
	}
	evGen := rapid.Custom(func(t *rapid.T) c03Event { return c03GenEvent(t, sc.SkipUntil, ids) })
	for i := 0; i < n; i++ {
		var evs []c03Event
		for c, k := 0, rapid.IntRange(0, 5).Draw(t, "chunks"); c < k; c++ {
			evs = append(evs, rapid.SliceOfN(evGen, 1, 12).Draw(t, "events")...)
		}
		sc.Vbs = append(sc.Vbs, evs)
		c := c03Catch{}
		if len(evs) > 0 && rapid.IntRange(0, 2).Draw(t, "rolledback") == 0 {
			c = c03Catch{On: true, Idx: rapid.IntRange(0, len(evs)-1).Draw(t, "catchidx"), Delta: rapid.SampledFrom([]int{0, 0, 0, -1, 1}).Draw(t, "catchdelta")}
		}
		sc.Catch = append(sc.Catch, c)
		e := 0
		if !c.On && len(evs) > 0 && rapid.IntRange(0, 3).Draw(t, "ends") == 0 {
			e = rapid.IntRange(1, len(evs)).Draw(t, "endat")
		}
		sc.EndAt = append(sc.EndAt, e)
	}
	return sc
}

func TestC03_Delivery(t *testing.T) {
	rapid.Check(t, func(rt *rapid.T) {
		sc := c03Gen(rt)
		journal("C03", "c03", sc)
		d, labels := c03Exec(sc)
		journalDone()
		if d != "" {
			violation(rt, "C03", "c03", sc, "%s", d)
		}
		for i, e := range sc.EndAt {
			if e > 0 && i < len(sc.Vbs) && len(sc.Vbs[i]) > 0 {
				labels["stream_ended_and_requested_again"] = true
			}
		}
		nt := len(sc.Vbs) >= 2 && labels["delivered"] && (labels["filtered_reserved_key"] || labels["filtered_skip_until"]) && labels["multi_snapshot"]
		record("C03", sc, nt, append(labelList(labels), "cases")...)
	})
}

// histories with membership changes: what the server sends on the re-requested streams - also while the rebalance is still
// completing - is delivered completely and in order (the engine compares every sent event with what the consumer got)
func TestC03_RebalanceHistory(t *testing.T) {
	w := hWeights{deliver: 44, ack: 24, save: 5, rebalance: 10, end: 3, transientOnly: true, absorbed: 10, maxVb: scale(4, 8), minOps: 1, maxOps: scale(50, 150)}
	known := isKnown("C01", sigF1)
	rapid.Check(t, func(rt *rapid.T) {
		sc := genHistory(rt, w)
		journal("C03", "c03rebhist", sc)
		v, labels, _ := runHistory(&sc, known != nil, "C03")
		journalDone()
		if v != nil {
			violation(rt, v.Prop, "c03rebhist", sc, "%s", v.Detail)
		}
		record("C03", sc, labels["delivered_while_rebalance_completes"], append(labelList(labels), "rebalance_histories")...)
	})
}

func init() {
	registerReplay("c03rebhist", histReplayer(func() bool { return false }, "C03"))
	registerReplay("c03", func(raw json.RawMessage) string {
		var sc c03Scenario
		if err := json.Unmarshal(raw, &sc); err != nil {
			return err.Error()
		}
		d, _ := c03Exec(sc)
		return d
	})
}
