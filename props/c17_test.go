package props

// C17 — configuration defaulting is safe, idempotent and unit-exact.

import (
	"encoding/json"
	"fmt"
	"math/big"
	"os"
	"path/filepath"
	"reflect"
	"runtime"
	"sort"
	"strconv"
	"strings"
	"testing"
	"time"

	dcp "github.com/Trendyol/go-dcp"
	"github.com/Trendyol/go-dcp/config"
	"github.com/Trendyol/go-dcp/helpers"
	"pgregory.net/rapid"
)

// ---------------- (a) ApplyDefaults ----------------

// option table, hand-written from README "Configuration" (+ config/dcp_test.go for membership.type):
// name, setter of an explicit value (k selects one of several non-zero values), getter, documented default.
type c17Opt struct {
	name string
	set  func(c *config.Dcp, k int)
	get  func(c *config.Dcp) any
	def  any
}

var c17Durs = []time.Duration{1, time.Millisecond, 7 * time.Second, time.Minute, 30 * time.Second, 10 * time.Second, time.Second, 90 * time.Hour, -time.Second}
var c17Ints = []int{1, 2, 7, 2048, 8080, 8081, 65535, 1 << 40, -3}
var c17Strs = []string{"x", "manual", "auto", "latest", "earliest", "file", "couchbase", "static", "kubernetes", "_default", "/metrics", " ", "äö"}

func c17OptTable() []c17Opt {
	d := func(k int) time.Duration { return c17Durs[k%len(c17Durs)] }
	i := func(k int) int { return c17Ints[k%len(c17Ints)] }
	s := func(k int) string { return c17Strs[k%len(c17Strs)] }
	return []c17Opt{
		{"rollbackMitigation.interval", func(c *config.Dcp, k int) { c.RollbackMitigation.Interval = d(k) }, func(c *config.Dcp) any { return c.RollbackMitigation.Interval }, time.Second},
		{"rollbackMitigation.configWatchInterval", func(c *config.Dcp, k int) { c.RollbackMitigation.ConfigWatchInterval = d(k) }, func(c *config.Dcp) any { return c.RollbackMitigation.ConfigWatchInterval }, 10 * time.Second},
		{"checkpoint.interval", func(c *config.Dcp, k int) { c.Checkpoint.Interval = d(k) }, func(c *config.Dcp) any { return c.Checkpoint.Interval }, time.Minute},
		{"checkpoint.timeout", func(c *config.Dcp, k int) { c.Checkpoint.Timeout = d(k) }, func(c *config.Dcp) any { return c.Checkpoint.Timeout }, time.Minute},
		{"checkpoint.type", func(c *config.Dcp, k int) { c.Checkpoint.Type = s(k) }, func(c *config.Dcp) any { return c.Checkpoint.Type }, "auto"},
		{"checkpoint.autoReset", func(c *config.Dcp, k int) { c.Checkpoint.AutoReset = s(k) }, func(c *config.Dcp) any { return c.Checkpoint.AutoReset }, "earliest"},
		{"healthCheck.interval", func(c *config.Dcp, k int) { c.HealthCheck.Interval = d(k) }, func(c *config.Dcp) any { return c.HealthCheck.Interval }, time.Minute},
		{"healthCheck.timeout", func(c *config.Dcp, k int) { c.HealthCheck.Timeout = d(k) }, func(c *config.Dcp) any { return c.HealthCheck.Timeout }, time.Minute},
		{"dcp.group.membership.rebalanceDelay", func(c *config.Dcp, k int) { c.Dcp.Group.Membership.RebalanceDelay = d(k) }, func(c *config.Dcp) any { return c.Dcp.Group.Membership.RebalanceDelay }, 30 * time.Second},
		{"dcp.group.membership.totalMembers", func(c *config.Dcp, k int) { c.Dcp.Group.Membership.TotalMembers = i(k) }, func(c *config.Dcp) any { return c.Dcp.Group.Membership.TotalMembers }, 1},
		{"dcp.group.membership.memberNumber", func(c *config.Dcp, k int) { c.Dcp.Group.Membership.MemberNumber = i(k) }, func(c *config.Dcp) any { return c.Dcp.Group.Membership.MemberNumber }, 1},
		{"dcp.group.membership.type", func(c *config.Dcp, k int) { c.Dcp.Group.Membership.Type = s(k) }, func(c *config.Dcp) any { return c.Dcp.Group.Membership.Type }, "couchbase"},
		{"dcp.connectionTimeout", func(c *config.Dcp, k int) { c.Dcp.ConnectionTimeout = d(k) }, func(c *config.Dcp) any { return c.Dcp.ConnectionTimeout }, time.Minute},
		{"connectionTimeout", func(c *config.Dcp, k int) { c.ConnectionTimeout = d(k) }, func(c *config.Dcp) any { return c.ConnectionTimeout }, time.Minute},
		{"collectionNames", func(c *config.Dcp, k int) {
			c.CollectionNames = [][]string{{"a"}, {"a", "b"}, {"_default", "x"}, {}}[k%4]
		}, func(c *config.Dcp) any { return c.CollectionNames }, []string{"_default"}},
		{"scopeName", func(c *config.Dcp, k int) { c.ScopeName = s(k) }, func(c *config.Dcp) any { return c.ScopeName }, "_default"},
		{"connectionBufferSize", func(c *config.Dcp, k int) {
			c.ConnectionBufferSize = []any{"10mb", 4096, uint(7), "1,5 GB"}[k%4]
		}, func(c *config.Dcp) any { return c.ConnectionBufferSize }, 20 * 1024 * 1024},
		{"maxQueueSize", func(c *config.Dcp, k int) { c.MaxQueueSize = i(k) }, func(c *config.Dcp) any { return c.MaxQueueSize }, 2048},
		{"metric.path", func(c *config.Dcp, k int) { c.Metric.Path = s(k) }, func(c *config.Dcp) any { return c.Metric.Path }, "/metrics"},
		{"api.port", func(c *config.Dcp, k int) { c.API.Port = i(k) }, func(c *config.Dcp) any { return c.API.Port }, 8080},
		{"leaderElection.type", func(c *config.Dcp, k int) { c.LeaderElection.Type = s(k) }, func(c *config.Dcp) any { return c.LeaderElection.Type }, "kubernetes"},
		{"leaderElection.rpc.port", func(c *config.Dcp, k int) { c.LeaderElection.RPC.Port = i(k) }, func(c *config.Dcp) any { return c.LeaderElection.RPC.Port }, 8081},
		{"dcp.bufferSize", func(c *config.Dcp, k int) {
			c.Dcp.BufferSize = []any{"1kb", 99, uint(1), "2 mb"}[k%4]
		}, func(c *config.Dcp) any { return c.Dcp.BufferSize }, 16 * 1024 * 1024},
		{"dcp.connectionBufferSize", func(c *config.Dcp, k int) {
			c.Dcp.ConnectionBufferSize = []any{"3gb", 12345, uint(2), "0.5MB"}[k%4]
		}, func(c *config.Dcp) any { return c.Dcp.ConnectionBufferSize }, 20 * 1024 * 1024},
		{"dcp.maxQueueSize", func(c *config.Dcp, k int) { c.Dcp.MaxQueueSize = i(k) }, func(c *config.Dcp) any { return c.Dcp.MaxQueueSize }, 2048},
		{"metadata.type", func(c *config.Dcp, k int) { c.Metadata.Type = s(k) }, func(c *config.Dcp) any { return c.Metadata.Type }, "couchbase"},
		// options without a default: must stay exactly as given (set or unset)
		{"hosts", func(c *config.Dcp, k int) { c.Hosts = []string{"h1:8091", "h2"}[:1+k%2] }, func(c *config.Dcp) any { return c.Hosts }, []string(nil)},
		{"username", func(c *config.Dcp, k int) { c.Username = s(k) }, func(c *config.Dcp) any { return c.Username }, ""},
		{"password", func(c *config.Dcp, k int) { c.Password = s(k) }, func(c *config.Dcp) any { return c.Password }, ""},
		{"bucketName", func(c *config.Dcp, k int) { c.BucketName = s(k) }, func(c *config.Dcp) any { return c.BucketName }, ""},
		{"rootCAPath", func(c *config.Dcp, k int) { c.RootCAPath = s(k) }, func(c *config.Dcp) any { return c.RootCAPath }, ""},
		{"secureConnection", func(c *config.Dcp, k int) { c.SecureConnection = true }, func(c *config.Dcp) any { return c.SecureConnection }, false},
		{"debug", func(c *config.Dcp, k int) { c.Debug = true }, func(c *config.Dcp) any { return c.Debug }, false},
		{"dcp.group.name", func(c *config.Dcp, k int) { c.Dcp.Group.Name = s(k) }, func(c *config.Dcp) any { return c.Dcp.Group.Name }, ""},
		{"dcp.mode", func(c *config.Dcp, k int) { c.Dcp.Mode = []config.DcpMode{"finite", "infinite", "x"}[k%3] }, func(c *config.Dcp) any { return c.Dcp.Mode }, config.DcpMode("")},
		{"dcp.listener.skipUntil", func(c *config.Dcp, k int) { t := time.Unix(int64(1700000000+k), 0); c.Dcp.Listener.SkipUntil = &t }, func(c *config.Dcp) any {
			if c.Dcp.Listener.SkipUntil == nil {
				return nil
			}
			return c.Dcp.Listener.SkipUntil.Unix()
		}, nil},
		{"dcp.config.disableChangeStreams", func(c *config.Dcp, k int) { c.Dcp.Config.DisableChangeStreams = true }, func(c *config.Dcp) any { return c.Dcp.Config.DisableChangeStreams }, false},
		{"leaderElection.enabled", func(c *config.Dcp, k int) { c.LeaderElection.Enabled = true }, func(c *config.Dcp) any { return c.LeaderElection.Enabled }, false},
		{"healthCheck.disabled", func(c *config.Dcp, k int) { c.HealthCheck.Disabled = true }, func(c *config.Dcp) any { return c.HealthCheck.Disabled }, false},
		{"rollbackMitigation.disabled", func(c *config.Dcp, k int) { c.RollbackMitigation.Disabled = true }, func(c *config.Dcp) any { return c.RollbackMitigation.Disabled }, false},
		{"metadata.readOnly", func(c *config.Dcp, k int) { c.Metadata.ReadOnly = true }, func(c *config.Dcp) any { return c.Metadata.ReadOnly }, false},
		{"api.disabled", func(c *config.Dcp, k int) { c.API.Disabled = true }, func(c *config.Dcp) any { return c.API.Disabled }, false},
		{"metadata.config", func(c *config.Dcp, k int) { c.Metadata.Config = map[string]string{"bucket": s(k)} }, func(c *config.Dcp) any { return c.Metadata.Config }, map[string]string(nil)},
		{"dcp.group.membership.config", func(c *config.Dcp, k int) { c.Dcp.Group.Membership.Config = map[string]string{"timeout": "1s"} }, func(c *config.Dcp) any { return c.Dcp.Group.Membership.Config }, map[string]string(nil)},
		{"leaderElection.config", func(c *config.Dcp, k int) { c.LeaderElection.Config = map[string]string{"leaseLockName": s(k)} }, func(c *config.Dcp) any { return c.LeaderElection.Config }, map[string]string(nil)},
	}
}

type c17Cfg struct {
	Set      map[string]int `json:"set"`       // option name -> value selector (explicitly set, non-zero)
	EnvTotal *string        `json:"env_total"` // GO_DCP__DCP_GROUP_MEMBERSHIP_TOTALMEMBERS (nil = unset)
	EnvNum   *string        `json:"env_num"`
}

func c17IsZero(v any) bool {
	if v == nil {
		return true
	}
	rv := reflect.ValueOf(v)
	switch rv.Kind() {
	case reflect.Slice, reflect.Map:
		return rv.IsNil()
	}
	return rv.IsZero()
}

func c17SetEnv(name string, v *string) {
	if v == nil {
		_ = os.Unsetenv(name)
	} else {
		_ = os.Setenv(name, *v)
	}
}

func c17IsInt(s string) (int, bool) {
	var n int
	if _, err := fmt.Sscanf(s, "%d", &n); err != nil || fmt.Sprintf("%d", n) != strings.TrimPrefix(s, "+") {
		return 0, false
	}
	return n, true
}

func c17ExecDefaults(sc c17Cfg) (detail string) {
	const envT, envN = "GO_DCP__DCP_GROUP_MEMBERSHIP_TOTALMEMBERS", "GO_DCP__DCP_GROUP_MEMBERSHIP_MEMBERNUMBER"
	c17SetEnv(envT, sc.EnvTotal)
	c17SetEnv(envN, sc.EnvNum)
	defer os.Unsetenv(envT)
	defer os.Unsetenv(envN)

	table := c17OptTable()
	cfg := &config.Dcp{}
	explicit := map[string]any{}
	for _, o := range table {
		if k, ok := sc.Set[o.name]; ok {
			o.set(cfg, k)
			if !c17IsZero(o.get(cfg)) { // explicit zero means "unset" (outside the property's domain)
				explicit[o.name] = o.get(cfg)
			}
		}
	}
	envBad := false
	for _, e := range []*string{sc.EnvTotal, sc.EnvNum} {
		if e != nil && *e != "" {
			if _, ok := c17IsInt(*e); !ok {
				envBad = true
			}
		}
	}
	panicked := func() (p any) {
		defer func() { p = recover() }()
		cfg.ApplyDefaults()
		return nil
	}()
	if envBad {
		if panicked == nil {
			return "non-integer environment override accepted silently"
		}
		return ""
	}
	if panicked != nil {
		return fmt.Sprintf("ApplyDefaults panicked: %v", panicked)
	}
	for _, o := range table {
		got := o.get(cfg)
		want, isSet := explicit[o.name]
		if !isSet {
			want = o.def
		}
		// environment overrides take precedence over file values
		if o.name == "dcp.group.membership.totalMembers" && sc.EnvTotal != nil && *sc.EnvTotal != "" {
			want, _ = c17IsInt(*sc.EnvTotal)
		}
		if o.name == "dcp.group.membership.memberNumber" && sc.EnvNum != nil && *sc.EnvNum != "" {
			want, _ = c17IsInt(*sc.EnvNum)
		}
		if c17IsZero(got) && c17IsZero(want) {
			continue
		}
		if !reflect.DeepEqual(got, want) {
			if isSet {
				return fmt.Sprintf("option %s explicitly set to %#v became %#v", o.name, want, got)
			}
			return fmt.Sprintf("unset option %s = %#v, documented default %#v", o.name, got, want)
		}
	}
	if cfg.IsDcpModeFinite() != (cfg.Dcp.Mode == "finite") {
		return "dcp.mode unset/other must mean infinite"
	}
	// idempotence
	before, _ := json.Marshal(cfg)
	cfg.ApplyDefaults()
	after, _ := json.Marshal(cfg)
	if string(before) != string(after) {
		return fmt.Sprintf("ApplyDefaults not idempotent:\n first: %s\nsecond: %s", before, after)
	}
	return ""
}

func TestC17_Defaults(t *testing.T) {
	table := c17OptTable()
	names := make([]string, len(table))
	for i, o := range table {
		names[i] = o.name
	}
	envGen := rapid.OneOf(
		rapid.Just((*string)(nil)), rapid.Just((*string)(nil)),
		rapid.Map(rapid.IntRange(-5, 4096), func(n int) *string { s := fmt.Sprint(n); return &s }),
		rapid.Map(rapid.SampledFrom([]string{"", "x", "1.5", "2 ", "0x10", "١"}), func(s string) *string { return &s }),
	)
	rapid.Check(t, func(rt *rapid.T) {
		sc := c17Cfg{Set: map[string]int{}}
		// subset density itself is drawn, so that nearly-empty and nearly-full configurations both occur
		dens := rapid.IntRange(0, 100).Draw(rt, "density")
		for _, n := range names {
			if rapid.IntRange(0, 99).Draw(rt, "in:"+n) < dens {
				sc.Set[n] = rapid.IntRange(0, 12).Draw(rt, "k:"+n)
			}
		}
		sc.EnvTotal = envGen.Draw(rt, "envTotal")
		sc.EnvNum = envGen.Draw(rt, "envNum")
		if d := c17ExecDefaults(sc); d != "" {
			violation(rt, "C17", "c17defaults", sc, "%s", d)
		}
		nt := len(sc.Set) >= 3 && len(sc.Set) < len(names)
		lab := "defaults"
		if sc.EnvTotal != nil || sc.EnvNum != nil {
			lab = "defaults_env"
		}
		record("C17", sc, nt, lab)
	})
}

// ---------------- (b) derived settings ----------------

type c17Derived struct {
	Main   map[string]string `json:"main"` // hosts(comma), username, password, bucket, rootCAPath, secure("true"/"")
	Meta   map[string]string `json:"meta"`
	Member map[string]string `json:"member"`
	Leader map[string]string `json:"leader"`
}

func c17ExecDerived(sc c17Derived) (detail string) {
	defer func() {
		if r := recover(); r != nil {
			detail = fmt.Sprintf("panic: %v", r)
		}
	}()
	cfg := &config.Dcp{}
	if h := sc.Main["hosts"]; h != "" {
		cfg.Hosts = strings.Split(h, ",")
	}
	cfg.Username, cfg.Password, cfg.BucketName, cfg.RootCAPath = sc.Main["username"], sc.Main["password"], sc.Main["bucket"], sc.Main["rootCAPath"]
	cfg.SecureConnection = sc.Main["secure"] == "true"
	cfg.Metadata.Config = sc.Meta
	cfg.Dcp.Group.Membership.Config = sc.Member
	cfg.LeaderElection.Config = sc.Leader
	cfg.ApplyDefaults()

	m := cfg.GetCouchbaseMetadata()
	pick := func(key string, inherited any) any {
		if v, ok := sc.Meta[key]; ok {
			return v
		}
		return inherited
	}
	wantHosts := cfg.Hosts
	if v, ok := sc.Meta["hosts"]; ok {
		wantHosts = strings.Split(v, ",")
	}
	chk := func(name string, got, want any) string {
		if !reflect.DeepEqual(got, want) && !(c17IsZero(got) && c17IsZero(want)) {
			return fmt.Sprintf("derived %s = %#v, want %#v", name, got, want)
		}
		return ""
	}
	wantSecure := cfg.SecureConnection
	if v, ok := sc.Meta["secureConnection"]; ok {
		// the boolean spellings of a YAML / Go boolean (an unquoted YAML True arrives as the string "True")
		wantSecure = map[string]bool{"1": true, "t": true, "T": true, "TRUE": true, "true": true, "True": true}[v]
	}
	wantTimeout := time.Minute
	if v, ok := sc.Meta["connectionTimeout"]; ok {
		wantTimeout, _ = time.ParseDuration(v)
	}
	wantMQ := 2048
	if v, ok := sc.Meta["maxQueueSize"]; ok {
		wantMQ, _ = c17IsInt(v)
	}
	wantCBS := uint(5242880)
	if v, ok := sc.Meta["connectionBufferSize"]; ok {
		wantCBS = uint(c17SizeOracle(v))
	}
	for _, d := range []string{
		chk("metadata.hosts", m.Hosts, wantHosts),
		chk("metadata.username", m.Username, pick("username", cfg.Username)),
		chk("metadata.password", m.Password, pick("password", cfg.Password)),
		chk("metadata.bucket", m.Bucket, pick("bucket", cfg.BucketName)),
		chk("metadata.scope", m.Scope, pick("scope", "_default")),
		chk("metadata.collection", m.Collection, pick("collection", "_default")),
		chk("metadata.rootCAPath", m.RootCAPath, pick("rootCAPath", cfg.RootCAPath)),
		chk("metadata.secureConnection", m.SecureConnection, wantSecure),
		chk("metadata.connectionTimeout", m.ConnectionTimeout, wantTimeout),
		chk("metadata.maxQueueSize", m.MaxQueueSize, wantMQ),
		chk("metadata.connectionBufferSize", m.ConnectionBufferSize, wantCBS),
	} {
		if d != "" {
			return d
		}
	}

	ms := cfg.GetCouchbaseMembership()
	dur := func(mp map[string]string, key string, def time.Duration) time.Duration {
		if v, ok := mp[key]; ok {
			d, _ := time.ParseDuration(v)
			return d
		}
		return def
	}
	wantExp := uint32(120)
	if v, ok := sc.Member["expirySeconds"]; ok {
		n, _ := c17IsInt(v)
		wantExp = uint32(n)
	}
	for _, d := range []string{
		chk("membership.expirySeconds", ms.ExpirySeconds, wantExp),
		chk("membership.heartbeatInterval", ms.HeartbeatInterval, dur(sc.Member, "heartbeatInterval", 10*time.Second)),
		chk("membership.heartbeatToleranceDuration", ms.HeartbeatToleranceDuration, dur(sc.Member, "heartbeatToleranceDuration", time.Minute)),
		chk("membership.monitorInterval", ms.MonitorInterval, dur(sc.Member, "monitorInterval", 30*time.Second)),
		chk("membership.timeout", ms.Timeout, dur(sc.Member, "timeout", 30*time.Second)),
	} {
		if d != "" {
			return d
		}
	}

	_, hasName := sc.Leader["leaseLockName"]
	_, hasNs := sc.Leader["leaseLockNamespace"]
	var le *config.KubernetesLeaderElector
	p := func() (p any) {
		defer func() { p = recover() }()
		le = cfg.GetKubernetesLeaderElector()
		return nil
	}()
	if !hasName || !hasNs {
		if p == nil {
			return "leader election without leaseLockName/leaseLockNamespace accepted"
		}
		return ""
	}
	if p != nil {
		return fmt.Sprintf("GetKubernetesLeaderElector panicked: %v", p)
	}
	for _, d := range []string{
		chk("leader.leaseLockName", le.LeaseLockName, sc.Leader["leaseLockName"]),
		chk("leader.leaseLockNamespace", le.LeaseLockNamespace, sc.Leader["leaseLockNamespace"]),
		chk("leader.leaseDuration", le.LeaseDuration, dur(sc.Leader, "leaseDuration", 8*time.Second)),
		chk("leader.renewDeadline", le.RenewDeadline, dur(sc.Leader, "renewDeadline", 5*time.Second)),
		chk("leader.retryPeriod", le.RetryPeriod, dur(sc.Leader, "retryPeriod", time.Second)),
	} {
		if d != "" {
			return d
		}
	}
	return ""
}

func TestC17_Derived(t *testing.T) {
	str := rapid.SampledFrom([]string{"a", "b", "meta", "_default", "h1:8091", "x y"})
	// an override may be the empty string (no password / no custom CA for the metadata cluster): still an override
	strE := rapid.SampledFrom([]string{"a", "b", "meta", "_default", "x y", "", ""})
	durs := rapid.SampledFrom([]string{"1s", "250ms", "2m", "1h", "15s", "90s"})
	sub := func(rt *rapid.T, label string, keys map[string]*rapid.Generator[string]) map[string]string {
		ks := make([]string, 0, len(keys))
		for k := range keys {
			ks = append(ks, k)
		}
		sort.Strings(ks)
		var m map[string]string
		for _, k := range ks {
			if rapid.Bool().Draw(rt, label+":"+k) {
				if m == nil {
					m = map[string]string{}
				}
				m[k] = keys[k].Draw(rt, label+"="+k)
			}
		}
		return m
	}
	ints := rapid.Map(rapid.IntRange(1, 1<<20), func(n int) string { return fmt.Sprint(n) })
	rapid.Check(t, func(rt *rapid.T) {
		sc := c17Derived{}
		sc.Main = sub(rt, "main", map[string]*rapid.Generator[string]{"hosts": rapid.SampledFrom([]string{"h1:8091", "h1,h2", "h3:11210"}), "username": str, "password": str, "bucket": str, "rootCAPath": str, "secure": rapid.SampledFrom([]string{"true", "true", "false"})})
		if sc.Main == nil {
			sc.Main = map[string]string{}
		}
		sc.Meta = sub(rt, "meta", map[string]*rapid.Generator[string]{
			"hosts": rapid.SampledFrom([]string{"m1", "m1,m2,m3"}), "username": strE, "password": strE, "bucket": strE, "scope": strE, "collection": strE,
			"maxQueueSize": ints, "connectionBufferSize": rapid.OneOf(ints, rapid.SampledFrom([]string{"1mb", "10 MB", "0,5gb", "512kb"})),
			"connectionTimeout": durs, "secureConnection": rapid.SampledFrom([]string{"true", "false", "True", "False", "TRUE", "FALSE", "1", "0", "t", "f", "T", "F"}), "rootCAPath": strE,
		})
		sc.Member = sub(rt, "member", map[string]*rapid.Generator[string]{"expirySeconds": ints, "heartbeatInterval": durs, "heartbeatToleranceDuration": durs, "monitorInterval": durs, "timeout": durs})
		sc.Leader = sub(rt, "leader", map[string]*rapid.Generator[string]{"leaseLockName": str, "leaseLockNamespace": str, "leaseDuration": durs, "renewDeadline": durs, "retryPeriod": durs})
		if d := c17ExecDerived(sc); d != "" {
			violation(rt, "C17", "c17derived", sc, "%s", d)
		}
		nOver := len(sc.Meta) + len(sc.Member) + len(sc.Leader)
		record("C17", sc, nOver >= 3 && len(sc.Meta) < 11, "derived")
	})
}

// ---------------- (c) size strings ----------------

type c17Size struct {
	Int   string `json:"int"`  // integer digits
	Frac  string `json:"frac"` // fraction digits ("" = none)
	Mark  string `json:"mark"` // "." or ","
	Blank string `json:"blank"`
	Unit  string `json:"unit"` // two letters, any case; "" = plain integer
	Neg   bool   `json:"neg"`
}

func (s c17Size) String() string {
	out := s.Int
	if s.Neg {
		out = "-" + out
	}
	if s.Unit == "" {
		return out
	}
	if s.Frac != "" {
		out += s.Mark + s.Frac
	}
	return out + s.Blank + s.Unit
}

// independent oracle: trunc(number * 1024^k) with exact rationals
func c17SizeOracle(str string) int {
	s := strings.TrimSpace(str)
	if n, ok := new(big.Int).SetString(s, 10); ok {
		return int(n.Int64())
	}
	unit := strings.ToLower(s[len(s)-2:])
	num := strings.TrimSpace(s[:len(s)-2])
	num = strings.ReplaceAll(num, ",", ".")
	r, ok := new(big.Rat).SetString(num)
	if !ok {
		panic("oracle: bad number " + num)
	}
	k := map[string]int64{"kb": 1, "mb": 2, "gb": 3}[unit]
	mul := new(big.Int).Exp(big.NewInt(1024), big.NewInt(k), nil)
	r.Mul(r, new(big.Rat).SetInt(mul))
	q := new(big.Int).Quo(r.Num(), r.Denom()) // truncates toward zero
	return int(q.Int64())
}

func c17ExecSize(s c17Size) (detail string) {
	str := s.String()
	defer func() {
		if r := recover(); r != nil {
			detail = fmt.Sprintf("resolve(%q): panic %v", str, r)
		}
	}()
	got := helpers.ResolveUnionIntOrStringValue(str)
	want := c17SizeOracle(str)
	if got != want {
		return fmt.Sprintf("resolve(%q) = %d, want %d", str, got, want)
	}
	if s.Unit == "" {
		// typed inputs resolve to themselves
		if g := helpers.ResolveUnionIntOrStringValue(want); g != want {
			return fmt.Sprintf("resolve(int %d) = %d", want, g)
		}
		if want >= 0 {
			if g := helpers.ResolveUnionIntOrStringValue(uint(want)); g != want {
				return fmt.Sprintf("resolve(uint %d) = %d", want, g)
			}
		}
	}
	return ""
}

func c17GenSize() *rapid.Generator[c17Size] {
	units := []string{"kb", "mb", "gb"}
	return rapid.Custom(func(t *rapid.T) c17Size {
		s := c17Size{}
		if rapid.IntRange(0, 4).Draw(t, "plain") == 0 {
			n := rapid.OneOf(rapid.Int64(), rapid.Int64Range(-10, 10), rapid.SampledFrom([]int64{1<<63 - 1, -1 << 63, 1 << 53, 20971520})).Draw(t, "n")
			if n < 0 {
				s.Neg = true
				s.Int = strings.TrimPrefix(fmt.Sprint(n), "-")
			} else {
				s.Int = fmt.Sprint(n)
			}
			// zero-padded spellings (what a template or an env placeholder may produce) are decimal all the same
			s.Int = strings.Repeat("0", rapid.SampledFrom([]int{0, 0, 0, 1, 2, 4}).Draw(t, "pad")) + s.Int
			return s
		}
		k := rapid.IntRange(0, 2).Draw(t, "k")
		u := units[k]
		// every 2-letter case variant
		b := []byte(u)
		if rapid.Bool().Draw(t, "up0") {
			b[0] -= 32
		}
		if rapid.Bool().Draw(t, "up1") {
			b[1] -= 32
		}
		s.Unit = string(b)
		s.Blank = rapid.SampledFrom([]string{"", "", " ", "  ", "\t"}).Draw(t, "blank")
		s.Mark = rapid.SampledFrom([]string{".", ","}).Draw(t, "mark")
		shift := uint(10 * (k + 1))
		if rapid.Bool().Draw(t, "hasFrac") {
			// with a fraction (<= 3 digits) the exact product stays >= 1/125 away from an integer unless it is
			// one; float64 agrees with exact arithmetic while the product is below 2^44 (DESIGN C17)
			maxInt := int64(1) << (44 - shift)
			s.Int = fmt.Sprint(rapid.OneOf(rapid.Int64Range(0, maxInt), rapid.Int64Range(0, 100)).Draw(t, "int"))
			s.Frac = rapid.StringMatching(`[0-9]{1,3}`).Draw(t, "frac")
		} else {
			maxInt := int64(1) << (53 - shift)
			s.Int = fmt.Sprint(rapid.OneOf(rapid.Int64Range(0, maxInt), rapid.Int64Range(0, 100)).Draw(t, "int"))
		}
		s.Int = strings.Repeat("0", rapid.SampledFrom([]int{0, 0, 0, 0, 1, 3}).Draw(t, "padu")) + s.Int
		return s
	})
}

func TestC17_Sizes(t *testing.T) {
	rapid.Check(t, func(rt *rapid.T) {
		s := c17GenSize().Draw(rt, "size")
		if d := c17ExecSize(s); d != "" {
			violation(rt, "C17", "c17size", s, "%s", d)
		}
		lab := "size_plain"
		nt := false
		if len(s.Int) > 1 && s.Int[0] == '0' {
			record("C17", s, false, "size_zero_padded")
		}
		if s.Unit != "" {
			lab = "size_unit"
			nt = s.Unit != strings.ToLower(s.Unit) && s.Frac != ""
			if s.Mark == "," && s.Frac != "" {
				lab = "size_unit_comma"
			}
		}
		record("C17", s, nt, lab)
	})
}

// byte-level fuzz of the size parser: must return or panic with the library's own error (documented
// behaviour for unsupported strings), and agree with the oracle whenever the string is in the grammar.
func FuzzC17Size(f *testing.F) {
	for _, s := range []string{"20mb", "16mb", "5 MB", "1,5gb", "0.001kb", "1024", "-1", "10 Kb", "", "b", "mb", "1e3kb", "٣kb", " 7 ", "0x1fkb"} {
		f.Add(s)
	}
	f.Fuzz(func(t *testing.T, str string) {
		inGrammar := c17InGrammar(str)
		var got int
		p := func() (p any) {
			defer func() { p = recover() }()
			got = helpers.ResolveUnionIntOrStringValue(str)
			return nil
		}()
		if p != nil {
			_, isErr := p.(error)
			_, isRuntime := p.(runtime.Error)
			if !isErr || isRuntime || inGrammar {
				violation(t, "C17", "c17sizestr", str, "resolve(%q): panic %v", str, p)
			}
			return
		}
		if inGrammar {
			if want := c17SizeOracle(str); got != want {
				violation(t, "C17", "c17sizestr", str, "resolve(%q) = %d, want %d", str, got, want)
			}
		}
	})
}

// grammar of C17 with the magnitude bounds under which float64 and exact arithmetic agree
func c17InGrammar(s string) bool {
	if len(s) < 3 {
		return false
	}
	u := strings.ToLower(s[len(s)-2:])
	k := map[string]uint{"kb": 1, "mb": 2, "gb": 3}[u]
	if k == 0 {
		return false
	}
	num := strings.TrimRight(s[:len(s)-2], " \t")
	ip, fp := num, ""
	if i := strings.IndexAny(num, ".,"); i >= 0 {
		ip, fp = num[:i], num[i+1:]
		if fp == "" || len(fp) > 3 {
			return false
		}
	}
	if ip == "" || len(ip) > 15 {
		return false
	}
	for _, c := range ip + fp {
		if c < '0' || c > '9' {
			return false
		}
	}
	n, err := strconv.ParseInt(ip, 10, 64) // decimal (Sscan would read a leading 0 as an octal prefix)
	if err != nil {
		return false
	}
	if fp != "" {
		return n < int64(1)<<(44-10*k)
	}
	return n <= int64(1)<<(53-10*k)
}

// ---------------- (d) ${VAR} placeholders ----------------

type c17Piece struct {
	Lit string `json:"lit,omitempty"`
	Var int    `json:"var,omitempty"` // 1-based index into Vars; 0 = literal
}

type c17Tmpl struct {
	Field  string     `json:"field"`
	Quoted bool       `json:"quoted"`
	Pieces []c17Piece `json:"pieces"`
}

type c17File struct {
	Vars   []string  `json:"vars"`   // variable names (without VERIF_ prefix)
	Values []*string `json:"values"` // nil = unset in the environment
	Tmpls  []c17Tmpl `json:"tmpls"`
}

var c17Fields = []string{"username", "password", "bucketName", "scopeName", "rootCAPath", "groupName", "metricPath", "host0", "metaBucket"}

func (f c17File) render() (yaml string, want map[string]string) {
	want = map[string]string{}
	raw := map[string]string{}
	for _, t := range f.Tmpls {
		var r, w strings.Builder
		for _, p := range t.Pieces {
			if p.Var == 0 {
				r.WriteString(p.Lit)
				w.WriteString(p.Lit)
				continue
			}
			name := "VERIF_" + f.Vars[p.Var-1]
			r.WriteString("${" + name + "}")
			if v := f.Values[p.Var-1]; v != nil {
				w.WriteString(*v)
			} else {
				w.WriteString("${" + name + "}")
			}
		}
		s := r.String()
		if t.Quoted {
			s = `"` + s + `"`
		}
		raw[t.Field] = s
		want[t.Field] = w.String()
	}
	get := func(k, def string) string {
		if v, ok := raw[k]; ok {
			return v
		}
		want[k] = strings.Trim(def, `"`)
		return def
	}
	var b strings.Builder
	fmt.Fprintf(&b, "hosts:\n  - %s\n  - \"other:8091\"\n", get("host0", `"localhost:8091"`))
	fmt.Fprintf(&b, "username: %s\npassword: %s\nbucketName: %s\nscopeName: %s\nrootCAPath: %s\n",
		get("username", `"u"`), get("password", `"p"`), get("bucketName", `"b"`), get("scopeName", `"s"`), get("rootCAPath", `"r"`))
	fmt.Fprintf(&b, "metric:\n  path: %s\n", get("metricPath", `"/m"`))
	fmt.Fprintf(&b, "dcp:\n  group:\n    name: %s\n", get("groupName", `"g"`))
	fmt.Fprintf(&b, "metadata:\n  type: couchbase\n  config:\n    bucket: %s\n", get("metaBucket", `"mb"`))
	return b.String(), want
}

func c17ExecFile(f c17File) (detail string) {
	for i, n := range f.Vars {
		c17SetEnv("VERIF_"+n, f.Values[i])
	}
	defer func() {
		for _, n := range f.Vars {
			_ = os.Unsetenv("VERIF_" + n)
		}
	}()
	yaml, want := f.render()
	dir := os.Getenv("VERIF_WORK")
	if dir == "" {
		dir = os.TempDir()
	}
	path := filepath.Join(dir, fmt.Sprintf("c17-%d.yml", os.Getpid()))
	if err := os.WriteFile(path, []byte(yaml), 0o644); err != nil {
		panic(err)
	}
	defer os.Remove(path)
	cfg, err := dcp.VerifNewDcpConfig(path)
	if err != nil {
		return fmt.Sprintf("config file rejected: %v\n%s", err, yaml)
	}
	got := map[string]string{
		"username": cfg.Username, "password": cfg.Password, "bucketName": cfg.BucketName, "scopeName": cfg.ScopeName,
		"rootCAPath": cfg.RootCAPath, "groupName": cfg.Dcp.Group.Name, "metricPath": cfg.Metric.Path, "metaBucket": cfg.Metadata.Config["bucket"],
	}
	if len(cfg.Hosts) > 0 {
		got["host0"] = cfg.Hosts[0]
	}
	for _, k := range c17Fields {
		if got[k] != want[k] {
			return fmt.Sprintf("option %s = %q, want %q\n%s", k, got[k], want[k], yaml)
		}
	}
	return ""
}

func TestC17_Placeholders(t *testing.T) {
	lit := rapid.StringMatching(`[a-zA-Z0-9_.:/@-]{1,6}`)
	// values are taken verbatim - also passwords and paths with a dollar sign in them
	val := rapid.OneOf(rapid.StringMatching(`[a-zA-Z][a-zA-Z0-9_.:/@ -]{0,10}[a-zA-Z0-9]`), rapid.Just("v"),
		rapid.SampledFrom([]string{"S3cr$tKey", "pa$$word", "a$1b", "x${y}z", "$", "end$", "$HOME/ca.pem", "p$0$$1"}))
	rapid.Check(t, func(rt *rapid.T) {
		f := c17File{}
		nv := rapid.IntRange(0, 3).Draw(rt, "nvars")
		for i := 0; i < nv; i++ {
			f.Vars = append(f.Vars, fmt.Sprintf("%s%d", rapid.StringMatching(`[A-Z_]{1,5}`).Draw(rt, "vn"), i))
			switch rapid.IntRange(0, 5).Draw(rt, "vstate") {
			case 0:
				f.Values = append(f.Values, nil)
			case 1:
				e := ""
				f.Values = append(f.Values, &e)
			default:
				v := val.Draw(rt, "val")
				f.Values = append(f.Values, &v)
			}
		}
		nf := rapid.IntRange(1, len(c17Fields)).Draw(rt, "nfields")
		perm := rapid.Permutation(c17Fields).Draw(rt, "fields")
		occ := map[int]int{}
		for _, field := range perm[:nf] {
			tm := c17Tmpl{Field: field, Quoted: true}
			np := rapid.IntRange(1, 4).Draw(rt, "npieces")
			for j := 0; j < np; j++ {
				if nv > 0 && rapid.Bool().Draw(rt, "isvar") {
					v := rapid.IntRange(1, nv).Draw(rt, "var")
					occ[v]++
					tm.Pieces = append(tm.Pieces, c17Piece{Var: v})
				} else {
					tm.Pieces = append(tm.Pieces, c17Piece{Lit: lit.Draw(rt, "lit")})
				}
			}
			// unquoted style as in the repository's own test: only a sole placeholder or a leading letter literal
			if tm.Pieces[0].Var != 0 || (tm.Pieces[0].Lit[0] >= 'a' && tm.Pieces[0].Lit[0] <= 'z' && !strings.ContainsAny(tm.Pieces[0].Lit, ":@")) {
				ok := true
				for _, p := range tm.Pieces {
					if p.Var == 0 && strings.ContainsAny(p.Lit, ":@") {
						ok = false
					}
					if p.Var != 0 && f.Values[p.Var-1] != nil && (*f.Values[p.Var-1] == "" || strings.ContainsAny(*f.Values[p.Var-1], ":@ $")) {
						ok = false
					}
				}
				if ok && rapid.Bool().Draw(rt, "unquoted") {
					tm.Quoted = false
				}
				if _, w := (c17File{Vars: f.Vars, Values: f.Values, Tmpls: []c17Tmpl{tm}}).render(); strings.EqualFold(w[field], "null") {
					tm.Quoted = true // a bare YAML null is not a string value
				}
			}
			f.Tmpls = append(f.Tmpls, tm)
		}
		if d := c17ExecFile(f); d != "" {
			violation(rt, "C17", "c17file", f, "%s", d)
		}
		repeated := false
		for _, n := range occ {
			if n >= 2 {
				repeated = true
			}
		}
		lab := "placeholders"
		if repeated {
			lab = "placeholders_repeated_var"
		}
		record("C17", f, len(occ) >= 1 && repeated, lab)
	})
}

func init() {
	reg := func(unit string, f func(raw json.RawMessage) string) { registerReplay(unit, f) }
	reg("c17defaults", func(raw json.RawMessage) string {
		var s c17Cfg
		if err := json.Unmarshal(raw, &s); err != nil {
			return err.Error()
		}
		return c17ExecDefaults(s)
	})
	reg("c17derived", func(raw json.RawMessage) string {
		var s c17Derived
		if err := json.Unmarshal(raw, &s); err != nil {
			return err.Error()
		}
		return c17ExecDerived(s)
	})
	reg("c17size", func(raw json.RawMessage) string {
		var s c17Size
		if err := json.Unmarshal(raw, &s); err != nil {
			return err.Error()
		}
		return c17ExecSize(s)
	})
	reg("c17sizestr", func(raw json.RawMessage) string {
		var s string
		if err := json.Unmarshal(raw, &s); err != nil {
			return err.Error()
		}
		if !c17InGrammar(s) {
			return ""
		}
		defer func() { recover() }()
		if got, want := helpers.ResolveUnionIntOrStringValue(s), c17SizeOracle(s); got != want {
			return fmt.Sprintf("resolve(%q) = %d, want %d", s, got, want)
		}
		return ""
	})
	reg("c17file", func(raw json.RawMessage) string {
		var s c17File
		if err := json.Unmarshal(raw, &s); err != nil {
			return err.Error()
		}
		return c17ExecFile(s)
	})
}
