package props

// C12 — stream ends are recovered, counted and terminate the client correctly (DESIGN §5 C12).

import (
	"encoding/json"
	"fmt"
	"runtime"
	"sync/atomic"
	"testing"
	"time"

	"github.com/Trendyol/go-dcp/membership"
	"github.com/Trendyol/go-dcp/models"

	"pgregory.net/rapid"
)

func c12Weights() hWeights {
	return hWeights{deliver: 40, ack: 26, save: 4, end: 22, rebalance: 3, absorbed: 12, reopenFail: scale(2, 6),
		maxVb: scale(8, 16), minOps: 1, maxOps: scale(70, 200)}
}

func TestC12_History(t *testing.T) {
	known := isKnown("C01", sigF1)
	rapid.Check(t, func(rt *rapid.T) {
		sc := genHistory(rt, c12Weights())
		sc.EndOnClose = rapid.Bool().Draw(rt, "endOnClose")
		if rapid.IntRange(0, 2).Draw(rt, "cancelend") == 0 {
			sc.CancelEnd = rapid.SampledFrom([]string{"socket", "state", "backfill", "slow", "disconnected"}).Draw(rt, "cancelcause")
		}
		if rapid.IntRange(0, 4).Draw(rt, "fileall") == 0 {
			// file backend whose file lists every vBucket of the bucket: what counts are the ASSIGNED vBuckets
			sc.File, sc.FileAll = true, true
		}
		journal("C12", "c12hist", sc)
		v, labels, _ := runHistory(&sc, known != nil, "C12")
		journalDone()
		if v != nil {
			violation(rt, v.Prop, "c12hist", sc, "%s", v.Detail)
		}
		nt := labels["end_transient_after_events"] && labels["end_final"] && labels["vb_ended_twice"]
		record("C12", sc, nt, append(labelList(labels), "histories")...)
	})
}

func init() {
	registerReplay("c12hist", histReplayer(func() bool { return false }, "C12"))
}

// ---- finite mode: the client stops exactly when every vBucket reached the high seqno sampled at open ----

type c12Finite struct {
	NVb    int   `json:"nvb"`
	Stored []int `json:"stored"` // per vBucket: events already checkpointed (acked+saved in a first session)
	Total  []int `json:"total"`  // per vBucket: events the server holds when the finite session opens
	Late   []int `json:"late"`   // per vBucket: events written after the open (beyond the sampled end)
	Order  []int `json:"order"`  // interleaving seed
	// AckAll: the consumer acknowledges every event of the finite session at once (the settled position reaches the
	// sampled end). TransientAtEnd[v] > 0: when vBucket v has delivered everything up to its sampled end, its stream
	// first ends that many times with a transient cause (and must be requested again) before the clean end arrives.
	AckAll         bool  `json:"ack_all,omitempty"`
	TransientAtEnd []int `json:"transient_at_end,omitempty"`
	// Reset: checkpoint.autoReset ("" = default). NoCkpt: the group has never stored a checkpoint when the finite session
	// opens (with "latest" every vBucket then starts at its current end, which is also the sampled end: nothing to stream)
	Reset  string `json:"reset,omitempty"`
	NoCkpt bool   `json:"no_ckpt,omitempty"`
}

func c12ExecFinite(sc c12Finite) string {
	h := &hScenario{NumVb: 16, Lo: 2, Hi: 2 + sc.NVb - 1, Finite: true, Reset: sc.Reset}
	s := newSession(h, "C12", "C03")
	// first (infinite) session builds the server history and the stored checkpoints
	s.cfg.Dcp.Mode = ""
	s.open()
	for v := 0; v < sc.NVb; v++ {
		for i := 0; i < sc.Total[v]; i++ {
			s.deliver(hOp{Op: "deliver", Vb: v, Kind: []string{"mut", "del", "mut", "exp"}[i%4], Snap: i % 3})
		}
		if sc.NoCkpt {
			continue
		}
		s.ack(hOp{Op: "ack", Vb: 0, N: 0})
		m := s.vbOf(v)
		for i := 0; i < sc.Stored[v] && len(m.pending) > 0; i++ {
			ev := m.pending[0]
			m.pending = m.pending[1:]
			s.ackOne(m, ev)
		}
	}
	if !sc.NoCkpt {
		s.save(hOp{Op: "save"})
	}
	if s.viol != nil {
		return s.viol.Detail
	}
	within(20*time.Second, func() { s.st.Close(false) })
	// finite session
	s.cfg.Dcp.Mode = "finite"
	high := map[uint16]uint64{}
	for vb, sv := range s.srv {
		if n := len(sv.hist); n > 0 {
			high[vb] = sv.hist[n-1].Seq
		}
	}
	nOpens := len(s.cl.openLog())
	s.open()
	defer s.finish()
	for _, r := range s.cl.openLog()[nOpens:] {
		if r.Off.LatestSeqNo != high[r.Vb] {
			return fmt.Sprintf("vb %d: finite mode requested end %d, high seqno sampled at open is %d", r.Vb, r.Off.LatestSeqNo, high[r.Vb])
		}
	}
	// events written after the open lie beyond the sampled end: the server never sends them on this stream
	remaining := map[uint16]int{}
	for v := 0; v < sc.NVb; v++ {
		m := s.vbOf(v)
		remaining[m.vb] = len(s.srv[m.vb].hist) - m.sentIdx
	}
	transient := append([]int(nil), sc.TransientAtEnd...)
	ended := 0
	for step := 0; ended < sc.NVb && step < 100000; step++ {
		v := sc.Order[step%len(sc.Order)] % sc.NVb
		m := s.vbOf(v)
		if m.ended {
			// pick the next vBucket that still streams
			for k := 0; k < sc.NVb; k++ {
				if mm := s.vbOf(v + k); !mm.ended {
					m, v = mm, v+k
					break
				}
			}
		}
		if remaining[m.vb] > 0 {
			s.deliver(hOp{Op: "deliver", Vb: int(m.vb) - s.lo, Snap: 4})
			remaining[m.vb]--
			if sc.AckAll {
				s.ack(hOp{Op: "ack", Vb: int(m.vb) - s.lo, N: 8})
			}
			if s.viol != nil {
				return s.viol.Detail
			}
			continue
		}
		if k := int(m.vb) - s.lo; k < len(transient) && transient[k] > 0 {
			// everything up to the sampled end was sent, but the stream ends with a transient cause instead of cleanly:
			// the vBucket has not ended for good, it must be requested again (from its settled position)
			transient[k]--
			s.step = step
			s.end(hOp{Op: "end", Vb: k, Kind: []string{"state", "socket", "slow"}[transient[k]%3]})
			if s.viol != nil {
				return s.viol.Detail
			}
			if stopChClosed(s.stopCh) {
				return fmt.Sprintf("vb %d: the client stopped after a transient stream end at the sampled end", m.vb)
			}
			remaining[m.vb] = len(s.srv[m.vb].hist) - m.sentIdx
			continue
		}
		// the sampled end is reached: the server closes the stream cleanly
		if ended < sc.NVb-1 && stopChClosed(s.stopCh) {
			return "client stopped before every vBucket reached its sampled end"
		}
		s.step = step
		s.end(hOp{Op: "end", Vb: int(m.vb) - s.lo, Kind: "ok"})
		if s.viol != nil {
			return s.viol.Detail
		}
		ended++
	}
	if !s.stopped {
		return "client did not stop after every vBucket reached its sampled end"
	}
	// every event up to the sampled end above the checkpoint was delivered (C03 oracle ran on each delivery)
	for v := 0; v < sc.NVb; v++ {
		m := s.vbOf(v)
		want := 0
		for _, e := range s.srv[m.vb].hist {
			if e.Seq > m.resume.Seq && e.Seq <= high[m.vb] {
				want++
			}
		}
		got := map[uint64]bool{} // (after a transient end the unacknowledged events are delivered again: count events, not deliveries)
		for _, d := range m.docs {
			got[d.ev.Seq] = true
		}
		if len(got) != want {
			return fmt.Sprintf("vb %d: %d events delivered before the stop, %d lie between the checkpoint %d and the sampled end %d", m.vb, len(got), want, m.resume.Seq, high[m.vb])
		}
	}
	return ""
}

func TestC12_Finite(t *testing.T) {
	rapid.Check(t, func(rt *rapid.T) {
		sc := c12Finite{NVb: rapid.IntRange(1, 6).Draw(rt, "nvb")}
		atEnd := false
		for v := 0; v < sc.NVb; v++ {
			tot := rapid.IntRange(0, 9).Draw(rt, "total")
			st := rapid.IntRange(0, tot).Draw(rt, "stored")
			sc.Total, sc.Stored = append(sc.Total, tot), append(sc.Stored, st)
			atEnd = atEnd || st == tot
		}
		sc.Order = rapid.SliceOfN(rapid.IntRange(0, 5), 1, 12).Draw(rt, "order")
		sc.AckAll = rapid.Bool().Draw(rt, "ackall")
		sc.Reset = rapid.SampledFrom([]string{"", "earliest", "latest", "latest"}).Draw(rt, "reset")
		sc.NoCkpt = rapid.IntRange(0, 2).Draw(rt, "nockpt") == 0
		trans := false
		if rapid.Bool().Draw(rt, "transients") {
			for v := 0; v < sc.NVb; v++ {
				k := rapid.SampledFrom([]int{0, 0, 1, 2}).Draw(rt, "transient")
				sc.TransientAtEnd = append(sc.TransientAtEnd, k)
				trans = trans || k > 0
			}
		}
		if d := c12ExecFinite(sc); d != "" {
			violation(rt, "C12", "c12finite", sc, "%s", d)
		}
		lab := "finite"
		if atEnd {
			lab = "finite_with_vb_already_at_end"
		}
		labs := []string{lab, "finite_cases"}
		if trans {
			labs = append(labs, "finite_transient_end_at_sampled_end")
		}
		if sc.NoCkpt {
			labs = append(labs, "finite_first_start_reset_"+sc.Reset)
		}
		record("C12", sc, sc.NVb >= 2, labs...)
	})
}

func init() {
	registerReplay("c12stale", func(raw json.RawMessage) string {
		var sc c12Stale
		if err := json.Unmarshal(raw, &sc); err != nil {
			return err.Error()
		}
		return c12ExecStale(sc)
	})
	registerReplay("c12finite", func(raw json.RawMessage) string {
		var sc c12Finite
		if err := json.Unmarshal(raw, &sc); err != nil {
			return err.Error()
		}
		return c12ExecFinite(sc)
	})
}

// ---- stress: a rebalance whose CloseStream calls are confirmed with STREAM_END(closed) (as a real node does) leaves
// two finish signals behind (end events + Close); afterwards the client must still stop when every vBucket ends.
// Which goroutine runs first is not owned by the harness: many rounds under scheduling pressure.

type c12Stale struct {
	Rounds   int `json:"rounds"`
	Spinners int `json:"spinners"`
}

func c12ExecStale(sc c12Stale) string {
	var stop atomic.Bool
	for i := 0; i < sc.Spinners; i++ {
		go func() {
			for !stop.Load() {
				runtime.Gosched()
			}
		}()
	}
	defer stop.Store(true)
	for r := 0; r < sc.Rounds; r++ {
		h := &hScenario{NumVb: 8, Lo: 0, Hi: 1, EndOnClose: true}
		s := newSession(h, "C12")
		s.cfg.Dcp.Group.Membership.Type = membership.DynamicMembershipType // zero delay
		s.open()
		for k := 0; k < 1+r%3; k++ {
			are := 0
			for _, n := range s.hand.names() {
				if n == "ARE" {
					are++
				}
			}
			s.st.Rebalance()
			dl := time.Now().Add(20 * time.Second)
			for {
				n := 0
				for _, x := range s.hand.names() {
					if x == "ARE" {
						n++
					}
				}
				if n > are {
					break
				}
				if deadlinePassed(dl) {
					return fmt.Sprintf("round %d: no reopen", r)
				}
				runtime.Gosched()
			}
		}
		if stopChClosed(s.stopCh) {
			return fmt.Sprintf("round %d: the client stopped after a rebalance", r)
		}
		// every vBucket ends for good
		for v := 0; v <= 1; v++ {
			s.cl.observer(uint16(v)).End(models.DcpStreamEnd{VbID: uint16(v)}, nil)
		}
		dl := time.Now().Add(3 * time.Second)
		for !stopChClosed(s.stopCh) {
			if deadlinePassed(dl) {
				return fmt.Sprintf("round %d: every assigned vBucket stream ended for good after %d rebalance(s) confirmed by stream ends, but the client did not stop", r, 1+r%3)
			}
			time.Sleep(100 * time.Microsecond)
		}
		within(5*time.Second, func() { s.st.Close(false) })
	}
	return ""
}

// stress + regression of the repaired defect stale_second_finish_token
func TestC12_StaleToken(t *testing.T) {
	sc := c12Stale{Rounds: scale(1500, 15000), Spinners: 8}
	if d := c12ExecStale(sc); d != "" {
		violation(t, "C12", "c12stale", sc, "%s", d)
	}
	recordEnum("C12", int64(sc.Rounds), 2, map[string]int64{"stale_token_stress_rounds": int64(sc.Rounds)})
}

func TestC12_StaleTokenProbe(t *testing.T) {
	if testing.Short() {
		t.Skip()
	}
	for _, sp := range []int{0, 8, 32} {
		t0 := time.Now()
		d := c12ExecStale(c12Stale{Rounds: 3000, Spinners: sp})
		t.Logf("spinners=%d: %v in %v", sp, d, time.Since(t0))
	}
}
