package props

// C11 (stress unit): "a rebalance never terminates the client" against the library's own goroutine
// that waits for the stream-finished token. The schedule is not owned by the harness (DESIGN §7): the
// unit repeats rebalances with zero delay (dynamic membership) under scheduling pressure and requires
// the stop channel to stay open and the final Close not to crash.

import (
	"encoding/json"
	"fmt"
	"runtime"
	"sync/atomic"
	"testing"
	"time"

	"github.com/Trendyol/go-dcp/membership"
)

type c11Stress struct {
	Rebalances int `json:"rebalances"`
	Spinners   int `json:"spinners"`
	DelayUs    int `json:"delay_us"`
}

func c11ExecStress(sc c11Stress) string {
	h := &hScenario{NumVb: 8, Lo: 0, Hi: 1}
	s := newSession(h, "C11")
	if sc.DelayUs == 0 {
		s.cfg.Dcp.Group.Membership.Type = membership.DynamicMembershipType
	} else {
		s.cfg.Dcp.Group.Membership.RebalanceDelay = time.Duration(sc.DelayUs) * time.Microsecond
	}
	s.open()
	var stop atomic.Bool
	for i := 0; i < sc.Spinners; i++ {
		go func() {
			for !stop.Load() {
				runtime.Gosched()
			}
		}()
	}
	defer stop.Store(true)
	for i := 0; i < sc.Rebalances; i++ {
		are := 0
		for _, n := range s.hand.names() {
			if n == "ARE" {
				are++
			}
		}
		s.st.Rebalance()
		deadline := time.Now().Add(20 * time.Second)
		for {
			n := 0
			for _, x := range s.hand.names() {
				if x == "ARE" {
					n++
				}
			}
			if n > are {
				break
			}
			if time.Now().After(deadline) {
				return fmt.Sprintf("rebalance %d: stream did not reopen", i+1)
			}
			runtime.Gosched()
		}
		s.hand.mu.Lock()
		s.hand.log = nil
		s.hand.mu.Unlock()
		time.Sleep(50 * time.Microsecond)
		if stopChClosed(s.stopCh) {
			return fmt.Sprintf("the client's stop channel was closed after rebalance %d (a rebalance terminated the client)", i+1)
		}
	}
	ok, pv := within(20*time.Second, func() { s.st.Close(false) })
	if !ok || pv != nil {
		return fmt.Sprintf("Close after %d rebalances: returned=%v panic=%v", sc.Rebalances, ok, pv)
	}
	return ""
}

func TestC11_StressProbe(t *testing.T) {
	if testing.Short() {
		t.Skip()
	}
	for _, sp := range []int{0, 8, 32} {
		t0 := time.Now()
		d := c11ExecStress(c11Stress{Rebalances: 20000, Spinners: sp})
		t.Logf("spinners=%d: %v in %v", sp, d, time.Since(t0))
	}
}

func init() {
	registerReplay("c11stress", func(raw json.RawMessage) string {
		var sc c11Stress
		if err := json.Unmarshal(raw, &sc); err != nil {
			return err.Error()
		}
		return c11ExecStress(sc)
	})
}
