package props

// C11 (stress unit): "a rebalance never terminates the client" against the library's own goroutine
// that waits for the stream-finished token. The schedule is not owned by the harness (DESIGN §7): the
// unit repeats rebalances with zero delay (dynamic membership) under scheduling pressure and requires
// the stop channel to stay open and the final Close not to crash.

import (
	"encoding/json"
	"fmt"
	"runtime"
	"sort"
	"sync/atomic"
	"testing"
	"time"

	godcp "github.com/Trendyol/go-dcp"
	"github.com/Trendyol/go-dcp/couchbase"
	"github.com/Trendyol/go-dcp/helpers"
	"github.com/Trendyol/go-dcp/membership"
)

type c11Stress struct {
	Rebalances int `json:"rebalances"`
	Spinners   int `json:"spinners"`
	DelayUs    int `json:"delay_us"`
}

func c11ExecStress(sc c11Stress) string {
	h := &hScenario{NumVb: 8, Lo: 0, Hi: 1}
	s := newSession(h, "C11")
	if sc.DelayUs == 0 {
		s.cfg.Dcp.Group.Membership.Type = membership.DynamicMembershipType
	} else {
		s.cfg.Dcp.Group.Membership.RebalanceDelay = time.Duration(sc.DelayUs) * time.Microsecond
	}
	s.open()
	var stop atomic.Bool
	for i := 0; i < sc.Spinners; i++ {
		go func() {
			for !stop.Load() {
				runtime.Gosched()
			}
		}()
	}
	defer stop.Store(true)
	for i := 0; i < sc.Rebalances; i++ {
		are := 0
		for _, n := range s.hand.names() {
			if n == "ARE" {
				are++
			}
		}
		s.st.Rebalance()
		deadline := time.Now().Add(20 * time.Second)
		for {
			n := 0
			for _, x := range s.hand.names() {
				if x == "ARE" {
					n++
				}
			}
			if n > are {
				break
			}
			if deadlinePassed(deadline) {
				return fmt.Sprintf("rebalance %d: stream did not reopen", i+1)
			}
			runtime.Gosched()
		}
		s.hand.mu.Lock()
		s.hand.log = nil
		s.hand.mu.Unlock()
		time.Sleep(50 * time.Microsecond)
		if stopChClosed(s.stopCh) {
			return fmt.Sprintf("the client's stop channel was closed after rebalance %d (a rebalance terminated the client)", i+1)
		}
	}
	ok, pv := within(20*time.Second, func() { s.st.Close(false) })
	if !ok || pv != nil {
		return fmt.Sprintf("Close after %d rebalances: returned=%v panic=%v", sc.Rebalances, ok, pv)
	}
	return ""
}

func TestC11_StressProbe(t *testing.T) {
	if testing.Short() {
		t.Skip()
	}
	for _, sp := range []int{0, 8, 32} {
		t0 := time.Now()
		d := c11ExecStress(c11Stress{Rebalances: 20000, Spinners: sp})
		t.Logf("spinners=%d: %v in %v", sp, d, time.Since(t0))
	}
}

func init() {
	registerReplay("c11stress", func(raw json.RawMessage) string {
		var sc c11Stress
		if err := json.Unmarshal(raw, &sc); err != nil {
			return err.Error()
		}
		return c11ExecStress(sc)
	})
}

// dynamic membership: the membership's own handler vs. the rebalance listener of the same bus event
// (schedule not owned by the harness): many announcements under scheduling pressure; after each one the
// stream must have been reopened on the announced range.
type c11DynStress struct {
	Rounds   int `json:"rounds"`
	Spinners int `json:"spinners"`
}

func c11ExecDynStress(sc c11DynStress) string {
	cfg := laConfig()
	cfg.Dcp.Group.Membership.Type = membership.DynamicMembershipType
	cl := newFakeClient(16)
	hand := &fakeHandler{}
	d := godcp.VerifNewDcp(cfg, cl, &fakeConsumer{}, &couchbase.Version{Major: 7, Minor: 6}, &couchbase.BucketInfo{BucketType: "membase"})
	d.SetMetadata(newFakeMeta())
	d.SetEventHandler(hand)
	bus := godcp.VerifBus(d)
	done := make(chan struct{})
	go func() { defer close(done); d.Start() }()
	for i := 0; i < 500 && !bus.HasCallback(helpers.MembershipChangedBusEventName); i++ {
		time.Sleep(time.Millisecond)
	}
	bus.Publish(helpers.MembershipChangedBusEventName, &membership.Model{MemberNumber: 1, TotalMembers: 1})
	select {
	case <-d.WaitUntilReady():
	case <-time.After(20 * time.Second):
		return "HARNESS: not ready"
	}
	var stop atomic.Bool
	for i := 0; i < sc.Spinners; i++ {
		go func() {
			for !stop.Load() {
				runtime.Gosched()
			}
		}()
	}
	defer func() {
		stop.Store(true)
		d.Close()
		select {
		case <-done:
		case <-time.After(20 * time.Second):
		}
	}()
	count := func(name string) int {
		n := 0
		for _, x := range hand.names() {
			if x == name {
				n++
			}
		}
		return n
	}
	for r := 0; r < sc.Rounds; r++ {
		total := 2 + r%3
		num := 1 + r%total
		are := count("ARE")
		nOpens := len(cl.openLog())
		bus.Publish(helpers.MembershipChangedBusEventName, &membership.Model{MemberNumber: num, TotalMembers: total})
		dl := time.Now().Add(20 * time.Second)
		for count("ARE") <= are {
			if deadlinePassed(dl) {
				return fmt.Sprintf("round %d: no reopen after the announcement %d/%d", r, num, total)
			}
			runtime.Gosched()
		}
		lo, hi := c16Range(16, total, num)
		got := map[int]bool{}
		for _, o := range cl.openLog()[nOpens:] {
			got[int(o.Vb)] = true
		}
		if len(got) != hi-lo+1 || !got[lo] || !got[hi] {
			return fmt.Sprintf("round %d: announced %d/%d (vBuckets %d-%d) but the stream was reopened on %d vBuckets %v - the previous membership information", r, num, total, lo, hi, len(got), keysOfB(got))
		}
		hand.mu.Lock()
		hand.log = nil
		hand.mu.Unlock()
		select {
		case <-done:
			return fmt.Sprintf("round %d: the client stopped", r)
		default:
		}
	}
	return ""
}

func keysOfB(m map[int]bool) []int {
	var k []int
	for v := range m {
		k = append(k, v)
	}
	sort.Ints(k)
	return k
}

func TestC11_DynStressProbe(t *testing.T) {
	if testing.Short() {
		t.Skip()
	}
	for _, sp := range []int{0, 8, 32} {
		t0 := time.Now()
		d := c11ExecDynStress(c11DynStress{Rounds: 3000, Spinners: sp})
		t.Logf("spinners=%d: %v in %v", sp, d, time.Since(t0))
	}
}
