package props

// C05 on the Couchbase backend (Layer B): the real stream + checkpoint + cbMetadata write their per-vBucket checkpoint
// documents to the simulated node, which rejects a generated subset of the writes of ONE save (the others succeed,
// before or after the rejected ones complete). "If the metadata store rejects a save, nothing is forgotten: the next
// successful save stores it" - so after a second, undisturbed save every acknowledged position is on the node.

import (
	"encoding/json"
	"fmt"
	"strings"
	"sync/atomic"
	"testing"
	"time"

	"github.com/Trendyol/go-dcp/couchbase"
	"github.com/couchbase/gocbcore/v10/memd"
	"pgregory.net/rapid"
)

type c05CB struct {
	NVb      int   `json:"nvb"`
	Events   []int `json:"events"`    // per vBucket: events delivered and acknowledged before the first save (>= 1)
	Reject   []int `json:"reject"`    // vBucket indices whose checkpoint write is rejected in the first save
	Status   int   `json:"status"`    // memcached status of the rejection
	SlowGood bool  `json:"slow_good"` // the successful writes complete after the rejected ones (else before)
	PreSaved bool  `json:"pre_saved"` // a save before the faulty one: the documents already exist
}

var c05cbSeq atomic.Int64

func c05ExecCB(sc c05CB) string {
	e := lbShared(1, 16, 0)
	group := fmt.Sprintf("c05cb%d", c05cbSeq.Add(1))
	e.cfg.Dcp.Group.Name = group
	e.cfg.Checkpoint.Timeout = 2 * time.Second
	defer func() { e.cfg.Dcp.Group.Name = "g" }()
	md := couchbase.NewCBMetadata(e.client, e.cfg)
	cons := &fakeConsumer{onEvent: func(d *delivered) { d.Ctx.Ack() }}
	disc := &fakeDiscovery{}
	disc.set(0, uint16(sc.NVb-1))
	c := e.c
	c.Lock()
	for v := 0; v < sc.NVb; v++ {
		c.High[uint16(v)] = 1000
	}
	c.Unlock()
	st := streamNew(e, md, cons, disc)
	if ok, pv := within(30*time.Second, func() { st.Open() }); !ok || pv != nil {
		return fmt.Sprintf("HARNESS: Open(): returned=%v panic=%v", ok, pv)
	}
	defer within(30*time.Second, func() { st.Close(false) })
	next := map[uint16]uint64{}
	feed := func(vb uint16, n int) {
		s := c.Stream(vb)
		if s == nil {
			return
		}
		for i := 0; i < n; i++ {
			next[vb]++
			s.Marker(next[vb], next[vb])
			s.Mutation(simnodeDoc(next[vb]))
		}
	}
	waitConsumed := func(total int) bool {
		for t0 := time.Now(); time.Since(t0) < 10*time.Second; time.Sleep(time.Millisecond) {
			if cons.count() >= total {
				return true
			}
		}
		return false
	}
	total := 0
	if sc.PreSaved {
		for v := 0; v < sc.NVb; v++ {
			feed(uint16(v), 1)
			total++
		}
		if !waitConsumed(total) {
			return "HARNESS: events not consumed"
		}
		st.Save()
	}
	for v := 0; v < sc.NVb; v++ {
		k := sc.Events[v%len(sc.Events)]
		feed(uint16(v), k)
		total += k
	}
	if !waitConsumed(total) {
		return "HARNESS: events not consumed"
	}
	key := func(v int) string { return fmt.Sprintf("_connector:cbgo:%s:checkpoint:%d", group, v) }
	reject := map[string]bool{}
	for _, r := range sc.Reject {
		reject[key(r%sc.NVb)] = true
	}
	c.Lock()
	c.Hook = func(en *simnodeEntry) simnodeAction {
		if en.Cmd != memd.CmdSubDocMultiMutation && en.Cmd != memd.CmdSet {
			return simnodeAction{}
		}
		if !strings.Contains(en.Key, ":checkpoint:") {
			return simnodeAction{}
		}
		if reject[en.Key] {
			if !sc.SlowGood {
				time.Sleep(15 * time.Millisecond) // the rejection is the last thing the save hears
			}
			return simnodeAction{Kind: simnodeStatus, Status: memd.StatusCode(sc.Status)}
		}
		if sc.SlowGood {
			return simnodeAction{Kind: simnodeDelay, Delay: 15 * time.Millisecond}
		}
		return simnodeAction{}
	}
	c.Unlock()
	if ok, pv := within(30*time.Second, func() { st.Save() }); !ok || pv != nil {
		return fmt.Sprintf("Save() with a partly rejecting store: returned=%v panic=%v", ok, pv)
	}
	c.Lock()
	c.Hook = nil
	c.Unlock()
	// the store is healthy again: the next save must leave nothing behind
	if ok, pv := within(30*time.Second, func() { st.Save() }); !ok || pv != nil {
		return fmt.Sprintf("second Save(): returned=%v panic=%v", ok, pv)
	}
	c.Lock()
	defer c.Unlock()
	for v := 0; v < sc.NVb; v++ {
		want := next[uint16(v)]
		var got uint64
		if d := c.Docs[key(v)]; d != nil {
			var doc struct {
				Checkpoint struct {
					SeqNo uint64 `json:"seqno"`
				} `json:"checkpoint"`
			}
			_ = json.Unmarshal(d.Xattr["cbgo"], &doc)
			got = doc.Checkpoint.SeqNo
		}
		if got != want {
			return fmt.Sprintf("vb %d: position %d was acknowledged before a save that the store partly rejected (status 0x%x for %d of %d vBuckets); after the next, undisturbed save the store holds %d", v, want, sc.Status, len(reject), sc.NVb, got)
		}
	}
	return ""
}

func TestC05_CouchbaseBackend(t *testing.T) {
	rapid.Check(t, func(rt *rapid.T) {
		sc := c05CB{NVb: rapid.IntRange(2, 6).Draw(rt, "nvb"), SlowGood: rapid.Bool().Draw(rt, "slowgood"), PreSaved: rapid.Bool().Draw(rt, "presaved"),
			Status: rapid.SampledFrom([]int{int(memd.StatusAccessError), int(memd.StatusInternalError), int(memd.StatusInvalidArgs), int(memd.StatusNoBucket)}).Draw(rt, "status")}
		sc.Events = rapid.SliceOfN(rapid.IntRange(1, 3), 1, 6).Draw(rt, "events")
		sc.Reject = rapid.SliceOfNDistinct(rapid.IntRange(0, sc.NVb-1), 1, sc.NVb-1, func(i int) int { return i }).Draw(rt, "reject")
		journal("C05", "c05cb", sc)
		d := c05ExecCB(sc)
		journalDone()
		if strings.HasPrefix(d, "HARNESS") {
			rt.Fatalf("%s", d)
		}
		if d != "" {
			violation(rt, "C05", "c05cb", sc, "%s", d)
		}
		lab := "cb_partial_reject_good_first"
		if sc.SlowGood {
			lab = "cb_partial_reject_good_last"
		}
		record("C05", sc, true, "couchbase_backend_cases", lab)
	})
}

func init() {
	registerReplay("c05cb", func(raw json.RawMessage) string {
		var sc c05CB
		if err := json.Unmarshal(raw, &sc); err != nil {
			return err.Error()
		}
		return c05ExecCB(sc)
	})
}
