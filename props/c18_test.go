package props

// C18 — server-version gating rests on a consistent total order.
// Exhaustive pair grid around every gate, rapid triples (transitivity), parse/format round trip,
// malformed strings (rapid + native fuzz), monotone gates; behavioural gate (serial close below
// 5.5.0) is in c18b_test.go on the Layer-A engine.

import (
	"encoding/json"
	"fmt"
	"strings"
	"testing"

	"github.com/Trendyol/go-dcp/couchbase"
	"pgregory.net/rapid"
)

type c18V [4]int

func (v c18V) ver() *couchbase.Version {
	return &couchbase.Version{Major: v[0], Minor: v[1], Patch: v[2], Build: v[3]}
}

// independent model: lexicographic comparison of the 4-tuple
func c18Cmp(a, b c18V) int {
	for i := 0; i < 4; i++ {
		if a[i] < b[i] {
			return -1
		}
		if a[i] > b[i] {
			return 1
		}
	}
	return 0
}

type c18Pair struct {
	A c18V `json:"a"`
	B c18V `json:"b"`
}

func c18ExecPair(p c18Pair) (d string) {
	defer func() {
		if r := recover(); r != nil {
			d = fmt.Sprintf("%v vs %v: panic %v", p.A, p.B, r)
		}
	}()
	a, b := p.A.ver(), p.B.ver()
	lo, eq, hi := a.Lower(b), a.Equal(b), a.Higher(b)
	n := 0
	for _, x := range []bool{lo, eq, hi} {
		if x {
			n++
		}
	}
	if n != 1 {
		return fmt.Sprintf("%v vs %v: lower=%v equal=%v higher=%v (exactly one must hold)", p.A, p.B, lo, eq, hi)
	}
	want := c18Cmp(p.A, p.B)
	got := 0
	if lo {
		got = -1
	} else if hi {
		got = 1
	}
	if got != want {
		return fmt.Sprintf("%v vs %v: relation %d, tuple order says %d", p.A, p.B, got, want)
	}
	// antisymmetry: the mirrored comparison gives the mirrored answer
	rlo, req, rhi := b.Lower(a), b.Equal(a), b.Higher(a)
	if rlo != hi || rhi != lo || req != eq {
		return fmt.Sprintf("%v vs %v: not antisymmetric (a?b lower=%v eq=%v higher=%v ; b?a lower=%v eq=%v higher=%v)", p.A, p.B, lo, eq, hi, rlo, req, rhi)
	}
	// gates are monotone along the order
	if d := c18Gates(p.A, p.B); d != "" {
		return d
	}
	return ""
}

// the three gate predicates exactly as dcp.go / stream.go phrase them
func c18GateExpiry(v *couchbase.Version) bool {
	return v.Higher(couchbase.SrvVer650) || v.Equal(couchbase.SrvVer650)
}

func c18GateChangeStreams(v *couchbase.Version) bool {
	return v.Higher(couchbase.SrvVer720) || v.Equal(couchbase.SrvVer720)
}
func c18GateSerialClose(v *couchbase.Version) bool { return v.Lower(couchbase.SrvVer550) }

func c18Gates(x, y c18V) string {
	lo, hi := x, y
	if c18Cmp(x, y) > 0 {
		lo, hi = y, x
	}
	l, h := lo.ver(), hi.ver()
	if c18GateExpiry(l) && !c18GateExpiry(h) {
		return fmt.Sprintf("expiry-opcode gate on for %v but off for the later %v", lo, hi)
	}
	if c18GateChangeStreams(l) && !c18GateChangeStreams(h) {
		return fmt.Sprintf("change-streams gate on for %v but off for the later %v", lo, hi)
	}
	if c18GateSerialClose(h) && !c18GateSerialClose(l) {
		return fmt.Sprintf("serial-close gate on for %v but off for the earlier %v", hi, lo)
	}
	// and they switch exactly at the documented versions
	for _, v := range []c18V{lo, hi} {
		if c18GateExpiry(v.ver()) != (c18Cmp(v, c18V{6, 5, 0, 0}) >= 0) {
			return fmt.Sprintf("expiry-opcode gate wrong for %v", v)
		}
		if c18GateChangeStreams(v.ver()) != (c18Cmp(v, c18V{7, 2, 0, 0}) >= 0) {
			return fmt.Sprintf("change-streams gate wrong for %v", v)
		}
		if c18GateSerialClose(v.ver()) != (c18Cmp(v, c18V{5, 5, 0, 0}) < 0) {
			return fmt.Sprintf("serial-close gate wrong for %v", v)
		}
	}
	return ""
}

// dense grid around every gate: gate component -1 / gate / gate +1, 0 and large, per position
func c18Grid() []c18V {
	maj := []int{0, 4, 5, 6, 7, 8, 1 << 30}
	min := []int{0, 1, 2, 3, 4, 5, 6, 1 << 30}
	pat := []int{0, 1, 2, 1 << 30}
	bld := []int{0, 1, 5000, 1<<31 - 1}
	var g []c18V
	for _, a := range maj {
		for _, b := range min {
			for _, c := range pat {
				for _, d := range bld {
					g = append(g, c18V{a, b, c, d})
				}
			}
		}
	}
	return g
}

func TestC18_PairGridExhaustive(t *testing.T) {
	g := c18Grid()
	sh, nsh := shard()
	var n, nt int64
	for i, a := range g {
		if i%nsh != sh {
			continue
		}
		for _, b := range g {
			p := c18Pair{a, b}
			if d := c18ExecPair(p); d != "" {
				violation(t, "C18", "c18pair", p, "%s", d)
			}
			n++
			// non-trivial: tuples differ, and agree on the major (decided by a later component)
			if a != b && a[0] == b[0] {
				nt++
				if nt == 3 || nt == 5000 {
					addSample("C18", p)
				}
			}
		}
	}
	recordEnum("C18", n, nt, map[string]int64{"grid_pairs": n})
	markExhaustive("C18")
	addNote("C18", fmt.Sprintf("pair grid: %d tuples, all %d ordered pairs enumerated in every tier", len(g), len(g)*len(g)))
}

func c18GenV() *rapid.Generator[c18V] {
	comp := rapid.OneOf(rapid.IntRange(0, 9), rapid.IntRange(0, 1<<31-1), rapid.SampledFrom([]int{0, 1, 4, 5, 6, 7, 8, 5000}))
	return rapid.Custom(func(t *rapid.T) c18V {
		return c18V{comp.Draw(t, "maj"), comp.Draw(t, "min"), comp.Draw(t, "pat"), comp.Draw(t, "bld")}
	})
}

type c18Triple struct {
	A c18V `json:"a"`
	B c18V `json:"b"`
	C c18V `json:"c"`
}

func c18ExecTriple(tr c18Triple) string {
	for _, p := range []c18Pair{{tr.A, tr.B}, {tr.B, tr.C}, {tr.A, tr.C}} {
		if d := c18ExecPair(p); d != "" {
			return d
		}
	}
	a, b, c := tr.A.ver(), tr.B.ver(), tr.C.ver()
	if a.Lower(b) && b.Lower(c) && !a.Lower(c) {
		return fmt.Sprintf("not transitive: %v < %v < %v but not %v < %v", tr.A, tr.B, tr.C, tr.A, tr.C)
	}
	if a.Higher(b) && b.Higher(c) && !a.Higher(c) {
		return fmt.Sprintf("not transitive: %v > %v > %v but not %v > %v", tr.A, tr.B, tr.C, tr.A, tr.C)
	}
	if a.Equal(b) && b.Equal(c) && !a.Equal(c) {
		return fmt.Sprintf("equality not transitive: %v %v %v", tr.A, tr.B, tr.C)
	}
	if (a.Lower(b) || a.Equal(b)) && (b.Lower(c) || b.Equal(c)) && a.Higher(c) {
		return fmt.Sprintf("not transitive: %v <= %v <= %v but %v > %v", tr.A, tr.B, tr.C, tr.A, tr.C)
	}
	return ""
}

func TestC18_Triples(t *testing.T) {
	g := c18Grid()
	gen := rapid.OneOf(c18GenV(), rapid.SampledFrom(g))
	rapid.Check(t, func(rt *rapid.T) {
		a := gen.Draw(rt, "a")
		// b, c: fresh, or a with one component nudged (dense near ties)
		near := func(base c18V, l string) c18V {
			if rapid.Bool().Draw(rt, l+"fresh") {
				return gen.Draw(rt, l)
			}
			i := rapid.IntRange(0, 3).Draw(rt, l+"i")
			d := rapid.SampledFrom([]int{-1, 0, 1}).Draw(rt, l+"d")
			v := base
			if v[i]+d >= 0 {
				v[i] += d
			}
			return v
		}
		b := near(a, "b")
		c := near(b, "c")
		tr := c18Triple{a, b, c}
		if d := c18ExecTriple(tr); d != "" {
			violation(rt, "C18", "c18triple", tr, "%s", d)
		}
		nt := a != b && b != c && a != c
		record("C18", tr, nt, "triples")
	})
}

// ---- strings ----

type c18Str struct {
	V       c18V   `json:"v"`
	Form    int    `json:"form"` // 1: M  2: M.m  3: M.m.p  4: M.m.p-build  5: M.m.p-build-edition
	Edition string `json:"edition"`
	// Pad: minimum width of each component, filled with leading zeros (build numbers are published zero-padded: 7.2.0-0100);
	// the component denotes the same decimal number
	Pad [4]int `json:"pad,omitempty"`
}

func (s c18Str) format() string {
	if s.Pad != [4]int{} {
		p := func(i int) string { return fmt.Sprintf("%0*d", s.Pad[i], s.V[i]) }
		switch s.Form {
		case 1:
			return p(0)
		case 2:
			return p(0) + "." + p(1)
		case 3:
			return p(0) + "." + p(1) + "." + p(2)
		case 4:
			return p(0) + "." + p(1) + "." + p(2) + "-" + p(3)
		default:
			return p(0) + "." + p(1) + "." + p(2) + "-" + p(3) + "-" + s.Edition
		}
	}
	switch s.Form {
	case 1:
		return fmt.Sprintf("%d", s.V[0])
	case 2:
		return fmt.Sprintf("%d.%d", s.V[0], s.V[1])
	case 3:
		return fmt.Sprintf("%d.%d.%d", s.V[0], s.V[1], s.V[2])
	case 4:
		return fmt.Sprintf("%d.%d.%d-%d", s.V[0], s.V[1], s.V[2], s.V[3])
	default:
		return fmt.Sprintf("%d.%d.%d-%d-%s", s.V[0], s.V[1], s.V[2], s.V[3], s.Edition)
	}
}

func c18ExecStr(s c18Str) (d string) {
	str := s.format()
	defer func() {
		if r := recover(); r != nil {
			d = fmt.Sprintf("parse(%q): panic %v", str, r)
		}
	}()
	want := s.V
	for i := s.Form; i < 4 && s.Form < 4; i++ {
		want[i] = 0
	}
	got, err := couchbase.VerifParseVersion(str)
	if err != nil {
		return fmt.Sprintf("parse(%q): error %v", str, err)
	}
	gv := c18V{got.Major, got.Minor, got.Patch, got.Build}
	if gv != want {
		return fmt.Sprintf("parse(%q) = %v, denotes %v", str, gv, want)
	}
	return ""
}

func TestC18_ParseRoundTrip(t *testing.T) {
	// edition: no dot (a dot would split the version fields; real editions are enterprise/community)
	ed := rapid.OneOf(rapid.SampledFrom([]string{"enterprise", "community", "", "ee", "x-y"}), rapid.StringMatching(`[a-zA-Z0-9_-]{0,12}`))
	rapid.Check(t, func(rt *rapid.T) {
		s := c18Str{V: c18GenV().Draw(rt, "v"), Form: rapid.IntRange(1, 5).Draw(rt, "form"), Edition: ed.Draw(rt, "ed")}
		labs := []string{fmt.Sprintf("str_form%d", s.Form)}
		if rapid.IntRange(0, 2).Draw(rt, "padded") == 0 {
			for i := range s.Pad {
				s.Pad[i] = rapid.SampledFrom([]int{0, 0, 2, 4, 5}).Draw(rt, "pad")
			}
			for i := 0; i < 4; i++ {
				if s.V[i] < 0 {
					s.Pad = [4]int{} // (negative components are formatted as they are)
				}
			}
			if s.Pad != [4]int{} {
				labs = append(labs, "zero_padded_components")
			}
		}
		if d := c18ExecStr(s); d != "" {
			violation(rt, "C18", "c18str", s, "%s", d)
		}
		record("C18", s, s.Form >= 4 && s.V[3] != 0, labs...)
	})
}

func c18ExecMalformed(s string) (d string) {
	defer func() {
		if r := recover(); r != nil {
			d = fmt.Sprintf("parse(%q): panic %v", s, r)
		}
	}()
	v, err := couchbase.VerifParseVersion(s)
	if err == nil && v == nil {
		return fmt.Sprintf("parse(%q): neither a version nor an error", s)
	}
	if err == nil {
		// whatever was accepted must still obey the order laws against the gates
		x := c18V{v.Major, v.Minor, v.Patch, v.Build}
		return c18ExecPair(c18Pair{x, c18V{6, 5, 0, 0}})
	}
	return ""
}

func TestC18_Malformed(t *testing.T) {
	gen := rapid.OneOf(
		rapid.String(),
		rapid.StringMatching(`[0-9.\-a-z ]{0,20}`),
		rapid.StringMatching(`-?[0-9]{1,20}(\.-?[0-9]{0,20}){0,4}(-[0-9a-z]*){0,3}`),
	)
	rapid.Check(t, func(rt *rapid.T) {
		s := gen.Draw(rt, "s")
		if d := c18ExecMalformed(s); d != "" {
			violation(rt, "C18", "c18malformed", s, "%s", d)
		}
		record("C18", s, strings.ContainsAny(s, ".-"), "malformed")
	})
}

func FuzzC18Parse(f *testing.F) {
	for _, s := range []string{"7.2.0-5325-enterprise", "6.5.0", "5", "5.5", "", ".", "-", "7.6.3-4200", "1.2.3-4-5-6", "99999999999999999999.1", "7..0", "7.2.-0-1"} {
		f.Add(s)
	}
	f.Fuzz(func(t *testing.T, s string) {
		if d := c18ExecMalformed(s); d != "" {
			violation(t, "C18", "c18malformed", s, "%s", d)
		}
	})
}

func init() {
	registerReplay("c18pair", func(raw json.RawMessage) string {
		var p c18Pair
		if err := json.Unmarshal(raw, &p); err != nil {
			return err.Error()
		}
		return c18ExecPair(p)
	})
	registerReplay("c18triple", func(raw json.RawMessage) string {
		var p c18Triple
		if err := json.Unmarshal(raw, &p); err != nil {
			return err.Error()
		}
		return c18ExecTriple(p)
	})
	registerReplay("c18str", func(raw json.RawMessage) string {
		var p c18Str
		if err := json.Unmarshal(raw, &p); err != nil {
			return err.Error()
		}
		return c18ExecStr(p)
	})
	registerReplay("c18malformed", func(raw json.RawMessage) string {
		var p string
		if err := json.Unmarshal(raw, &p); err != nil {
			return err.Error()
		}
		return c18ExecMalformed(p)
	})
}
