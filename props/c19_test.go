package props

// C19 — health checking is fail-stop after five consecutive failures, and stoppable (DESIGN §5 C19).
// Every case runs the real couchbase.NewHealthCheck in a child process (the fail-stop is a panic on a
// library goroutine); the children mostly sleep in the library's hard-coded 1 s retry wait, so all
// cases of a unit run concurrently.

import (
	"context"
	"encoding/json"
	"fmt"
	"os"
	"strconv"
	"strings"
	"sync"
	"sync/atomic"
	"testing"
	"time"

	"github.com/Trendyol/go-dcp/config"
	"github.com/Trendyol/go-dcp/couchbase"
	"github.com/couchbase/gocbcore/v10"
	"pgregory.net/rapid"
)

type c19Scenario struct {
	Rounds     []string `json:"rounds"`      // per round: outcome of its pings, e.g. "FFS" (later pings: success)
	StartTwice bool     `json:"start_twice"` // Start called again right away and after the first round
	Stop       string   `json:"stop"`        // none | before_first_tick | in_retry | after_rounds
	StopOffMs  int      `json:"stop_off_ms"` // in_retry: offset into the retry wait after the first failure
	StopTwice  bool     `json:"stop_twice"`
	FastTick   bool     `json:"fast_tick"`          // 100 us interval: a tick is practically always pending when Stop is called
	ErrKind    int      `json:"err_kind,omitempty"` // rotates the kind of error the failing pings return (plain / deadline exceeded / canceled)
	PingMs     int      `json:"ping_ms,omitempty"`  // every scripted ping takes this long to answer (a ping that fails by timing out is slow)
	// IntervalMs > 0: the check interval (instead of 10 ms) - longer than a round with retries takes, as in production (1 min
	// by default): after a round that recovered no tick is pending. TailMs: how long the child goes on after the window.
	IntervalMs int `json:"interval_ms,omitempty"`
	TailMs     int `json:"tail_ms,omitempty"`
}

const c19IntervalMs = 10

// child: prints "PING <ms> <S|F>" per ping as it happens, "STOP <us>" when Stop returned.
func c19Child(raw json.RawMessage) any {
	var sc c19Scenario
	_ = json.Unmarshal(raw, &sc)
	var flat []byte
	for _, r := range sc.Rounds {
		flat = append(flat, r...)
	}
	t0 := time.Now()
	var mu sync.Mutex
	n := 0
	var stopped atomic.Bool
	firstFail := make(chan struct{}, 1)
	lastScripted := make(chan struct{}, 1)
	cl := newFakeClient(8)
	cl.pingFn = func() error {
		mu.Lock()
		i := n
		n++
		mu.Unlock()
		res := byte('S')
		if i < len(flat) {
			res = flat[i]
		}
		if stopped.Load() {
			fmt.Printf("PING_AFTER_STOP %d\n", time.Since(t0).Microseconds())
		}
		if !sc.FastTick || i < 5 {
			fmt.Printf("PING %d %c\n", time.Since(t0).Milliseconds(), res)
		}
		if sc.PingMs > 0 && i < len(flat) {
			time.Sleep(time.Duration(sc.PingMs) * time.Millisecond)
		}
		if i == len(flat)-1 {
			select {
			case lastScripted <- struct{}{}:
			default:
			}
		}
		if res == 'F' {
			select {
			case firstFail <- struct{}{}:
			default:
			}
			// the ways a ping fails: an ordinary error, or - the usual case against a hung cluster - the ping's own
			// deadline (client.Ping returns its context's error then)
			switch (i + sc.ErrKind) % 8 {
			case 4: // errors that "cannot be cured by retrying": the rule does not distinguish them
				return fmt.Errorf("injected ping failure #%d: %w", i, gocbcore.ErrAuthenticationFailure)
			case 5:
				return fmt.Errorf("injected ping failure #%d: %w", i, gocbcore.ErrBucketNotFound)
			case 6:
				return fmt.Errorf("injected ping failure #%d: %w", i, gocbcore.ErrShutdown)
			case 7:
				return fmt.Errorf("injected ping failure #%d: %w", i, gocbcore.ErrTimeout)
			case 3: // answered in time, but a service is unhealthy: client.Ping returns a partial result AND the error
				return partialPingError{fmt.Errorf("injected ping failure #%d: management endpoint unhealthy", i)}
			case 1:
				return fmt.Errorf("injected ping failure #%d: %w", i, context.DeadlineExceeded)
			case 2:
				return fmt.Errorf("injected ping failure #%d: %w", i, context.Canceled)
			}
			return fmt.Errorf("injected ping failure #%d", i)
		}
		return nil
	}
	interval := c19IntervalMs * time.Millisecond
	if sc.FastTick {
		interval = 100 * time.Microsecond
	}
	if sc.IntervalMs > 0 {
		interval = time.Duration(sc.IntervalMs) * time.Millisecond
	}
	hc := couchbase.NewHealthCheck(&config.HealthCheck{Interval: interval, Timeout: time.Second}, cl)
	hc.Start()
	if sc.StartTwice {
		hc.Start()
	}
	stop := func() {
		// (latencies are reported net of the time this process was held up meanwhile: a frozen machine is not a slow Stop)
		net := func(t0 time.Time) int64 {
			d := time.Since(t0)
			if d -= recentStall(d + 10*time.Millisecond); d < 0 {
				d = 0
			}
			return d.Microseconds()
		}
		s0 := time.Now()
		hc.Stop()
		stopped.Store(true) // set after Stop() returned: a ping that sees it was issued after the return
		fmt.Printf("STOP %d\n", net(s0))
		if sc.StopTwice {
			s1 := time.Now()
			hc.Stop()
			fmt.Printf("STOP2 %d\n", net(s1))
		}
	}
	switch sc.Stop {
	case "before_first_tick":
		stop()
	case "in_retry":
		select {
		case <-firstFail:
			time.Sleep(time.Duration(sc.StopOffMs) * time.Millisecond)
			stop()
		case <-time.After(10 * time.Second):
		}
	default:
		if len(flat) > 0 {
			select {
			case <-lastScripted:
			case <-time.After(30 * time.Second):
			}
		}
		if sc.StartTwice {
			hc.Start()
		}
		// a window of plain successful rounds: the ping rate
		if sc.FastTick {
			time.Sleep(20 * time.Millisecond)
		} else {
			time.Sleep(300 * time.Millisecond)
		}
		fmt.Printf("WINDOW_END %d\n", time.Since(t0).Milliseconds())
		if sc.Stop == "after_rounds" {
			stop()
		} else if sc.TailMs > 0 {
			time.Sleep(time.Duration(sc.TailMs) * time.Millisecond)
		}
	}
	if sc.Stop != "none" {
		fmt.Printf("QUIET_FROM %d\n", time.Since(t0).Milliseconds())
		time.Sleep(1500 * time.Millisecond) // longer than the retry wait: a surviving loop would ping again
	}
	return map[string]any{"done": true}
}

type c19Ping struct {
	ms  int64
	res byte
}

func c19Exec(sc c19Scenario) string {
	r := runChild("c19", sc, 60*time.Second)
	var pings []c19Ping
	stopUs, stop2Us, quietFrom, windowEnd := int64(-1), int64(-1), int64(-1), int64(-1)
	for _, l := range strings.Split(r.Stdout, "\n") {
		f := strings.Fields(l)
		if len(f) >= 2 {
			v, _ := strconv.ParseInt(f[1], 10, 64)
			switch f[0] {
			case "PING":
				pings = append(pings, c19Ping{v, f[2][0]})
			case "STOP":
				stopUs = v
			case "STOP2":
				stop2Us = v
			case "PING_AFTER_STOP":
				return fmt.Sprintf("a ping was issued after Stop() had returned (at %d us)", v)
			case "QUIET_FROM":
				quietFrom = v
			case "WINDOW_END":
				windowEnd = v
			}
		}
	}
	if r.TimeOut {
		return fmt.Sprintf("health check scenario did not finish (Stop hung?): stop=%dus pings=%d", stopUs, len(pings))
	}
	// walk the rounds
	mustDie := false
	idx := 0
	for ri, round := range sc.Rounds {
		if sc.Stop == "in_retry" && ri > 0 {
			break
		}
		for j := 0; j < len(round); j++ {
			if sc.Stop == "in_retry" && j > 0 {
				break // stopped inside the first retry wait
			}
			if idx >= len(pings) {
				if mustDie {
					break
				}
				return fmt.Sprintf("round %d (%s): ping %d was never issued (%d pings seen)", ri+1, round, j+1, len(pings))
			}
			if j > 0 {
				if gap := pings[idx].ms - pings[idx-1].ms; gap < 990 {
					return fmt.Sprintf("round %d (%s): retry %d came %d ms after the failed ping, the retry wait is 1 s", ri+1, round, j, gap)
				}
			}
			idx++
		}
		if round == "FFFFF" {
			mustDie = true
			break
		}
	}
	if sc.Stop == "in_retry" {
		mustDie = false
	}
	died := r.Exit != 0
	if mustDie != died {
		if mustDie {
			return fmt.Sprintf("five consecutive pings of one round failed (%v) but the process survived", sc.Rounds)
		}
		return fmt.Sprintf("no round had five consecutive failures (%v) but the process died (exit %d): %s", sc.Rounds, r.Exit, firstLine(r.Stderr))
	}
	if died {
		if !strings.Contains(r.Stderr, "injected ping failure") {
			return fmt.Sprintf("process died without the ping error: %s", firstLine(r.Stderr))
		}
		if len(pings) != idx {
			return fmt.Sprintf("%d pings issued, the fatal round ends after %d", len(pings), idx)
		}
		return ""
	}
	// a success ends the round without consequence: the pings after the scripted ones are plain rounds (1 ping per tick)
	// (Stop inside a retry wait: whether a retry was issued just before Stop() was called depends on the
	// offset; what is required is that none is issued after it returned - checked below against QUIET_FROM)
	if sc.Stop != "none" {
		if stopUs < 0 {
			return "Stop() never returned"
		}
		if stopUs > 900_000 {
			return fmt.Sprintf("Stop() took %d us (it must not sit out the retry wait)", stopUs)
		}
		if sc.StopTwice && (stop2Us < 0 || stop2Us > 900_000) {
			return fmt.Sprintf("second Stop() took %d us", stop2Us)
		}
		for _, p := range pings {
			if quietFrom >= 0 && p.ms > quietFrom {
				return fmt.Sprintf("ping at %d ms, after Stop() had returned (%d ms)", p.ms, quietFrom)
			}
		}
	}
	if sc.IntervalMs > 0 && sc.Stop == "none" && len(sc.Rounds) == 1 {
		// a round that recovered is without consequence: the next round starts with the next tick (one interval after the
		// tick that started the recovered round)
		nextTick := int64(2 * sc.IntervalMs)
		found := false
		for _, p := range pings[idx:] {
			found = found || (p.ms > nextTick-300 && p.ms < nextTick+700)
		}
		if !found {
			var at []int64
			for _, p := range pings {
				at = append(at, p.ms)
			}
			return fmt.Sprintf("interval %d ms: the round that began at the first tick recovered (%s); no ping at the next tick (%d ms) - pings at %v ms: the recovered round was not without consequence", sc.IntervalMs, sc.Rounds[0], nextTick, at)
		}
	}
	if windowEnd >= 0 && !sc.FastTick && sc.IntervalMs == 0 {
		// rate in the 300 ms window of successful rounds: one ping per tick, never more (also after repeated Start)
		cnt := 0
		for _, p := range pings[idx:] {
			if p.ms <= windowEnd && p.ms > windowEnd-300 {
				cnt++
			}
		}
		if max := 300/c19IntervalMs + 3; cnt > max {
			return fmt.Sprintf("%d pings in a 300 ms window at a %d ms interval (start_twice=%v): the ping rate doubled", cnt, c19IntervalMs, sc.StartTwice)
		}
	}
	return ""
}

func firstLine(s string) string {
	for _, l := range strings.Split(s, "\n") {
		if strings.HasPrefix(l, "panic:") {
			return l
		}
	}
	if len(s) > 200 {
		return s[:200]
	}
	return s
}

func c19Patterns() []string {
	var out []string
	for m := 0; m < 32; m++ {
		b := make([]byte, 5)
		for i := range b {
			b[i] = 'S'
			if m&(1<<i) != 0 {
				b[i] = 'F'
			}
		}
		out = append(out, string(b))
	}
	return out
}

// the pings of a round actually issued for a 5-outcome pattern: up to and including the first success
func c19Issued(p string) string {
	if i := strings.IndexByte(p, 'S'); i >= 0 {
		return p[:i+1]
	}
	return p
}

func runParallel(scs []c19Scenario) []string {
	out := make([]string, len(scs))
	var wg sync.WaitGroup
	sem := make(chan struct{}, 24)
	for i := range scs {
		wg.Add(1)
		go func(i int) {
			defer wg.Done()
			sem <- struct{}{}
			defer func() { <-sem }()
			out[i] = c19Exec(scs[i])
		}(i)
	}
	wg.Wait()
	return out
}

// all 2^5 success/failure patterns of a round, exhaustively
func TestC19_RoundsExhaustive(t *testing.T) {
	sh, nsh := shard()
	var scs []c19Scenario
	for i, p := range c19Patterns() {
		if i%nsh != sh {
			continue
		}
		scs = append(scs, c19Scenario{Rounds: []string{c19Issued(p)}, Stop: "after_rounds", StopTwice: i%2 == 0, StartTwice: i%3 == 0, ErrKind: i % 8})
		// the long rounds again with slow pings (a failing ping usually fails by timing out): the round then lasts longer
		// than five retry waits, and must still end only by its first success or its fifth failure
		if strings.HasPrefix(p, "FFF") {
			scs = append(scs, c19Scenario{Rounds: []string{c19Issued(p)}, Stop: "after_rounds", PingMs: []int{350, 700}[i%2]})
		}
	}
	for i, d := range runParallel(scs) {
		if d != "" {
			violation(t, "C19", "c19", scs[i], "%s", d)
		}
		addSample("C19", scs[i])
	}
	nt := int64(0)
	for _, s := range scs {
		if strings.Contains(s.Rounds[0], "F") {
			nt++
		}
	}
	recordEnum("C19", int64(len(scs)), nt, map[string]int64{"single_round_patterns": int64(len(scs))})
	markExhaustive("C19")
	addNote("C19", "all 32 success/failure patterns of one round enumerated (a round ends at its first success, so 6 distinct ping sequences; each of the 32 assignments is run)")
}

// sequences of rounds, Stop at generated points, repeated Start / Stop
func TestC19_Sequences(t *testing.T) {
	n := envInt("VERIF_C19_SEQ", scale(24, 300))
	sh, nsh := shard()
	var scs []c19Scenario
	seedT := &testing.T{}
	_ = seedT
	rapid.Check(t, func(rt *rapid.T) {
		if len(scs) > 0 {
			return // one generated batch per shard; the batch runs concurrently below
		}
		for i := 0; i < (n+nsh-1)/nsh; i++ {
			sc := c19Scenario{StartTwice: rapid.Bool().Draw(rt, "start2"), StopTwice: rapid.Bool().Draw(rt, "stop2"), ErrKind: rapid.IntRange(0, 7).Draw(rt, "errkind")}
			sc.Stop = rapid.SampledFrom([]string{"none", "before_first_tick", "in_retry", "in_retry", "after_rounds", "after_rounds", "after_rounds_fast", "after_rounds_fast"}).Draw(rt, "stop")
			switch sc.Stop {
			case "before_first_tick":
			case "after_rounds_fast":
				sc.Stop, sc.FastTick = "after_rounds", true
			case "in_retry":
				sc.Rounds = []string{"F" + rapid.SampledFrom([]string{"S", "FS", "FFFF"}).Draw(rt, "rest")}
				sc.StopOffMs = rapid.SampledFrom([]int{0, 1, 100, 500, 900, 980}).Draw(rt, "off")
			default:
				budget := 6 // total failures: every failure costs the library's 1 s retry wait
				k := rapid.IntRange(1, 3).Draw(rt, "nrounds")
				for j := 0; j < k; j++ {
					f := rapid.IntRange(0, 5).Draw(rt, "fails")
					if f > budget {
						f = budget
					}
					budget -= f
					if f == 5 {
						sc.Rounds = append(sc.Rounds, "FFFFF")
						break
					}
					sc.Rounds = append(sc.Rounds, strings.Repeat("F", f)+"S")
				}
				if !sc.FastTick {
					sc.PingMs = rapid.SampledFrom([]int{0, 0, 0, 120, 400}).Draw(rt, "pingms")
				}
			}
			scs = append(scs, sc)
		}
		// production-like intervals (longer than a round with retries): Stop() shortly after a round that recovered, and
		// the round after a recovered one
		for i, k := 0, scale(2, 6); i < k; i++ {
			r := strings.Repeat("F", rapid.IntRange(1, 2).Draw(rt, "lfails")) + "S"
			if i%2 == 0 {
				scs = append(scs, c19Scenario{Rounds: []string{r}, Stop: "after_rounds", IntervalMs: rapid.SampledFrom([]int{4000, 5000}).Draw(rt, "linterval"), ErrKind: rapid.IntRange(0, 7).Draw(rt, "lerrkind")})
			} else {
				iv := rapid.SampledFrom([]int{2500, 3000}).Draw(rt, "linterval2")
				scs = append(scs, c19Scenario{Rounds: []string{r}, Stop: "none", IntervalMs: iv, TailMs: 2*iv - (iv + 1000*(len(r)-1)) + 600, ErrKind: rapid.IntRange(0, 7).Draw(rt, "lerrkind")})
			}
		}
	})
	_ = sh
	for i, d := range runParallel(scs) {
		if d != "" {
			violation(t, "C19", "c19", scs[i], "%s", d)
		}
		fails := 0
		for _, r := range scs[i].Rounds {
			fails += strings.Count(r, "F")
		}
		if scs[i].PingMs > 0 {
			record("C19", scs[i], false, "slow_pings")
		}
		lab := "stop_" + scs[i].Stop
		if scs[i].FastTick {
			lab += "_fast_tick"
		}
		if scs[i].IntervalMs > 0 {
			lab += "_long_interval"
		}
		record("C19", scs[i], len(scs[i].Rounds) >= 2 || scs[i].Stop == "in_retry" || scs[i].FastTick, "sequence_cases", lab)
		_ = fails
	}
}

// ---- the checker stops on every way out of the client (real dcp.Start on the interface-level client, child process) ----
// Dcp.Close(), a termination signal, and the client stopping by itself because every stream ended: after Start() has
// returned no ping is issued any more, whichever way the client was stopped.
func TestC19_ShutdownPaths(t *testing.T) {
	n := scale(24, 240)
	_, nsh := shard()
	var scs []c13Scenario
	rapid.Check(t, func(rt *rapid.T) {
		if len(scs) > 0 {
			return
		}
		for i := 0; i < (n+nsh-1)/nsh; i++ {
			sc := c13Scenario{State: "idle", Health: true, NVb: rapid.SampledFrom([]int{1, 2, 4}).Draw(rt, "nvb"), Events: []int{1}, Acked: []int{1},
				Auto: rapid.Bool().Draw(rt, "auto"), DelayMs: 40}
			switch rapid.SampledFrom([]string{"close", "signal", "streams_end", "signal", "streams_end"}).Draw(rt, "path") {
			case "signal":
				sc.Signal = true
			case "streams_end":
				sc.StreamsEnd = true
			}
			scs = append(scs, sc)
		}
	})
	out := make([]string, len(scs))
	var wg sync.WaitGroup
	sem := make(chan struct{}, 8)
	for i := range scs {
		wg.Add(1)
		go func(i int) {
			defer wg.Done()
			sem <- struct{}{}
			defer func() { <-sem }()
			out[i] = c19ExecShutdown(scs[i])
		}(i)
	}
	wg.Wait()
	for i, d := range out {
		if strings.HasPrefix(d, "HARNESS:") {
			t.Fatalf("harness trouble: %s (%+v)", d, scs[i])
		}
		if d != "" {
			violation(t, "C19", "c19shutdown", scs[i], "%s", d)
		}
		path := "close"
		if scs[i].Signal {
			path = "signal"
		}
		if scs[i].StreamsEnd {
			path = "streams_end"
		}
		record("C19", scs[i], path != "close", "shutdown_path_cases", "shutdown_by_"+path)
	}
}

func c19ExecShutdown(sc c13Scenario) string {
	r := runChild("c13", sc, 90*time.Second)
	path := "Dcp.Close()"
	if sc.Signal {
		path = "a termination signal"
	}
	if sc.StreamsEnd {
		path = "the end of every vBucket stream"
	}
	if r.TimeOut {
		return "HARNESS: shutdown scenario hung"
	}
	if r.Exit != 0 {
		if strings.Contains(r.Stderr, "healthcheck.go") {
			return fmt.Sprintf("after the client was stopped by %s the health check went on and took the process down: %s", path, firstLine(r.Stderr))
		}
		return "HARNESS: child crashed: " + firstLine(r.Stderr)
	}
	var res c13Result
	if err := json.Unmarshal(r.Result, &res); err != nil || !res.Ready || !res.CloseReturned {
		return "HARNESS: no usable result from the child: " + r.Stdout
	}
	if res.PingsAfter != 0 {
		return fmt.Sprintf("%d pings were issued after the client had been stopped by %s and Start() had returned: the health check was not stopped", res.PingsAfter, path)
	}
	for _, l := range res.Leftover {
		if strings.Contains(l, "healthCheck") {
			return fmt.Sprintf("the health check goroutine is still alive after the client was stopped by %s: %s", path, l)
		}
	}
	return ""
}

func init() {
	registerReplay("c19shutdown", func(raw json.RawMessage) string {
		var sc c13Scenario
		if err := json.Unmarshal(raw, &sc); err != nil {
			return err.Error()
		}
		d := c19ExecShutdown(sc)
		if strings.HasPrefix(d, "HARNESS:") {
			return ""
		}
		return d
	})
}

func init() {
	registerChild("c19", c19Child)
	registerReplay("c19", func(raw json.RawMessage) string {
		var sc c19Scenario
		if err := json.Unmarshal(raw, &sc); err != nil {
			return err.Error()
		}
		return c19Exec(sc)
	})
	_ = os.Getpid
}
