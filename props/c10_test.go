package props

// C10 — group members derive a consistent, collision-free numbering (DESIGN §5 C10).
//  (a) Couchbase heart-beat variant on Layer B: up to 6 real NewCBMembership instances on one simulated
//      bucket, histories of joins and departures separated by quiescence (child process per history: a
//      member that loses itself panics on a library goroutine)
//  (b) leader-assigned variant: real serviceDiscovery as leader with fake follower clients that forward to
//      real follower-side serviceDiscovery objects (5 s rounds are hard-coded: cases run concurrently)
//  (c) static / dynamic membership relay the configured / last announced numbers; the API and
//      serviceDiscovery announce only on change

import (
	"bytes"
	"encoding/json"
	"fmt"
	"github.com/Trendyol/go-dcp/leaderelector"
	"github.com/Trendyol/go-dcp/stream"
	"net"
	"net/http"
	"sort"
	"strings"
	"sync"
	"testing"
	"time"

	"github.com/Trendyol/go-dcp/api"
	"github.com/Trendyol/go-dcp/config"
	"github.com/Trendyol/go-dcp/couchbase"
	"github.com/Trendyol/go-dcp/helpers"
	"github.com/Trendyol/go-dcp/membership"
	"github.com/Trendyol/go-dcp/models"
	"github.com/Trendyol/go-dcp/servicediscovery"
	"github.com/asaskevich/EventBus"
	"github.com/couchbase/gocbcore/v10/memd"
	"github.com/prometheus/client_golang/prometheus"
	"pgregory.net/rapid"

	"verif/simnode"
)

// ---------- (a) couchbase heart-beat membership ----------

type c10Op struct {
	Join  bool `json:"join,omitempty"`
	Leave int  `json:"leave,omitempty"` // index (cyclic) into the currently live members, in join order
	// Swap (last op of a history, >= 2 live members): the member at index 1 + Swap%(live-1) disappears (its instance
	// document is gone: expired) and, within the same monitor round of the others, a new instance has registered (its
	// document and index entry are written on the node). The set of instances changes, the group size does not, and every
	// member that joined before the one that left keeps its number.
	Swap int `json:"swap,omitempty"`
	// Stall (last op of a history, >= 2 live members): from now on the node refuses the heart-beat writes of the member at
	// index Stall%live while its process goes on (reads work). The others drop it; it must not go on holding its number: its
	// process fail-stops ("cant find self in cluster") - a member that kept k/N would share vBuckets with the renumbered rest.
	Stall int `json:"stall,omitempty"`
}

type c10CB struct {
	Ops []c10Op `json:"ops"`
}

type c10Member struct {
	key     string // its instance document
	id      int
	ms      membership.Membership
	bus     EventBus.Bus
	mu      sync.Mutex
	pubs    []membership.Model
	joinSeq int
}

const (
	c10Heartbeat = 20 * time.Millisecond
	c10Monitor   = 30 * time.Millisecond
	c10Tolerance = 1500 * time.Millisecond
)

type c10CBResult struct {
	Violation string            `json:"violation"`
	Rounds    []string          `json:"rounds"`
	Pubs      map[string]string `json:"pubs"`
	Keys      []string          `json:"keys"`
	Timing    bool              `json:"timing"`  // convergence not reached in the generous bound: inconclusive
	Settled   [][2]int          `json:"settled"` // (member number, group size) every live member holds when the history ends
}

func c10Child(raw json.RawMessage) any {
	var sc c10CB
	_ = json.Unmarshal(raw, &sc)
	res := &c10CBResult{Pubs: map[string]string{}}
	e := newLBFresh(1, 64, 0)
	mkcfg := func() *config.Dcp {
		cfg := lbConfig()
		cfg.Dcp.Group.Name = "grp"
		cfg.Dcp.Group.Membership.Type = membership.CouchbaseMembershipType
		cfg.Dcp.Group.Membership.RebalanceDelay = time.Millisecond
		cfg.Dcp.Group.Membership.Config = map[string]string{
			"heartbeatInterval": c10Heartbeat.String(), "monitorInterval": c10Monitor.String(),
			"heartbeatToleranceDuration": c10Tolerance.String(), "timeout": "3s", "expirySeconds": "120",
		}
		return cfg
	}
	var live []*c10Member
	nextID := 0
	fakes := 0 // instances that exist only as documents on the node (they joined last)
	quiesce := func(step int) bool {
		// all live members' last published model stable and consistent for 3 monitor rounds; bound: tolerance + 60 rounds
		deadline := time.Now().Add(c10Tolerance + c10Heartbeat + 60*c10Monitor + 2*time.Second)
		stableSince := time.Time{}
		last := ""
		for {
			var parts []string
			ok := true
			for rank, m := range live {
				m.mu.Lock()
				n := len(m.pubs)
				var cur membership.Model
				if n > 0 {
					cur = m.pubs[n-1]
				}
				m.mu.Unlock()
				parts = append(parts, fmt.Sprintf("%d:%d/%d", m.id, cur.MemberNumber, cur.TotalMembers))
				if n == 0 || cur.TotalMembers != len(live)+fakes || cur.MemberNumber != rank+1 {
					ok = false
				}
			}
			res.Settled = res.Settled[:0]
			for _, m := range live {
				m.mu.Lock()
				if n := len(m.pubs); n > 0 {
					res.Settled = append(res.Settled, [2]int{m.pubs[n-1].MemberNumber, m.pubs[n-1].TotalMembers})
				} else {
					res.Settled = append(res.Settled, [2]int{0, 0})
				}
				m.mu.Unlock()
			}
			cur := strings.Join(parts, " ")
			if cur != last {
				last, stableSince = cur, time.Now()
			}
			if ok && time.Since(stableSince) >= 3*c10Monitor {
				res.Rounds = append(res.Rounds, fmt.Sprintf("step %d: %s", step, cur))
				return true
			}
			if deadlinePassed(deadline) {
				res.Rounds = append(res.Rounds, fmt.Sprintf("step %d: NOT CONVERGED: %s (want ranks 1..%d by join order)", step, cur, len(live)))
				// is it a wrong-but-stable numbering (violation) or merely slow (inconclusive)?
				if time.Since(stableSince)-3*recentStall(2*time.Minute) >= 10*c10Monitor && len(live) > 0 {
					res.Violation = fmt.Sprintf("after step %d the %d live members settled on [%s]; same group size and pairwise distinct numbers 1..%d in join order are required", step, len(live), cur, len(live))
				} else {
					res.Timing = true
				}
				return false
			}
			time.Sleep(5 * time.Millisecond)
		}
	}
	for step, op := range sc.Ops {
		if op.Stall > 0 && len(live) >= 2 && step == len(sc.Ops)-1 {
			v := live[op.Stall%len(live)]
			if v.key == "" {
				res.Timing = true
				break
			}
			e.c.Lock()
			e.c.Hook = func(en *simnodeEntry) simnodeAction {
				if en.Key == v.key && isKVWrite(en.Cmd) {
					return simnodeAction{Kind: simnodeStatus, Status: memd.StatusInternalError}
				}
				return simnodeAction{}
			}
			e.c.Unlock()
			fmt.Printf("STALLED %d\n", v.id)
			// the others drop it after heart-beat interval + tolerance; its own next monitor round does not find it either
			rest := make([]*c10Member, 0, len(live))
			for _, m := range live {
				if m != v {
					rest = append(rest, m)
				}
			}
			live = rest
			if !quiesce(step) {
				break
			}
			time.Sleep(10 * c10Monitor)
			var info *membership.Model
			within(5*time.Second, func() { info = v.ms.GetInfo() })
			if info != nil {
				res.Violation = fmt.Sprintf("member %d stopped heart-beating (its writes are refused, its process lives) and was dropped by the others, who renumbered to %d members - it goes on as %d/%d: vBuckets have two owners", v.id, len(live), info.MemberNumber, info.TotalMembers)
			}
			live = append(live, v) // (closed with the rest below)
			res.Rounds = append(res.Rounds, "stalled member survived")
			for _, m := range live {
				m.ms.Close()
			}
			return res
		}
		if op.Swap > 0 && len(live) >= 2 && step == len(sc.Ops)-1 {
			i := 1 + op.Swap%(len(live)-1)
			before := map[int]int{}
			for _, m := range live[:i] {
				m.mu.Lock()
				before[m.id] = len(m.pubs)
				m.mu.Unlock()
			}
			live[i].ms.Close()
			// (a document expires long after its owner's last heart-beat: no monitor round of the member that left is still in
			// flight then. Let the one that may be drain before its document disappears - it would look for itself in vain.)
			time.Sleep(3 * c10Monitor)
			allKey := reservedPrefix + "grp:instance:all"
			e.c.Lock()
			idx := e.c.Docs[allKey]
			all := map[string]int64{}
			if idx != nil {
				_ = json.Unmarshal(idx.Body, &all)
			}
			ids := make([]string, 0, len(all))
			for k := range all {
				ids = append(ids, k)
			}
			sort.SliceStable(ids, func(a, b int) bool { return all[ids[a]] < all[ids[b]] })
			swapped := false
			if idx != nil && len(ids) == len(live) {
				now := time.Now().UnixNano()
				delete(e.c.Docs, ids[i])
				delete(all, ids[i])
				fake := reservedPrefix + "grp:instance:node-side-" + fmt.Sprint(step)
				all[fake] = now
				body, _ := json.Marshal(map[string]any{"type": "instance", "heartbeatTime": now + int64(time.Hour), "clusterJoinTime": now})
				e.c.Docs[fake] = &simnode.Doc{Body: body, Cas: uint64(now)}
				idx.Body, _ = json.Marshal(all)
				idx.Cas++
				swapped = true
			}
			e.c.Unlock()
			live = append(live[:i:i], live[i+1:]...)
			if !swapped {
				res.Timing = true // the index does not list exactly the live members: not the situation asked for
				break
			}
			fakes++
			if !quiesce(step) {
				break
			}
			// the members that joined before the one that left keep number and group size: nothing to announce
			for _, m := range live[:i] {
				m.mu.Lock()
				if len(m.pubs) != before[m.id] && res.Violation == "" {
					res.Violation = fmt.Sprintf("member %d kept its number and the group its size (another instance left and a new one registered within one monitor round), yet it announced %v again: a notification repeating the membership in effect", m.id, m.pubs[before[m.id]:])
				}
				m.mu.Unlock()
			}
			break
		}
		if op.Join || len(live) == 0 {
			m := &c10Member{id: nextID, bus: EventBus.New()}
			nextID++
			_ = m.bus.Subscribe(helpers.MembershipChangedBusEventName, func(model *membership.Model) {
				m.mu.Lock()
				m.pubs = append(m.pubs, *model)
				m.mu.Unlock()
			})
			cfg := mkcfg()
			known := map[string]bool{}
			e.c.Lock()
			for k := range e.c.Docs {
				known[k] = true
			}
			e.c.Unlock()
			m.ms = couchbase.NewCBMembership(cfg, couchbase.VerifNewClient(cfg, e.agent, e.agent, e.dcp), m.bus)
			for dl := time.Now().Add(time.Second); m.key == "" && !deadlinePassed(dl); time.Sleep(time.Millisecond) {
				e.c.Lock()
				for k := range e.c.Docs {
					if !known[k] && strings.HasPrefix(k, reservedPrefix+"grp:instance:") && !strings.HasSuffix(k, ":all") {
						m.key = k
					}
				}
				e.c.Unlock()
			}
			live = append(live, m)
			time.Sleep(2 * time.Millisecond) // join times are distinct by construction
		} else {
			i := op.Leave % len(live)
			live[i].ms.Close() // the library does not deregister: a graceful leave and a silent death look the same
			live = append(live[:i:i], live[i+1:]...)
		}
		if !quiesce(step) {
			break
		}
		// GetInfo of every live member agrees with what it last announced
		for rank, m := range live {
			var info *membership.Model
			if ok, _ := within(5*time.Second, func() { info = m.ms.GetInfo() }); !ok || info == nil {
				res.Violation = fmt.Sprintf("member %d: GetInfo() does not return at quiescence", m.id)
				break
			}
			if info.MemberNumber != rank+1 || info.TotalMembers != len(live)+fakes {
				res.Violation = fmt.Sprintf("member %d: GetInfo() = %d/%d at quiescence, want %d/%d", m.id, info.MemberNumber, info.TotalMembers, rank+1, len(live))
			}
		}
		if res.Violation != "" {
			break
		}
	}
	// a numbering is announced only when it differs from the one in effect
	for _, m := range live {
		m.mu.Lock()
		var s []string
		for i, p := range m.pubs {
			s = append(s, fmt.Sprintf("%d/%d", p.MemberNumber, p.TotalMembers))
			if i > 0 && p == m.pubs[i-1] && res.Violation == "" {
				res.Violation = fmt.Sprintf("member %d announced %d/%d twice in a row", m.id, p.MemberNumber, p.TotalMembers)
			}
		}
		res.Pubs[fmt.Sprint(m.id)] = strings.Join(s, " ")
		m.mu.Unlock()
		m.ms.Close()
	}
	for _, en := range e.c.Log() {
		if isKVWrite(en.Cmd) && !strings.HasPrefix(en.Key, reservedPrefix+"grp:instance:") && res.Violation == "" {
			res.Violation = fmt.Sprintf("membership wrote key %q outside %q", en.Key, reservedPrefix+"grp:instance:")
		}
	}
	return res
}

func c10ExecCB(sc c10CB) (detail string, timing bool) {
	r := runChild("c10cb", sc, 120*time.Second)
	if r.TimeOut {
		return "membership history hung", false
	}
	if r.Exit != 0 && len(sc.Ops) > 0 && sc.Ops[len(sc.Ops)-1].Stall > 0 && strings.Contains(r.Stdout, "STALLED ") && strings.Contains(r.Stderr, "cant find self in cluster") {
		return "", false // the dropped member fenced itself (fail-stop): it does not go on holding a number
	}
	if r.Exit != 0 {
		return fmt.Sprintf("a member process died (exit %d): %s", r.Exit, firstLine(r.Stderr)), false
	}
	var res c10CBResult
	if err := json.Unmarshal(r.Result, &res); err != nil {
		return "HARNESS: no result: " + r.Stdout, false
	}
	if res.Violation != "" {
		return res.Violation + " | " + strings.Join(res.Rounds, " ; "), false
	}
	return "", res.Timing
}

func TestC10_Couchbase(t *testing.T) {
	n := scale(24, 2400)
	_, nsh := shard()
	var scs []c10CB
	rapid.Check(t, func(rt *rapid.T) {
		if len(scs) > 0 {
			return
		}
		for i := 0; i < (n+nsh-1)/nsh; i++ {
			sc := c10CB{}
			k := rapid.IntRange(2, 7).Draw(rt, "nops")
			liveN := 0
			for j := 0; j < k; j++ {
				if liveN < 2 || (liveN < 6 && rapid.IntRange(0, 2).Draw(rt, "join") > 0) {
					sc.Ops = append(sc.Ops, c10Op{Join: true})
					liveN++
				} else {
					sc.Ops = append(sc.Ops, c10Op{Leave: rapid.IntRange(0, liveN-1).Draw(rt, "who")})
					liveN--
				}
			}
			if liveN >= 2 && rapid.IntRange(0, 2).Draw(rt, "swap") == 0 {
				sc.Ops = append(sc.Ops, c10Op{Swap: rapid.IntRange(1, 8).Draw(rt, "swapwho")})
			} else if liveN >= 2 && rapid.IntRange(0, 2).Draw(rt, "stall") == 0 {
				sc.Ops = append(sc.Ops, c10Op{Stall: rapid.IntRange(1, 8).Draw(rt, "stallwho")})
			}
			scs = append(scs, sc)
		}
	})
	out := make([]string, len(scs))
	tim := make([]bool, len(scs))
	var wg sync.WaitGroup
	sem := make(chan struct{}, 8)
	for i := range scs {
		wg.Add(1)
		go func(i int) {
			defer wg.Done()
			sem <- struct{}{}
			defer func() { <-sem }()
			out[i], tim[i] = c10ExecCB(scs[i])
			if tim[i] || strings.Contains(out[i], "died") {
				// slow convergence / a live member declared dead by scheduler noise: only a repeated miss is reported
				out[i], tim[i] = c10ExecCB(scs[i])
			}
		}(i)
	}
	wg.Wait()
	for i, d := range out {
		if strings.HasPrefix(d, "HARNESS") {
			t.Fatalf("harness trouble: %s", d)
		}
		if tim[i] {
			countDiscarded("C10")
			continue
		}
		if d != "" {
			violation(t, "C10", "c10cb", scs[i], "%s", d)
		}
		joins, nonLast := 0, false
		liveN := 0
		for _, op := range scs[i].Ops {
			if op.Swap > 0 || op.Stall > 0 {
				continue
			}
			if op.Join || liveN == 0 {
				joins++
				liveN++
			} else {
				if op.Leave%liveN != liveN-1 {
					nonLast = true
				}
				liveN--
			}
		}
		labs := []string{"couchbase_histories"}
		if n := len(scs[i].Ops); n > 0 && scs[i].Ops[n-1].Swap > 0 {
			labs = append(labs, "instance_swapped_within_one_round")
		}
		stall := false
		if n := len(scs[i].Ops); n > 0 && scs[i].Ops[n-1].Stall > 0 {
			labs = append(labs, "member_heartbeats_refused_while_its_process_lives")
			stall = true
		}
		record("C10", scs[i], (joins >= 3 && nonLast) || stall, labs...)
	}
}

// ---------- (b) leader-assigned numbering ----------

type c10Follower struct {
	JoinTime int64 `json:"join_time"`
	PingFail int   `json:"ping_fail"` // fails ping from this heartbeat round on (0 = never)
	// RpcFail: the r-th assignment RPC the leader sends to this follower fails (transiently; the follower stays alive
	// and registered). Restart r>0: between monitor rounds r and r+1 the follower's process is replaced by a new one
	// that registers under the same name (join time RestartJoin).
	RpcFail     []int `json:"rpc_fail,omitempty"`
	Restart     int   `json:"restart,omitempty"`
	RestartJoin int64 `json:"restart_join,omitempty"`
}

type c10Leader struct {
	Followers []c10Follower `json:"followers"`
	Rounds    int           `json:"rounds"` // monitor rounds observed (5 s each, hard-coded in the library)
	// EarlyRegs: this many followers have registered with the node BEFORE its "you are the leader now" callback runs
	// (the elector makes an API call before invoking the handler, other pods register as soon as they see the lease)
	EarlyRegs int `json:"early_regs,omitempty"`
}

type fakeFollower struct {
	name   string
	mu     sync.Mutex
	calls  [][2]int
	rpcs   int
	rpcBad map[int]bool
	pings  int
	failAt int
	closed bool
	target servicediscovery.ServiceDiscovery // the follower's own (real) service discovery
}

func (f *fakeFollower) Close() error { f.mu.Lock(); f.closed = true; f.mu.Unlock(); return nil }
func (f *fakeFollower) Ping() error {
	f.mu.Lock()
	defer f.mu.Unlock()
	f.pings++
	if f.failAt > 0 && f.pings >= f.failAt {
		return fmt.Errorf("follower %s unreachable", f.name)
	}
	return nil
}
func (f *fakeFollower) Register() error   { return nil }
func (f *fakeFollower) IsConnected() bool { return true }
func (f *fakeFollower) Reconnect() error  { return nil }
func (f *fakeFollower) Rebalance(m, t int) error {
	f.mu.Lock()
	f.rpcs++
	if f.rpcBad[f.rpcs] {
		f.mu.Unlock()
		return fmt.Errorf("rebalance rpc to %s failed", f.name)
	}
	f.calls = append(f.calls, [2]int{m, t})
	f.mu.Unlock()
	f.target.SetInfo(m, t) // what the follower's RPC handler does
	return nil
}

func c10ExecLeader(sc c10Leader) string {
	d, _ := c10ExecLeaderGroup(sc, 0)
	return d
}

// c10ExecLeaderGroup: numbering check (first result); with numVb > 0 every member additionally owns a real vBucket
// discovery object on its own bus (kubernetesHa membership) and the sets they report at the end must partition
// 0..numVb-1 (second result, C09).
func c10ExecLeaderGroup(sc c10Leader, numVb int) (string, string) {
	r, part := c10ExecLeaderInner(sc, numVb)
	return r, part
}

func c10ExecLeaderInner(sc c10Leader, numVb int) (numbering string, partition string) {
	haCfg := laConfig()
	haCfg.Dcp.Group.Membership.Type = membership.KubernetesHaMembershipType
	discs := map[string]stream.VBucketDiscovery{}
	var dmu sync.Mutex
	newDisc := func(name string, b EventBus.Bus) {
		if numVb > 0 {
			dmu.Lock()
			discs[name] = stream.NewVBucketDiscovery(nil, haCfg, numVb, b)
			dmu.Unlock()
		}
	}
	defer func() {
		if numVb == 0 {
			return
		}
		// every member that holds a numbering reports its vBuckets; together they must partition the bucket
		owner := make([]string, numVb)
		dmu.Lock()
		defer dmu.Unlock()
		names := make([]string, 0, len(discs))
		for n := range discs {
			names = append(names, n)
		}
		sort.Strings(names)
		for _, n := range names {
			var got []uint16
			if ok, _ := within(300*time.Millisecond, func() { got = discs[n].Get() }); !ok {
				continue // no numbering yet (judged by the numbering check)
			}
			for _, v := range got {
				if owner[v] != "" && partition == "" {
					partition = fmt.Sprintf("vBucket %d is owned by both %s and %s at the end of the history", v, owner[v], n)
				}
				owner[v] = n
			}
		}
		for v, o := range owner {
			if o == "" && partition == "" {
				// (a live member that was never given a numbering streams nothing: its share of the bucket is nobody's)
				partition = fmt.Sprintf("vBucket %d has no owner at the end of the history", v)
			}
		}
	}()
	numbering = c10ExecLeaderCore(sc, newDisc, func(name string) {
		dmu.Lock()
		delete(discs, name)
		dmu.Unlock()
	})
	return
}

func c10ExecLeaderCore(sc c10Leader, newDisc func(string, EventBus.Bus), dropDisc func(string)) string {
	cfg := laConfig()
	cfg.Dcp.Group.Membership.RebalanceDelay = time.Millisecond
	bus := EventBus.New()
	var lmu sync.Mutex
	var leaderPubs []membership.Model
	_ = bus.Subscribe(helpers.MembershipChangedBusEventName, func(m *membership.Model) {
		lmu.Lock()
		leaderPubs = append(leaderPubs, *m)
		lmu.Unlock()
	})
	sd := servicediscovery.NewServiceDiscovery(cfg, bus)
	newDisc("leader", bus)
	// leadership arrives through the elector's callback, as in production
	handler, isHandler := stream.NewLeaderElection(cfg, sd, bus).(leaderelector.Handler)
	becomeLeader := func() {
		if isHandler {
			handler.OnBecomeLeader()
		} else {
			sd.BeLeader()
		}
	}
	if sc.EarlyRegs <= 0 {
		becomeLeader()
	}
	var fs []*fakeFollower
	followerPubs := map[string]*[]membership.Model{}
	var fmu sync.Mutex
	for i, f := range sc.Followers {
		fb := EventBus.New()
		name := fmt.Sprintf("f%d", i)
		pubs := &[]membership.Model{}
		followerPubs[name] = pubs
		_ = fb.Subscribe(helpers.MembershipChangedBusEventName, func(m *membership.Model) {
			fmu.Lock()
			*pubs = append(*pubs, *m)
			fmu.Unlock()
		})
		newDisc(name, fb)
		ff := &fakeFollower{name: name, failAt: f.PingFail, target: servicediscovery.NewServiceDiscovery(cfg, fb), rpcBad: map[int]bool{}}
		for _, r := range f.RpcFail {
			ff.rpcBad[r] = true
		}
		fs = append(fs, ff)
		sd.Add(servicediscovery.NewService(ff, name, f.JoinTime))
		if sc.EarlyRegs > 0 && i+1 == sc.EarlyRegs {
			becomeLeader()
		}
	}
	if sc.EarlyRegs > len(sc.Followers) {
		becomeLeader()
	}
	sd.StartHeartbeat()
	sd.StartMonitor()
	t0 := time.Now()
	for i, f := range sc.Followers {
		if f.Restart > 0 && f.Restart < sc.Rounds {
			i, f := i, f
			go func() {
				// half-way between two monitor rounds: a new process registers under the old name
				time.Sleep(time.Until(t0.Add(time.Duration(f.Restart)*5*time.Second + 2500*time.Millisecond)))
				fb := EventBus.New()
				name := fmt.Sprintf("f%d", i)
				pubs := &[]membership.Model{}
				_ = fb.Subscribe(helpers.MembershipChangedBusEventName, func(m *membership.Model) {
					fmu.Lock()
					*pubs = append(*pubs, *m)
					fmu.Unlock()
				})
				newDisc(name, fb) // the new process has its own discovery object (replaces the dead one's)
				nf := &fakeFollower{name: name, target: servicediscovery.NewServiceDiscovery(cfg, fb), rpcBad: map[int]bool{}}
				fmu.Lock()
				followerPubs[name] = pubs
				fs[i] = nf
				fmu.Unlock()
				sd.Add(servicediscovery.NewService(nf, name, f.RestartJoin))
			}()
		}
	}
	time.Sleep(time.Duration(sc.Rounds)*5*time.Second + 700*time.Millisecond)
	sd.StopMonitor()
	sd.StopHeartbeat()
	// expectation after the last round: followers that failed a ping in an earlier heartbeat round are gone
	type fl struct {
		i    int
		join int64
	}
	var alive []fl
	for i, f := range sc.Followers {
		// heartbeat round r (at 5r s) issues ping number r; the monitor round at 5r+ s already sees the removal
		if f.PingFail == 0 || f.PingFail > sc.Rounds {
			jt := f.JoinTime
			if f.Restart > 0 && f.Restart < sc.Rounds {
				jt = f.RestartJoin
			}
			alive = append(alive, fl{i, jt})
		}
	}
	for i, f := range sc.Followers {
		if !(f.PingFail == 0 || f.PingFail > sc.Rounds) {
			dropDisc(fmt.Sprintf("f%d", i)) // a dead process owns nothing
		}
	}
	sort.SliceStable(alive, func(a, b int) bool { return alive[a].join < alive[b].join })
	total := len(alive) + 1
	lmu.Lock()
	lp := append([]membership.Model(nil), leaderPubs...)
	lmu.Unlock()
	if len(lp) == 0 {
		return "the leader never announced its own numbering"
	}
	if last := lp[len(lp)-1]; last.MemberNumber != 1 || last.TotalMembers != total {
		return fmt.Sprintf("leader announced %d/%d, want 1/%d (%d followers alive)", last.MemberNumber, last.TotalMembers, total, len(alive))
	}
	for i := 1; i < len(lp); i++ {
		if lp[i] == lp[i-1] {
			return fmt.Sprintf("leader announced %d/%d twice in a row (announce only on change)", lp[i].MemberNumber, lp[i].TotalMembers)
		}
	}
	seen := map[int]string{1: "leader"}
	for rank, a := range alive {
		fmu.Lock()
		f := fs[a.i]
		fmu.Unlock()
		f.mu.Lock()
		calls := append([][2]int(nil), f.calls...)
		f.mu.Unlock()
		if len(calls) == 0 {
			return fmt.Sprintf("follower %s was never assigned a number", f.name)
		}
		last := calls[len(calls)-1]
		if last[1] != total {
			return fmt.Sprintf("follower %s was told group size %d, leader uses %d", f.name, last[1], total)
		}
		if prev, dup := seen[last[0]]; dup {
			return fmt.Sprintf("member number %d assigned to both %s and %s", last[0], prev, f.name)
		}
		seen[last[0]] = f.name
		// join order (only asserted between followers with different join times)
		strict := true
		for _, b := range alive {
			if b.i != a.i && b.join == a.join {
				strict = false
			}
		}
		if strict && last[0] != rank+2 {
			return fmt.Sprintf("follower %s (join time %d) got number %d, join order gives %d", f.name, a.join, last[0], rank+2)
		}
		if last[0] < 2 || last[0] > total {
			return fmt.Sprintf("follower %s got number %d outside 2..%d", f.name, last[0], total)
		}
		fmu.Lock()
		pubs := append([]membership.Model(nil), *followerPubs[f.name]...)
		fmu.Unlock()
		for i := 1; i < len(pubs); i++ {
			if pubs[i] == pubs[i-1] {
				return fmt.Sprintf("follower %s announced %d/%d twice in a row", f.name, pubs[i].MemberNumber, pubs[i].TotalMembers)
			}
		}
		if len(pubs) == 0 || pubs[len(pubs)-1] != (membership.Model{MemberNumber: last[0], TotalMembers: last[1]}) {
			return fmt.Sprintf("follower %s: announced numbering %v does not end with the assigned %d/%d", f.name, pubs, last[0], last[1])
		}
	}
	// dropped followers are no longer addressed in the last round
	for i, f := range sc.Followers {
		if f.PingFail != 0 && f.PingFail < sc.Rounds {
			ff := fs[i]
			ff.mu.Lock()
			n, closed := len(ff.calls), ff.closed
			ff.mu.Unlock()
			if !closed {
				return fmt.Sprintf("follower f%d failed its ping in round %d but was not dropped", i, f.PingFail)
			}
			if n > f.PingFail {
				return fmt.Sprintf("follower f%d was dropped in round %d but still received %d assignments", i, f.PingFail, n)
			}
		}
	}
	return ""
}

// c10GenLeader draws one leader-assigned group history.
func c10GenLeader(rt *rapid.T) c10Leader {
	sc := c10Leader{Rounds: scale(2, 3)}
	// a follower failing its ping in heartbeat round r is certainly gone by monitor round r+1
	failRounds := []int{0, 0, 0, 1}
	if sc.Rounds >= 3 {
		failRounds = []int{0, 0, 0, 1, 2}
	}
	k := rapid.IntRange(0, 7).Draw(rt, "followers")
	for j := 0; j < k; j++ {
		sc.Followers = append(sc.Followers, c10Follower{
			JoinTime: rapid.OneOf(rapid.Int64Range(1, 8), rapid.Int64Range(1_700_000_000_000_000_000, 1_700_000_000_000_000_100)).Draw(rt, "join"),
			PingFail: rapid.SampledFrom(failRounds).Draw(rt, "pingfail"),
		})
	}
	// transient faults of the assignment RPC and restarts of follower processes - only in groups whose
	// membership is otherwise stable (a failed RPC in the very round that changes the numbering legitimately
	// leaves that follower behind until the next round)
	if k > 0 && rapid.IntRange(0, 2).Draw(rt, "early") == 0 {
		sc.EarlyRegs = rapid.IntRange(1, k).Draw(rt, "earlyregs")
	}
	stable := true
	for _, f := range sc.Followers {
		stable = stable && f.PingFail == 0
	}
	if stable && k > 0 {
		fault := rapid.SampledFrom([]int{0, 1, 1, 1, 2, 2}).Draw(rt, "fault")
		if fault != 0 {
			// join times are distinct (the property's own premise): with ties the order among equals may differ from round
			// to round, and a follower that misses one round's assignment then legitimately disagrees with its twin
			for j := range sc.Followers {
				if sc.Followers[j].JoinTime > 1_000_000_000_000 {
					sc.Followers[j].JoinTime += int64(j) * 1000 // generated within a window of 100
				} else {
					sc.Followers[j].JoinTime = sc.Followers[j].JoinTime*16 + int64(j)
				}
			}
		}
		switch fault {
		case 1: // some RPCs fail (any round, also the last)
			for j := range sc.Followers {
				if rapid.IntRange(0, 2).Draw(rt, "rpcf") == 0 {
					sc.Followers[j].RpcFail = rapid.SliceOfNDistinct(rapid.IntRange(1, sc.Rounds), 1, sc.Rounds-1, func(i int) int { return i }).Draw(rt, "rounds")
				}
			}
			if k >= 2 && rapid.Bool().Draw(rt, "lastroundfail") {
				// the assignment RPC of the LAST observed round fails for one follower: nothing heals it within the history
				sc.Followers[rapid.IntRange(0, k-1).Draw(rt, "whofails")].RpcFail = []int{sc.Rounds}
			}
		case 2: // a follower restarts under its name, keeping or changing its place in the join order
			j := rapid.IntRange(0, k-1).Draw(rt, "who")
			sc.Followers[j].Restart = rapid.IntRange(1, sc.Rounds-1).Draw(rt, "when")
			sc.Followers[j].RestartJoin = rapid.OneOf(rapid.Just(sc.Followers[j].JoinTime), rapid.Int64Range(1_800_000_000_000_000_000, 1_800_000_000_000_000_100)).Draw(rt, "rejoin")
		}
	}
	return sc
}

func TestC10_Leader(t *testing.T) {
	n := scale(120, 12000)
	_, nsh := shard()
	var scs []c10Leader
	rapid.Check(t, func(rt *rapid.T) {
		if len(scs) > 0 {
			return
		}
		for i := 0; i < (n+nsh-1)/nsh; i++ {
			sc := c10GenLeader(rt)
			scs = append(scs, sc)
		}
	})
	out := make([]string, len(scs))
	var wg sync.WaitGroup
	for i := range scs {
		wg.Add(1)
		go func(i int) { // sleep-dominated: all cases run concurrently
			defer wg.Done()
			// with the partition rule on top of the numbering: each vBucket has exactly one owner once the group is stable
			numbering, partition := c10ExecLeaderGroup(scs[i], []int{64, 128, 1024}[i%3])
			out[i] = numbering
			if numbering == "" && partition != "" {
				out[i] = "numbering fine, but with the partition rule on top: " + partition
			}
		}(i)
	}
	wg.Wait()
	for i, d := range out {
		if d != "" {
			violation(t, "C10", "c10leader", scs[i], "%s", d)
		}
		fail := false
		for _, f := range scs[i].Followers {
			fail = fail || f.PingFail == 1
		}
		labs := []string{"leader_cases"}
		if scs[i].EarlyRegs > 0 {
			labs = append(labs, "leader_registrations_before_callback")
		}
		for _, f := range scs[i].Followers {
			if len(f.RpcFail) > 0 {
				labs = append(labs, "leader_rpc_failure")
				break
			}
		}
		for _, f := range scs[i].Followers {
			if f.Restart > 0 {
				labs = append(labs, "leader_follower_restart")
			}
		}
		record("C10", scs[i], len(scs[i].Followers) >= 2 && (fail || len(labs) > 1), labs...)
	}
}

// ---------- (c) static / dynamic relays, announce-only-on-change through the real API ----------

type c10Relay struct {
	Static [2]int   `json:"static"` // member number, total
	Puts   [][2]int `json:"puts"`   // PUT /membership/info bodies, in order
	// Early: numberings announced on the bus of a FRESH dynamic membership before anybody asked it (the API is up before the
	// stream opens): the first GetInfo() - and every later one - gives the last of them
	Early [][2]int `json:"early,omitempty"`
}

func freePort() int {
	l, err := net.Listen("tcp", "127.0.0.1:0")
	if err != nil {
		return 0
	}
	defer l.Close()
	return l.Addr().(*net.TCPAddr).Port
}

// one API + one dynamic membership per process (the API registers with the global prometheus registry);
// the PUT sequences of all cases form one long history, the model carries the value in effect across cases
type c10RelayEnv struct {
	bus  EventBus.Bus
	dm   membership.Membership
	url  string
	mu   sync.Mutex
	pubs []membership.Model
	last *membership.Model
	a    api.API
}

var (
	c10RelayOnce sync.Once
	c10Env       *c10RelayEnv
)

func c10RelayGet() *c10RelayEnv {
	c10RelayOnce.Do(func() {
		e := &c10RelayEnv{bus: EventBus.New()}
		e.dm = membership.NewDynamicMembership(e.bus)
		_ = e.bus.Subscribe(helpers.MembershipChangedBusEventName, func(m *membership.Model) {
			e.mu.Lock()
			e.pubs = append(e.pubs, *m)
			e.mu.Unlock()
		})
		cfg := laConfig()
		cfg.API.Disabled = false
		cfg.API.Port = freePort()
		e.a = api.NewAPI(cfg, newFakeClient(8), nil, nil, []prometheus.Collector{}, e.bus)
		go e.a.Listen()
		e.url = fmt.Sprintf("http://127.0.0.1:%d/membership/info", cfg.API.Port)
		c10Env = e
	})
	return c10Env
}

func (e *c10RelayEnv) put(m, t int) error {
	body, _ := json.Marshal(map[string]int{"memberNumber": m, "totalMembers": t})
	var lastErr error
	for try := 0; try < 200; try++ {
		req, _ := http.NewRequest(http.MethodPut, e.url, bytes.NewReader(body))
		req.Header.Set("Content-Type", "application/json")
		resp, err := http.DefaultClient.Do(req)
		if err == nil {
			resp.Body.Close()
			if resp.StatusCode == 200 {
				return nil
			}
			return fmt.Errorf("status %d", resp.StatusCode)
		}
		lastErr = err
		time.Sleep(5 * time.Millisecond)
	}
	return lastErr
}

func c10ExecRelay(sc c10Relay) string {
	cfg := laConfig()
	cfg.Dcp.Group.Membership.MemberNumber, cfg.Dcp.Group.Membership.TotalMembers = sc.Static[0], sc.Static[1]
	st := membership.NewStaticMembership(cfg)
	if i := st.GetInfo(); i.MemberNumber != sc.Static[0] || i.TotalMembers != sc.Static[1] {
		return fmt.Sprintf("static membership reports %d/%d, configured %d/%d", i.MemberNumber, i.TotalMembers, sc.Static[0], sc.Static[1])
	}
	if len(sc.Early) > 0 {
		bus := EventBus.New()
		dm := membership.NewDynamicMembership(bus)
		for _, p := range sc.Early {
			bus.Publish(helpers.MembershipChangedBusEventName, &membership.Model{MemberNumber: p[0], TotalMembers: p[1]})
		}
		last := sc.Early[len(sc.Early)-1]
		for k := 0; k < 2; k++ {
			var info *membership.Model
			if ok, _ := within(5*time.Second, func() { info = dm.GetInfo() }); !ok || info == nil {
				return fmt.Sprintf("dynamic membership: GetInfo() does not return although %d numberings were announced", len(sc.Early))
			}
			if info.MemberNumber != last[0] || info.TotalMembers != last[1] {
				return fmt.Sprintf("dynamic membership: numberings %v were announced before anybody asked; GetInfo() call %d reports %d/%d, the one in effect is %d/%d", sc.Early, k+1, info.MemberNumber, info.TotalMembers, last[0], last[1])
			}
		}
		dm.Close()
	}
	if len(sc.Puts) == 0 {
		return ""
	}
	e := c10RelayGet()
	e.mu.Lock()
	base := len(e.pubs)
	e.mu.Unlock()
	var want []membership.Model
	for _, p := range sc.Puts {
		if err := e.put(p[0], p[1]); err != nil {
			return "HARNESS: PUT /membership/info failed: " + err.Error()
		}
		e.bus.WaitAsync()
		m := membership.Model{MemberNumber: p[0], TotalMembers: p[1]}
		if e.last == nil || *e.last != m {
			want = append(want, m)
			mm := m
			e.last = &mm
		}
		if i := e.dm.GetInfo(); *i != m {
			return fmt.Sprintf("dynamic membership reports %d/%d after PUT %d/%d", i.MemberNumber, i.TotalMembers, p[0], p[1])
		}
	}
	e.mu.Lock()
	defer e.mu.Unlock()
	got := e.pubs[base:]
	if len(got) != len(want) {
		return fmt.Sprintf("%d announcements %v for the PUT sequence %v; a numbering is announced only when it differs from the one in effect (%d expected)", len(got), got, sc.Puts, len(want))
	}
	for i := range want {
		if got[i] != want[i] {
			return fmt.Sprintf("announcement %d is %v, want %v", i, got[i], want[i])
		}
	}
	return ""
}

func TestC10_Relay(t *testing.T) {
	rapid.Check(t, func(rt *rapid.T) {
		sc := c10Relay{}
		sc.Static[1] = rapid.IntRange(1, 8).Draw(rt, "total")
		sc.Static[0] = rapid.IntRange(1, sc.Static[1]).Draw(rt, "num")
		k := rapid.IntRange(0, 6).Draw(rt, "puts")
		rep := false
		for i := 0; i < k; i++ {
			if i > 0 && rapid.IntRange(0, 2).Draw(rt, "repeat") == 0 {
				sc.Puts = append(sc.Puts, sc.Puts[i-1])
				rep = true
				continue
			}
			tt := rapid.IntRange(1, 8).Draw(rt, "t")
			sc.Puts = append(sc.Puts, [2]int{rapid.IntRange(1, tt).Draw(rt, "m"), tt})
		}
		for i, n := 0, rapid.IntRange(0, 3).Draw(rt, "early"); i < n; i++ {
			tt := rapid.IntRange(1, 8).Draw(rt, "et")
			sc.Early = append(sc.Early, [2]int{rapid.IntRange(1, tt).Draw(rt, "em"), tt})
		}
		d := c10ExecRelay(sc)
		if strings.HasPrefix(d, "HARNESS") {
			rt.Skip(d)
		}
		if d != "" {
			violation(rt, "C10", "c10relay", sc, "%s", d)
		}
		labs := []string{"relay_cases"}
		if len(sc.Early) >= 2 {
			labs = append(labs, "several_numberings_before_the_first_question")
		}
		record("C10", sc, rep || len(sc.Early) >= 2, labs...)
	})
}

// ---------- (d) the leader files a follower under the join time the follower states: the real Register RPC ----------
// Followers reach the leader through the real RPC server / client pair (net/rpc over TCP on localhost; the connection the
// leader dials back to a follower ends at the leader's own port, which is enough for a registration). Registrations arrive
// in any order and some followers register again (what a follower does after one failed ping of the leader): the leader's
// list - from which its monitor numbers the followers 2, 3, .. - stays in join order.

type c10Reg struct {
	Join    []int64 `json:"join"`    // join time of follower i (distinct)
	Arrive  []int   `json:"arrive"`  // order in which the followers' first registrations arrive (a permutation)
	Again   []int   `json:"again"`   // followers registering once more afterwards, in this order
	GapUs   int     `json:"gap_us"`  // pause between registrations
	Reorder bool    `json:"reorder"` // derived: the arrival order differs from the join order
}

type c10RegEnv struct {
	sd     servicediscovery.ServiceDiscovery
	port   int
	leader *models.Identity
}

var (
	c10RegOnce sync.Once
	c10RegE    *c10RegEnv
)

func c10RegGet() *c10RegEnv {
	c10RegOnce.Do(func() {
		for try := 0; try < 20 && c10RegE == nil; try++ {
			func() {
				defer func() { _ = recover() }() // the port was taken in the meantime: Listen panics, try another one
				e := &c10RegEnv{port: freePort(), leader: &models.Identity{IP: "127.0.0.1", Name: "leader", ClusterJoinTime: 1}}
				e.sd = servicediscovery.NewServiceDiscovery(laConfig(), EventBus.New())
				servicediscovery.NewServer(e.port, e.leader, e.sd).Listen()
				c10RegE = e
			}()
		}
	})
	return c10RegE
}

func c10ExecReg(sc c10Reg) string {
	e := c10RegGet()
	if e == nil {
		return "HARNESS: no RPC server"
	}
	e.sd.RemoveAll()
	defer e.sd.RemoveAll()
	name := func(i int) string { return fmt.Sprintf("f%d", i) }
	var clients []servicediscovery.Client
	defer func() {
		for _, c := range clients {
			_ = c.Close()
		}
	}()
	register := func(i int) string {
		id := &models.Identity{IP: "127.0.0.1", Name: name(i), ClusterJoinTime: sc.Join[i]}
		c, err := servicediscovery.NewClient(e.port, id, e.leader)
		if err != nil {
			return "HARNESS: follower cannot connect: " + err.Error()
		}
		clients = append(clients, c)
		if err := c.Register(); err != nil {
			return "HARNESS: Register RPC failed: " + err.Error()
		}
		if sc.GapUs > 0 {
			time.Sleep(time.Duration(sc.GapUs) * time.Microsecond)
		}
		return ""
	}
	want := make([]int, len(sc.Join))
	for i := range want {
		want[i] = i
	}
	sort.Slice(want, func(a, b int) bool { return sc.Join[want[a]] < sc.Join[want[b]] })
	check := func(when string) string {
		got := e.sd.GetAll()
		var w []string
		for _, i := range want {
			w = append(w, name(i))
		}
		if fmt.Sprint(got) != fmt.Sprint(w) {
			return fmt.Sprintf("%s the leader lists its followers as %v; in join order (join times %v) they are %v - the monitor numbers them 2.. in list order", when, got, sc.Join, w)
		}
		return ""
	}
	for _, i := range sc.Arrive {
		if d := register(i); d != "" {
			return d
		}
	}
	if d := check("after the registrations arrived in the order " + fmt.Sprint(sc.Arrive)); d != "" {
		return d
	}
	for _, i := range sc.Again {
		if d := register(i); d != "" {
			return d
		}
		if d := check(fmt.Sprintf("after follower f%d registered again", i)); d != "" {
			return d
		}
	}
	return ""
}

func TestC10_RegisterRPC(t *testing.T) {
	rapid.Check(t, func(rt *rapid.T) {
		k := rapid.IntRange(1, 6).Draw(rt, "followers")
		sc := c10Reg{GapUs: rapid.SampledFrom([]int{0, 0, 200, 1500}).Draw(rt, "gap")}
		base := rapid.Int64Range(2, 1_800_000_000_000_000_000).Draw(rt, "base")
		seen := map[int64]bool{}
		for i := 0; i < k; i++ {
			j := base + rapid.Int64Range(0, 5_000_000_000).Draw(rt, "dj")
			for seen[j] {
				j++
			}
			seen[j] = true
			sc.Join = append(sc.Join, j)
		}
		sc.Arrive = rapid.Permutation(func() []int {
			v := make([]int, k)
			for i := range v {
				v[i] = i
			}
			return v
		}()).Draw(rt, "arrive")
		sc.Again = rapid.SliceOfN(rapid.IntRange(0, k-1), 0, 3).Draw(rt, "again")
		for n := 1; n < k; n++ {
			if sc.Join[sc.Arrive[n-1]] > sc.Join[sc.Arrive[n]] {
				sc.Reorder = true
			}
		}
		journal("C10", "c10reg", sc)
		d := c10ExecReg(sc)
		journalDone()
		if strings.HasPrefix(d, "HARNESS") {
			rt.Skip(d)
		}
		if d != "" {
			violation(rt, "C10", "c10reg", sc, "%s", d)
		}
		labels := []string{"register_rpc_cases"}
		if sc.Reorder {
			labels = append(labels, "registrations_out_of_join_order")
		}
		if len(sc.Again) > 0 && k > 1 {
			labels = append(labels, "follower_registered_again")
		}
		record("C10", sc, k > 1 && (sc.Reorder || len(sc.Again) > 0), labels...)
	})
}

func init() {
	registerReplay("c10reg", func(raw json.RawMessage) string {
		var sc c10Reg
		if err := json.Unmarshal(raw, &sc); err != nil {
			return err.Error()
		}
		d := c10ExecReg(sc)
		if strings.HasPrefix(d, "HARNESS") {
			return ""
		}
		return d
	})
}

// ---------- (e) a follower across leader hand-overs: a numbering is announced only when it differs from the one in effect ----------
// The follower-side service discovery receives assignments (what Handler.Rebalance does with the leader's RPC) and, now and
// then, a new leader (what OnBecomeFollower does: DontBeLeader, RemoveAll, RemoveLeader, AssignLeader). A new leader that
// assigns the numbering already in effect causes no announcement; one that assigns another one causes exactly one.

type c10HandStep struct {
	Op string `json:"op"` // set | handover
	M  int    `json:"m,omitempty"`
	T  int    `json:"t,omitempty"`
}

type c10Hand struct {
	Steps []c10HandStep `json:"steps"`
}

func c10ExecHand(sc c10Hand) string {
	bus := EventBus.New()
	var pubs []membership.Model
	_ = bus.Subscribe(helpers.MembershipChangedBusEventName, func(m *membership.Model) { pubs = append(pubs, *m) })
	sd := servicediscovery.NewServiceDiscovery(laConfig(), bus)
	var want []membership.Model
	var cur *membership.Model
	leaders := 0
	for i, st := range sc.Steps {
		switch st.Op {
		case "handover":
			leaders++
			sd.DontBeLeader()
			sd.RemoveAll()
			sd.RemoveLeader()
			sd.AssignLeader(servicediscovery.NewService(&fakeFollower{name: fmt.Sprintf("leader%d", leaders), rpcBad: map[int]bool{}}, fmt.Sprintf("leader%d", leaders), int64(leaders)))
		case "set":
			sd.SetInfo(st.M, st.T)
			m := membership.Model{MemberNumber: st.M, TotalMembers: st.T}
			if cur == nil || *cur != m {
				want = append(want, m)
				mm := m
				cur = &mm
			}
		}
		if len(pubs) != len(want) {
			return fmt.Sprintf("after step %d (%+v) the follower has announced %v; a numbering is announced only when it differs from the one in effect: %v expected", i, st, pubs, want)
		}
	}
	for i := range want {
		if pubs[i] != want[i] {
			return fmt.Sprintf("announcement %d is %v, want %v", i, pubs[i], want[i])
		}
	}
	return ""
}

func TestC10_Handover(t *testing.T) {
	rapid.Check(t, func(rt *rapid.T) {
		var sc c10Hand
		var last *c10HandStep
		same := false
		for i, k := 0, rapid.IntRange(1, 12).Draw(rt, "steps"); i < k; i++ {
			switch rapid.IntRange(0, 3).Draw(rt, "kind") {
			case 0:
				sc.Steps = append(sc.Steps, c10HandStep{Op: "handover"})
			case 1:
				if last != nil { // the (new) leader assigns what is in effect already
					sc.Steps = append(sc.Steps, *last)
					if i > 0 && sc.Steps[len(sc.Steps)-2].Op == "handover" {
						same = true
					}
					continue
				}
				fallthrough
			default:
				tt := rapid.IntRange(2, 8).Draw(rt, "t")
				st := c10HandStep{Op: "set", M: rapid.IntRange(2, tt).Draw(rt, "m"), T: tt}
				sc.Steps = append(sc.Steps, st)
				last = &st
			}
		}
		if d := c10ExecHand(sc); d != "" {
			violation(rt, "C10", "c10hand", sc, "%s", d)
		}
		labs := []string{"handover_cases"}
		if same {
			labs = append(labs, "new_leader_assigns_numbering_in_effect")
		}
		record("C10", sc, same, labs...)
	})
}

func init() {
	registerReplay("c10hand", func(raw json.RawMessage) string {
		var sc c10Hand
		if err := json.Unmarshal(raw, &sc); err != nil {
			return err.Error()
		}
		return c10ExecHand(sc)
	})
}

func init() {
	registerChild("c10cb", c10Child)
	registerReplay("c10cb", func(raw json.RawMessage) string {
		var sc c10CB
		if err := json.Unmarshal(raw, &sc); err != nil {
			return err.Error()
		}
		for try := 0; try < 2; try++ {
			d, timing := c10ExecCB(sc)
			if !timing {
				return d
			}
		}
		return ""
	})
	registerReplay("c10leader", func(raw json.RawMessage) string {
		var sc c10Leader
		if err := json.Unmarshal(raw, &sc); err != nil {
			return err.Error()
		}
		return c10ExecLeader(sc)
	})
	registerReplay("c10relay", func(raw json.RawMessage) string {
		var sc c10Relay
		if err := json.Unmarshal(raw, &sc); err != nil {
			return err.Error()
		}
		return c10ExecRelay(sc)
	})
}
