package props

// C02 — a session resumes exactly where the persisted checkpoint says (DESIGN §5 C02).
//  (a) Layer A: real checkpoint.Load + openAllStreams, arguments of Client.OpenStream
//  (b) Save -> Load round trips through the file, Couchbase-xattr (Layer B) and read-only backends
//  (c) Layer B wire: DCP_STREAM_REQ extras produced by the real client.OpenStream
//  (d) native fuzz of the checkpoint JSON document

import (
	"encoding/json"
	"fmt"
	godcp "github.com/Trendyol/go-dcp"
	"github.com/Trendyol/go-dcp/helpers"
	"github.com/Trendyol/go-dcp/membership"
	"os"
	"path/filepath"
	"sort"
	"strings"
	"syscall"
	"testing"
	"time"

	"github.com/Trendyol/go-dcp/config"
	"github.com/Trendyol/go-dcp/couchbase"
	"github.com/Trendyol/go-dcp/metadata"
	"github.com/Trendyol/go-dcp/models"
	"github.com/Trendyol/go-dcp/stream"
	"github.com/Trendyol/go-dcp/tracing"
	"github.com/bytedance/sonic"
	"github.com/couchbase/gocbcore/v10"
	"github.com/couchbase/gocbcore/v10/memd"
	"pgregory.net/rapid"
)

var u64Boundary = []uint64{0, 1, 2, 1<<32 - 1, 1 << 32, 1<<32 + 1, 1<<53 - 1, 1 << 53, 1<<53 + 1, 1<<63 - 1, 1 << 63, 1<<63 + 1, 1<<64 - 2, 1<<64 - 1}

func genU64() *rapid.Generator[uint64] {
	return rapid.OneOf(rapid.Uint64(), rapid.SampledFrom(u64Boundary), rapid.Uint64Range(0, 1000))
}

type c02Doc struct {
	Vb                    int       `json:"vb"`
	UUID, Seq, Start, End uint64    `json:"-"`
	F                     [4]string `json:"f"` // decimal strings (JSON numbers lose precision above 2^53)
}

func (d *c02Doc) pack() {
	d.F = [4]string{fmt.Sprint(d.UUID), fmt.Sprint(d.Seq), fmt.Sprint(d.Start), fmt.Sprint(d.End)}
}
func (d *c02Doc) unpack() {
	fmt.Sscan(d.F[0], &d.UUID)
	fmt.Sscan(d.F[1], &d.Seq)
	fmt.Sscan(d.F[2], &d.Start)
	fmt.Sscan(d.F[3], &d.End)
}
func (d c02Doc) tuple() ckTuple { return ckTuple{UUID: d.UUID, Seq: d.Seq, Start: d.Start, End: d.End} }

type c02Scenario struct {
	Reset    string   `json:"reset"`   // earliest | latest | ""
	Mode     string   `json:"mode"`    // infinite | finite | ""
	Backend  string   `json:"backend"` // custom | file
	ReadOnly bool     `json:"readonly"`
	Lo       int      `json:"lo"`
	HiV      int      `json:"hi"`
	Docs     []c02Doc `json:"docs"`      // stored documents (file backend: all assigned vBuckets or none)
	HighOver []string `json:"high_over"` // per assigned vBucket: high seqno = stored seq + this (decimal)
	Failover []int    `json:"failover"`  // per assigned vBucket: number of failover entries (1..3)
	// per assigned vBucket (cyclic): the collection-aware sequence-number query answers this percentage of the vBucket's
	// high seqno (other collections / system events were written after the configured collections' last item); 100 = same
	CollPct []int `json:"coll_pct,omitempty"`
	// the configured collections' last item is never below the stored checkpoint (otherwise it may be: a seqno-advanced or
	// system event moved the checkpoint beyond it)
	CollFloor bool `json:"coll_floor,omitempty"`
	// ReadFault (file backend with a stored checkpoint): while the session opens the checkpoint file cannot be read for a
	// reason other than "it does not exist" (the process is out of file descriptors): a persisted checkpoint is still
	// persisted - the session either does not open (fail-stop) or requests what is stored, never a reset position
	ReadFault bool `json:"read_fault,omitempty"`
}

func c02DocOf(t ckTuple, uuid string) *models.CheckpointDocument {
	return &models.CheckpointDocument{Checkpoint: &models.CheckpointDocumentCheckpoint{VbUUID: t.UUID, SeqNo: t.Seq,
		Snapshot: &models.CheckpointDocumentSnapshot{StartSeqNo: t.Start, EndSeqNo: t.End}}, BucketUUID: uuid}
}

func c02ExecOpen(sc c02Scenario) (detail string) {
	for i := range sc.Docs {
		sc.Docs[i].unpack()
	}
	lo, hi := sc.Lo, sc.HiV
	n := hi - lo + 1
	cfg := laConfig()
	cfg.Checkpoint.AutoReset = sc.Reset
	if sc.Reset == "" {
		cfg.Checkpoint.AutoReset = "earliest" // ApplyDefaults
	}
	cfg.Dcp.Mode = "" // DcpMode
	if sc.Mode != "" {
		cfg.Dcp.Mode = config.DcpMode(sc.Mode)
	}
	cl := newFakeClient(64)
	stored := map[uint16]ckTuple{}
	for _, d := range sc.Docs {
		stored[uint16(d.Vb)] = d.tuple()
	}
	// server state: high >= stored seq (a checkpoint beyond the high seqno is C15's fail-stop)
	high := map[uint16]uint64{}
	for i := 0; i < n; i++ {
		vb := uint16(lo + i)
		var over uint64
		fmt.Sscan(sc.HighOver[i%len(sc.HighOver)], &over)
		h := stored[vb].Seq + over
		if h < stored[vb].Seq { // overflow: clamp
			h = ^uint64(0)
		}
		high[vb] = h
		cl.setHigh(vb, h)
		if len(sc.CollPct) > 0 {
			if pct := uint64(sc.CollPct[i%len(sc.CollPct)]); pct < 100 {
				if cl.collHigh == nil {
					cl.collHigh = map[uint16]uint64{}
				}
				cl.collHigh[vb] = h/100*pct + h%100*pct/100
				if sc.CollFloor && cl.collHigh[vb] < stored[vb].Seq {
					cl.collHigh[vb] = stored[vb].Seq
				}
			}
		}
		k := sc.Failover[i%len(sc.Failover)]
		var fl []gocbcore.FailoverEntry
		for j := 0; j < k; j++ {
			fl = append(fl, gocbcore.FailoverEntry{VbUUID: gocbcore.VbUUID(0xf000 + uint64(vb)*16 + uint64(k-j)), SeqNo: gocbcore.SeqNo((k - 1 - j) * 10)})
		}
		cl.failover[vb] = fl
	}
	// backend
	var base metadata.Metadata
	var fm *fakeMeta
	var filePath string
	switch sc.Backend {
	case "file":
		dir := os.Getenv("VERIF_WORK")
		if dir == "" {
			dir = os.TempDir()
		}
		filePath = filepath.Join(dir, fmt.Sprintf("c02-%d-%d.json", os.Getpid(), tick()))
		defer os.Remove(filePath)
		cfg.Metadata.Type = "file"
		cfg.Metadata.Config = map[string]string{"fileName": filePath}
		base = metadata.NewFSMetadata(cfg)
		if len(stored) > 0 {
			st := map[uint16]*models.CheckpointDocument{}
			for vb, t := range stored {
				st[vb] = c02DocOf(t, "u")
			}
			if err := base.Save(st, nil, "u"); err != nil {
				return "file backend Save failed: " + err.Error()
			}
		}
	default:
		fm = newFakeMeta()
		for vb, t := range stored {
			fm.durable[vb] = t
		}
		base = fm
	}
	var before []byte
	if filePath != "" {
		before, _ = os.ReadFile(filePath)
	}
	md := base
	if sc.ReadOnly {
		md = metadata.NewReadMetadata(base)
	}
	cons := &fakeConsumer{}
	disc := &fakeDiscovery{}
	disc.set(uint16(lo), uint16(hi))
	st := stream.NewStream(cl, md, cfg, &couchbase.Version{Major: 7}, &couchbase.BucketInfo{BucketType: "membase"},
		disc, cons, map[uint32]string{}, make(chan struct{}, 1), &fakeHandler{}, tracing.NewTracerComponent())
	var lim syscall.Rlimit
	fault := sc.ReadFault && filePath != "" && len(stored) > 0
	if fault {
		realSnapshot() // (the harness's own one-time bootstrap needs sockets)
		if err := syscall.Getrlimit(syscall.RLIMIT_NOFILE, &lim); err != nil {
			fault = false
		} else if err := syscall.Setrlimit(syscall.RLIMIT_NOFILE, &syscall.Rlimit{Cur: 0, Max: lim.Max}); err != nil {
			fault = false
		}
	}
	ok, pv := within(20*time.Second, func() { st.Open() })
	if fault {
		_ = syscall.Setrlimit(syscall.RLIMIT_NOFILE, &lim)
		if ok && pv != nil && strings.Contains(fmt.Sprint(pv), filePath) {
			return "" // fail-stop on the read error: the session did not open, nothing was requested from a position that is not the persisted one
		}
	}
	if !ok || pv != nil {
		return fmt.Sprintf("Open(): returned=%v panic=%v", ok, pv)
	}
	defer within(20*time.Second, func() { st.Close(false) })

	opens := cl.openLog()
	if len(opens) != n {
		return fmt.Sprintf("%d stream requests for %d assigned vBuckets", len(opens), n)
	}
	if cl.seqCalls != 1 {
		return fmt.Sprintf("high seqnos sampled %d times at open", cl.seqCalls)
	}
	anyStored := false
	for i := 0; i < n; i++ {
		if _, ok := stored[uint16(lo+i)]; ok {
			anyStored = true
		}
	}
	seen := map[uint16]bool{}
	for _, o := range opens {
		if seen[o.Vb] || int(o.Vb) < lo || int(o.Vb) > hi {
			return fmt.Sprintf("vb %d requested twice or outside the range", o.Vb)
		}
		seen[o.Vb] = true
		got := ckTuple{UUID: uint64(o.Off.VbUUID), Seq: o.Off.SeqNo, Start: o.Snap.StartSeqNo, End: o.Snap.EndSeqNo}
		var want ckTuple
		t, has := stored[o.Vb]
		switch {
		case has:
			want = t
		case !anyStored && sc.Reset == "latest":
			want = ckTuple{UUID: uint64(cl.failover[o.Vb][0].VbUUID), Seq: high[o.Vb], Start: high[o.Vb], End: high[o.Vb]}
		default:
			want = ckTuple{}
		}
		if got != want {
			return fmt.Sprintf("vb %d requested with %+v, persisted/required is %+v (stored=%v reset=%q read fault at open=%v)", o.Vb, got, want, has, sc.Reset, fault)
		}
		wantEnd := ^uint64(0)
		if sc.Mode == "finite" {
			wantEnd = high[o.Vb]
		}
		if o.Off.LatestSeqNo != wantEnd {
			return fmt.Sprintf("vb %d requested end %d, want %d (mode %q, high %d)", o.Vb, o.Off.LatestSeqNo, wantEnd, sc.Mode, high[o.Vb])
		}
	}
	if sc.ReadOnly {
		// acknowledge something, save, close: nothing may be written through the read-only wrapper
		o := cl.observer(uint16(lo))
		if high[uint16(lo)] < ^uint64(0)-2 {
			sq := stored[uint16(lo)].Seq + 1
			o.SnapshotMarker(models.DcpSnapshotMarker{VbID: uint16(lo), StartSeqNo: sq, EndSeqNo: sq})
			o.Mutation(gocbcore.DcpMutation{SeqNo: sq, VbID: uint16(lo), Key: []byte("k"), Cas: 1})
			for _, d := range cons.snapshot() {
				d.Ctx.Ack()
			}
		}
		st.Save()
		if fm != nil && fm.callCount() != 0 {
			return "read-only metadata mode: the wrapped store received a Save call"
		}
		if filePath != "" {
			after, _ := os.ReadFile(filePath)
			if string(after) != string(before) {
				return "read-only metadata mode: the checkpoint file changed"
			}
		}
	}
	return ""
}

func c02GenDoc(t *rapid.T, vb int) c02Doc {
	d := c02Doc{Vb: vb, UUID: genU64().Draw(t, "uuid"), Seq: genU64().Draw(t, "seq"), Start: genU64().Draw(t, "start"), End: genU64().Draw(t, "end")}
	d.pack()
	return d
}

func TestC02_Open(t *testing.T) {
	rapid.Check(t, func(rt *rapid.T) {
		sc := c02Scenario{
			Reset:    rapid.SampledFrom([]string{"earliest", "latest", "latest", ""}).Draw(rt, "reset"),
			Mode:     rapid.SampledFrom([]string{"infinite", "finite", "finite", ""}).Draw(rt, "mode"),
			Backend:  rapid.SampledFrom([]string{"custom", "custom", "file"}).Draw(rt, "backend"),
			ReadOnly: rapid.IntRange(0, 3).Draw(rt, "ro") == 3,
		}
		n := rapid.IntRange(1, 8).Draw(rt, "n")
		sc.Lo = rapid.IntRange(0, 64-n).Draw(rt, "lo")
		sc.HiV = sc.Lo + n - 1
		subset := rapid.SampledFrom([]string{"none", "all", "some", "some"}).Draw(rt, "subset")
		if sc.Backend == "file" && subset == "some" {
			subset = "all"
		}
		for v := sc.Lo; v <= sc.HiV; v++ {
			in := subset == "all" || (subset == "some" && rapid.Bool().Draw(rt, "has"))
			if in {
				sc.Docs = append(sc.Docs, c02GenDoc(rt, v))
			}
		}
		if subset != "none" && rapid.Bool().Draw(rt, "foreign") && sc.Backend == "custom" {
			// documents of vBuckets outside the range exist in the store too (written by other members)
			sc.Docs = append(sc.Docs, c02GenDoc(rt, (sc.HiV+1+rapid.IntRange(0, 5).Draw(rt, "fv"))%64))
			if v := sc.Docs[len(sc.Docs)-1].Vb; v >= sc.Lo && v <= sc.HiV {
				sc.Docs = sc.Docs[:len(sc.Docs)-1]
			}
		}
		sc.HighOver = rapid.SliceOfN(rapid.Map(rapid.OneOf(rapid.Uint64Range(0, 3), genU64()), func(u uint64) string { return fmt.Sprint(u) }), 1, 8).Draw(rt, "over")
		sc.Failover = rapid.SliceOfN(rapid.IntRange(1, 3), 1, 8).Draw(rt, "failover")
		if rapid.Bool().Draw(rt, "colls") {
			sc.CollPct = rapid.SliceOfN(rapid.SampledFrom([]int{100, 0, 50, 99, 10}), 1, 4).Draw(rt, "collpct")
			sc.CollFloor = rapid.IntRange(0, 2).Draw(rt, "collfloor") != 0
		}
		sc.ReadFault = sc.Backend == "file" && len(sc.Docs) > 0 && rapid.IntRange(0, 2).Draw(rt, "readfault") == 0
		journal("C02", "c02open", sc)
		d := c02ExecOpen(sc)
		journalDone()
		if d != "" {
			violation(rt, "C02", "c02open", sc, "%s", d)
		}
		big := false
		inRange := 0
		for _, x := range sc.Docs {
			x.unpack()
			if x.UUID >= 1<<53 || x.Seq >= 1<<53 || x.Start >= 1<<53 || x.End >= 1<<53 {
				big = true
			}
			if x.Vb >= sc.Lo && x.Vb <= sc.HiV {
				inRange++
			}
		}
		labels := []string{"open_cases", "backend_" + sc.Backend, "reset_" + sc.Reset, "mode_" + sc.Mode}
		if sc.ReadOnly {
			labels = append(labels, "read_only")
		}
		if inRange == 0 && sc.Reset == "latest" {
			labels = append(labels, "latest_reset_applies")
		}
		if sc.ReadFault {
			labels = append(labels, "stored_file_unreadable_at_open")
		}
		for _, p := range sc.CollPct {
			if p < 100 {
				labels = append(labels, "collection_seqnos_differ")
				break
			}
		}
		record("C02", sc, big && inRange > 0 && inRange < n, labels...)
	})
}

// ---------- (a') histories through the real file backend: save -> crash -> reopen ----------

func TestC02_FileHistory(t *testing.T) {
	w := hWeights{deliver: 40, ack: 30, save: 16, crash: 8, absorbed: 15, maxVb: 5, minOps: 1, maxOps: scale(50, 150)}
	known := isKnown("C01", sigF1)
	rapid.Check(t, func(rt *rapid.T) {
		sc := genHistory(rt, w)
		sc.File = true
		// always end with a restart so that what was persisted is loaded back
		sc.Ops = append(sc.Ops, hOp{Op: "crash"})
		journal("C02", "c02filehist", sc)
		v, labels, _ := runHistory(&sc, known != nil, "C02")
		journalDone()
		if v != nil {
			violation(rt, v.Prop, "c02filehist", sc, "%s", v.Detail)
		}
		record("C02", sc, labels["file_save_with_idle_vbucket"] && labels["file_reload_checked"], append(labelList(labels), "file_histories")...)
	})
}

// ---------- (b) round trips ----------

type c02RT struct {
	Backend string   `json:"backend"` // file | couchbase | couchbase_readonly | file_readonly
	Docs    []c02Doc `json:"docs"`
	Dirty   []bool   `json:"dirty"` // couchbase: which of them are flagged dirty (only those are written)
	Twice   bool     `json:"twice"` // save a second generation over the first
}

func c02ExecRT(sc c02RT) string {
	for i := range sc.Docs {
		sc.Docs[i].unpack()
	}
	state := map[uint16]*models.CheckpointDocument{}
	dirty := map[uint16]bool{}
	var ids []uint16
	for i, d := range sc.Docs {
		state[uint16(d.Vb)] = c02DocOf(d.tuple(), "simbucket-uuid")
		dirty[uint16(d.Vb)] = sc.Dirty[i%len(sc.Dirty)]
		ids = append(ids, uint16(d.Vb))
	}
	check := func(md metadata.Metadata, expect map[uint16]ckTuple) string {
		got, exist, err := md.Load(ids, "simbucket-uuid")
		if err != nil {
			return "Load failed: " + err.Error()
		}
		if exist != (len(expect) > 0) {
			return fmt.Sprintf("Load reports exist=%v with %d stored documents", exist, len(expect))
		}
		for _, vb := range ids {
			d, ok := got.Load(vb)
			want := expect[vb] // zero tuple when nothing stored
			if !ok || d == nil || d.Checkpoint == nil || d.Checkpoint.Snapshot == nil {
				return fmt.Sprintf("vb %d: Load returned no document", vb)
			}
			if g := tupleOfDoc(d); g != want {
				return fmt.Sprintf("vb %d: saved %+v, loaded %+v", vb, want, g)
			}
		}
		return ""
	}
	switch sc.Backend {
	case "file", "file_readonly":
		cfg := laConfig()
		dir := os.Getenv("VERIF_WORK")
		if dir == "" {
			dir = os.TempDir()
		}
		path := filepath.Join(dir, fmt.Sprintf("c02rt-%d-%d.json", os.Getpid(), tick()))
		defer os.Remove(path)
		cfg.Metadata.Type = "file"
		cfg.Metadata.Config = map[string]string{"fileName": path}
		fs := metadata.NewFSMetadata(cfg)
		expect := map[uint16]ckTuple{}
		var md metadata.Metadata = fs
		if sc.Backend == "file_readonly" {
			md = metadata.NewReadMetadata(fs)
		}
		if err := md.Save(state, dirty, "u"); err != nil {
			return "Save failed: " + err.Error()
		}
		if sc.Backend == "file" {
			for _, d := range sc.Docs {
				expect[uint16(d.Vb)] = d.tuple()
			}
		} else if _, err := os.Stat(path); err == nil {
			return "read-only wrapper created the checkpoint file"
		}
		return check(md, expect)
	default:
		e := lbShared(1, 64, 0)
		e.cfg.Dcp.Group.Name = "grp"
		var md metadata.Metadata = couchbase.NewCBMetadata(e.client, e.cfg)
		ro := sc.Backend == "couchbase_readonly"
		if ro {
			md = metadata.NewReadMetadata(md)
		}
		expect := map[uint16]ckTuple{}
		gens := 1
		if sc.Twice {
			gens = 2
		}
		for g := 0; g < gens; g++ {
			if g == 1 { // second generation: different values, a different dirty subset
				for i, d := range sc.Docs {
					t := d.tuple()
					t.Seq, t.UUID = t.Seq^0x5555, ^t.UUID
					state[uint16(d.Vb)] = c02DocOf(t, "simbucket-uuid")
					dirty[uint16(d.Vb)] = !sc.Dirty[i%len(sc.Dirty)]
				}
			}
			e.c.ResetLog()
			if err := md.Save(state, dirty, "simbucket-uuid"); err != nil {
				return "Save failed: " + err.Error()
			}
			writes := map[string]int{}
			for _, en := range e.c.Log() {
				switch en.Cmd {
				case memd.CmdSet, memd.CmdAdd, memd.CmdReplace, memd.CmdSubDocMultiMutation, memd.CmdDelete:
					writes[en.Key]++
				}
			}
			if ro {
				if len(writes) != 0 {
					return fmt.Sprintf("read-only metadata mode: KV writes reached the node: %v", writes)
				}
				continue
			}
			for _, d := range sc.Docs {
				vb := uint16(d.Vb)
				key := fmt.Sprintf("_connector:cbgo:grp:checkpoint:%d", vb)
				if dirty[vb] {
					expect[vb] = tupleOfDoc(state[vb])
					if writes[key] == 0 {
						return fmt.Sprintf("vb %d flagged dirty but no write for %q reached the node", vb, key)
					}
				} else if writes[key] != 0 {
					return fmt.Sprintf("vb %d not flagged dirty but %q was written", vb, key)
				}
				delete(writes, key)
			}
			if len(writes) != 0 {
				return fmt.Sprintf("unexpected KV writes: %v", writes)
			}
		}
		return check(md, expect)
	}
}

func TestC02_RoundTrip(t *testing.T) {
	rapid.Check(t, func(rt *rapid.T) {
		sc := c02RT{Backend: rapid.SampledFrom([]string{"file", "couchbase", "couchbase", "couchbase_readonly", "file_readonly"}).Draw(rt, "backend"),
			Twice: rapid.Bool().Draw(rt, "twice")}
		vbs := rapid.SliceOfNDistinct(rapid.IntRange(0, 63), 1, 6, func(i int) int { return i }).Draw(rt, "vbs")
		sort.Ints(vbs)
		big := false
		for _, v := range vbs {
			d := c02GenDoc(rt, v)
			sc.Docs = append(sc.Docs, d)
			big = big || d.UUID >= 1<<53 || d.Seq >= 1<<53 || d.Start >= 1<<53 || d.End >= 1<<53
		}
		sc.Dirty = rapid.SliceOfN(rapid.Bool(), 1, 6).Draw(rt, "dirty")
		journal("C02", "c02rt", sc)
		d := c02ExecRT(sc)
		journalDone()
		if d != "" {
			violation(rt, "C02", "c02rt", sc, "%s", d)
		}
		record("C02", sc, big, "roundtrip_cases", "rt_"+sc.Backend)
	})
}

// ---------- (c) stream request extras on the wire ----------

type c02Wire struct {
	Docs     []c02Doc `json:"docs"`
	Finite   bool     `json:"finite"`
	HighOver []string `json:"high_over"`
	Colls    []uint32 `json:"colls"`
}

func c02ExecWire(sc c02Wire) string {
	for i := range sc.Docs {
		sc.Docs[i].unpack()
	}
	e := lbShared(1, 64, 0)
	e.cfg.Dcp.Group.Name = "grp"
	colls := map[uint32]string{}
	for _, c := range sc.Colls {
		colls[c] = fmt.Sprintf("c%d", c)
	}
	type want struct {
		t   ckTuple
		end uint64
	}
	wants := map[uint16]want{}
	var opened []uint16
	defer func() {
		for _, vb := range opened {
			_ = e.client.CloseStream(vb)
		}
	}()
	for i, d := range sc.Docs {
		vb := uint16(d.Vb)
		end := ^uint64(0)
		if sc.Finite {
			var over uint64
			fmt.Sscan(sc.HighOver[i%len(sc.HighOver)], &over)
			end = d.Seq + over
			if end < d.Seq {
				end = ^uint64(0)
			}
		}
		wants[vb] = want{d.tuple(), end}
		off := &models.Offset{SnapshotMarker: &models.SnapshotMarker{StartSeqNo: d.Start, EndSeqNo: d.End}, VbUUID: gocbcore.VbUUID(d.UUID), SeqNo: d.Seq, LatestSeqNo: end}
		obs := couchbase.NewObserver(e.cfg, vb, end, func(models.ListenerArgs) {}, func(models.DcpStreamEndContext) {}, colls, tracing.NewTracerComponent())
		if err := e.client.OpenStream(vb, colls, off, obs); err != nil {
			return fmt.Sprintf("vb %d: OpenStream failed: %v", vb, err)
		}
		opened = append(opened, vb)
	}
	reqs := e.c.StreamReqs()
	if len(reqs) != len(sc.Docs) {
		return fmt.Sprintf("%d DCP_STREAM_REQ on the wire for %d opens", len(reqs), len(sc.Docs))
	}
	for _, r := range reqs {
		w := wants[r.Vb]
		got := ckTuple{UUID: r.UUID, Seq: r.Start, Start: r.SnapStart, End: r.SnapEnd}
		if got != w.t {
			return fmt.Sprintf("vb %d: DCP_STREAM_REQ carries vbuuid=%d start=%d snapshot=[%d,%d]; the offset was %+v", r.Vb, r.UUID, r.Start, r.SnapStart, r.SnapEnd, w.t)
		}
		if r.End != w.end {
			return fmt.Sprintf("vb %d: DCP_STREAM_REQ end=%d, offset's end is %d", r.Vb, r.End, w.end)
		}
		// collection filter = exactly the configured ids
		var f struct {
			Collections []string `json:"collections"`
		}
		_ = json.Unmarshal([]byte(r.Filter), &f)
		var wantIDs, gotIDs []string
		for c := range colls {
			wantIDs = append(wantIDs, fmt.Sprintf("%x", c))
		}
		gotIDs = append(gotIDs, f.Collections...)
		sort.Strings(wantIDs)
		sort.Strings(gotIDs)
		if strings.Join(wantIDs, ",") != strings.Join(gotIDs, ",") {
			return fmt.Sprintf("vb %d: stream filter %q, configured collections %v", r.Vb, r.Filter, wantIDs)
		}
	}
	return ""
}

func TestC02_Wire(t *testing.T) {
	rapid.Check(t, func(rt *rapid.T) {
		sc := c02Wire{Finite: rapid.Bool().Draw(rt, "finite")}
		vbs := rapid.SliceOfNDistinct(rapid.IntRange(0, 63), 1, 5, func(i int) int { return i }).Draw(rt, "vbs")
		big := false
		for _, v := range vbs {
			d := c02GenDoc(rt, v)
			sc.Docs = append(sc.Docs, d)
			big = big || d.UUID >= 1<<53 || d.Seq >= 1<<53 || d.Start >= 1<<53 || d.End >= 1<<53
		}
		sc.HighOver = rapid.SliceOfN(rapid.Map(rapid.OneOf(rapid.Uint64Range(0, 3), genU64()), func(u uint64) string { return fmt.Sprint(u) }), 1, 5).Draw(rt, "over")
		sc.Colls = rapid.SliceOfNDistinct(rapid.Uint32Range(8, 40), 0, 3, func(u uint32) uint32 { return u }).Draw(rt, "colls")
		journal("C02", "c02wire", sc)
		d := c02ExecWire(sc)
		journalDone()
		if d != "" {
			violation(rt, "C02", "c02wire", sc, "%s", d)
		}
		record("C02", sc, big, "wire_cases")
	})
}

// ---------- (d) checkpoint JSON document ----------

func c02CheckJSON(t ckTuple, uuid string) string {
	doc := c02DocOf(t, uuid)
	b, err := sonic.Marshal(doc)
	if err != nil {
		return "marshal: " + err.Error()
	}
	var back *models.CheckpointDocument
	if err := sonic.Unmarshal(b, &back); err != nil {
		return fmt.Sprintf("unmarshal(%s): %v", b, err)
	}
	if g := tupleOfDoc(back); g != t || back.BucketUUID != uuid {
		return fmt.Sprintf("checkpoint document %+v/%q decoded as %+v/%q (json %s)", t, uuid, g, back.BucketUUID, b)
	}
	return ""
}

func FuzzC02Doc(f *testing.F) {
	f.Add(uint64(0), uint64(0), uint64(0), uint64(0), "u")
	f.Add(^uint64(0), uint64(1)<<63, uint64(1)<<53+1, ^uint64(0)-1, "a\"b\\cé")
	f.Fuzz(func(t *testing.T, a, b, c, d uint64, uuid string) {
		uuid = strings.ToValidUTF8(uuid, "")
		if d := c02CheckJSON(ckTuple{UUID: a, Seq: b, Start: c, End: d}, uuid); d != "" {
			violation(t, "C02", "c02json", []any{fmt.Sprint(a), fmt.Sprint(b), fmt.Sprint(c), fmt.Sprint(d), uuid}, "%s", d)
		}
	})
}

func TestC02_JSON(t *testing.T) {
	rapid.Check(t, func(rt *rapid.T) {
		tp := ckTuple{UUID: genU64().Draw(rt, "a"), Seq: genU64().Draw(rt, "b"), Start: genU64().Draw(rt, "c"), End: genU64().Draw(rt, "d")}
		uuid := rapid.StringMatching(`[a-f0-9]{0,32}`).Draw(rt, "uuid")
		sc := []any{fmt.Sprint(tp.UUID), fmt.Sprint(tp.Seq), fmt.Sprint(tp.Start), fmt.Sprint(tp.End), uuid}
		if d := c02CheckJSON(tp, uuid); d != "" {
			violation(rt, "C02", "c02json", sc, "%s", d)
		}
		record("C02", sc, tp.UUID >= 1<<53 || tp.Seq >= 1<<53, "json_cases")
	})
}

func init() {
	registerReplay("c02open", func(raw json.RawMessage) string {
		var sc c02Scenario
		if err := json.Unmarshal(raw, &sc); err != nil {
			return err.Error()
		}
		return c02ExecOpen(sc)
	})
	registerReplay("c02filehist", histReplayer(func() bool { return false }, "C02"))
	registerReplay("c02rt", func(raw json.RawMessage) string {
		var sc c02RT
		if err := json.Unmarshal(raw, &sc); err != nil {
			return err.Error()
		}
		return c02ExecRT(sc)
	})
	registerReplay("c02wire", func(raw json.RawMessage) string {
		var sc c02Wire
		if err := json.Unmarshal(raw, &sc); err != nil {
			return err.Error()
		}
		return c02ExecWire(sc)
	})
	registerReplay("c02json", func(raw json.RawMessage) string {
		var a []string
		if err := json.Unmarshal(raw, &a); err != nil || len(a) != 5 {
			return "bad scenario"
		}
		var t ckTuple
		fmt.Sscan(a[0], &t.UUID)
		fmt.Sscan(a[1], &t.Seq)
		fmt.Sscan(a[2], &t.Start)
		fmt.Sscan(a[3], &t.End)
		return c02CheckJSON(t, a[4])
	})
}

// ---------- (a'') read-only metadata mode through the real Dcp.Start(): whatever backend is configured or injected ----------

type c02RO struct {
	Backend string `json:"backend"` // custom | file
	Auto    bool   `json:"auto"`    // checkpoint.type auto (5 ms) or manual
	Reset   string `json:"reset"`   // earliest | latest ('latest' without documents flags the start positions for saving)
	Stored  []int  `json:"stored"`  // per vBucket (8): stored seqno, 0 = no document
	Events  []int  `json:"events"`  // per vBucket: events delivered and acknowledged
	// Rebalance: another member of the group advances the stored checkpoints, then a rebalance opens a second session
	// in the same process: it resumes from what the store says NOW (loads are identical to a read-write client's)
	Rebalance bool `json:"rebalance,omitempty"`
}

func c02ExecRODcp(sc c02RO) string {
	const nvb = 8
	cfg := laConfig()
	cfg.Metadata.ReadOnly = true
	cfg.Checkpoint.AutoReset = sc.Reset
	if sc.Auto {
		cfg.Checkpoint.Type = "auto"
		cfg.Checkpoint.Interval = 5 * time.Millisecond
	}
	cl := newFakeClient(nvb)
	stored := map[uint16]ckTuple{}
	for v := 0; v < nvb; v++ {
		cl.setHigh(uint16(v), 100)
		if s := sc.Stored[v%len(sc.Stored)]; s > 0 {
			stored[uint16(v)] = ckTuple{UUID: uint64(cl.failoverOf(uint16(v))[0].VbUUID), Seq: uint64(s), Start: uint64(s), End: uint64(s)}
		}
	}
	fm := newFakeMeta()
	var filePath string
	var before []byte
	if sc.Backend == "file" {
		dir := os.Getenv("VERIF_WORK")
		if dir == "" {
			dir = os.TempDir()
		}
		filePath = filepath.Join(dir, fmt.Sprintf("c02ro-%d-%d.json", os.Getpid(), tick()))
		defer os.Remove(filePath)
		cfg.Metadata.Type = "file"
		cfg.Metadata.Config = map[string]string{"fileName": filePath}
		if len(stored) > 0 {
			st := map[uint16]*models.CheckpointDocument{}
			for v := 0; v < nvb; v++ { // the file backend stores whole states
				st[uint16(v)] = c02DocOf(stored[uint16(v)], "u")
			}
			_ = metadata.NewFSMetadata(cfg).Save(st, nil, "u")
		}
		before, _ = os.ReadFile(filePath)
	} else {
		for vb, t := range stored {
			fm.durable[vb] = t
		}
	}
	cons := &fakeConsumer{onEvent: func(d *delivered) { d.Ctx.Ack() }}
	d := godcp.VerifNewDcp(cfg, cl, cons, &couchbase.Version{Major: 7, Minor: 6}, &couchbase.BucketInfo{BucketType: "membase"})
	if sc.Backend != "file" {
		d.SetMetadata(fm)
	}
	done := make(chan any, 1)
	go func() {
		defer func() { done <- recover() }()
		d.Start()
	}()
	select {
	case <-d.WaitUntilReady():
	case pv := <-done:
		return fmt.Sprintf("read-only mode: Start() ended before readiness: %v", pv)
	case <-time.After(20 * time.Second):
		return "read-only mode: client did not become ready"
	}
	// loads are identical: every stream is requested from its stored document
	for _, o := range cl.openLog() {
		got := ckTuple{UUID: uint64(o.Off.VbUUID), Seq: o.Off.SeqNo, Start: o.Snap.StartSeqNo, End: o.Snap.EndSeqNo}
		if want, has := stored[o.Vb]; has && got != want {
			return fmt.Sprintf("read-only mode: vb %d requested with %+v, the stored document says %+v", o.Vb, got, want)
		}
	}
	for v := 0; v < nvb; v++ {
		o := cl.observer(uint16(v))
		sq := stored[uint16(v)].Seq
		for i := 0; i < sc.Events[v%len(sc.Events)]; i++ {
			sq++
			o.SnapshotMarker(models.DcpSnapshotMarker{VbID: uint16(v), StartSeqNo: sq, EndSeqNo: sq})
			o.Mutation(gocbcore.DcpMutation{SeqNo: sq, VbID: uint16(v), Key: []byte("k"), Cas: 1})
		}
	}
	d.Commit()
	time.Sleep(20 * time.Millisecond)
	if sc.Rebalance {
		ext := map[uint16]ckTuple{}
		for vb, t := range stored {
			t.Seq, t.Start, t.End = t.Seq+10, t.Seq+10, t.Seq+10
			ext[vb] = t
		}
		if sc.Backend == "file" {
			st := map[uint16]*models.CheckpointDocument{}
			for v := 0; v < nvb; v++ {
				st[uint16(v)] = c02DocOf(ext[uint16(v)], "u")
			}
			if len(stored) > 0 {
				_ = metadata.NewFSMetadata(cfg).Save(st, nil, "u")
			}
			before, _ = os.ReadFile(filePath)
		} else {
			fm.mu.Lock()
			for vb, t := range ext {
				fm.durable[vb] = t
			}
			fm.mu.Unlock()
		}
		n0 := len(cl.openLog())
		godcp.VerifBus(d).Publish(helpers.MembershipChangedBusEventName, &membership.Model{MemberNumber: 1, TotalMembers: 1})
		for t0 := time.Now(); len(cl.openLog()) < n0+nvb && time.Since(t0) < 10*time.Second; {
			time.Sleep(time.Millisecond)
		}
		second := cl.openLog()[n0:]
		if len(second) < nvb {
			return fmt.Sprintf("read-only mode: the rebalance reopened %d of %d vBuckets", len(second), nvb)
		}
		time.Sleep(10 * time.Millisecond)
		for _, o := range second {
			got := ckTuple{UUID: uint64(o.Off.VbUUID), Seq: o.Off.SeqNo, Start: o.Snap.StartSeqNo, End: o.Snap.EndSeqNo}
			if want, has := ext[o.Vb]; has && got != want {
				return fmt.Sprintf("read-only mode, second session in the same process: vb %d requested with %+v, the store now says %+v (loads must be identical to what is persisted)", o.Vb, got, want)
			}
		}
	}
	d.Close()
	select {
	case pv := <-done:
		if pv != nil {
			return fmt.Sprintf("read-only mode: Start() panicked: %v", pv)
		}
	case <-time.After(20 * time.Second):
		return "read-only mode: Close() did not stop the client"
	}
	if n := fm.callCount(); n != 0 {
		return fmt.Sprintf("read-only metadata mode (backend %s, through Dcp.Start): the store received %d Save call(s)", sc.Backend, n)
	}
	if n := fm.clearCount(); n != 0 {
		return fmt.Sprintf("read-only metadata mode (backend %s, through Dcp.Start): the store received %d Clear call(s)", sc.Backend, n)
	}
	if filePath != "" {
		after, _ := os.ReadFile(filePath)
		if string(after) != string(before) {
			return "read-only metadata mode (file backend, through Dcp.Start): the checkpoint file changed"
		}
	}
	return ""
}

func TestC02_ReadOnlyDcp(t *testing.T) {
	rapid.Check(t, func(rt *rapid.T) {
		sc := c02RO{Backend: rapid.SampledFrom([]string{"custom", "custom", "file"}).Draw(rt, "backend"), Auto: rapid.Bool().Draw(rt, "auto"),
			Reset: rapid.SampledFrom([]string{"earliest", "latest"}).Draw(rt, "reset")}
		sc.Stored = rapid.SliceOfN(rapid.SampledFrom([]int{0, 0, 1, 7, 50}), 1, 8).Draw(rt, "stored")
		sc.Events = rapid.SliceOfN(rapid.IntRange(0, 3), 1, 8).Draw(rt, "events")
		sc.Rebalance = rapid.Bool().Draw(rt, "rebalance")
		journal("C02", "c02rodcp", sc)
		d := c02ExecRODcp(sc)
		journalDone()
		if d != "" {
			violation(rt, "C02", "c02rodcp", sc, "%s", d)
		}
		ev := 0
		for _, e := range sc.Events {
			ev += e
		}
		labs := []string{"readonly_dcp_cases", "readonly_dcp_" + sc.Backend}
		if sc.Rebalance {
			labs = append(labs, "readonly_second_session")
		}
		record("C02", sc, ev > 0, labs...)
	})
}

func init() {
	registerReplay("c02rodcp", func(raw json.RawMessage) string {
		var sc c02RO
		if err := json.Unmarshal(raw, &sc); err != nil {
			return err.Error()
		}
		return c02ExecRODcp(sc)
	})
}
