// Package simnode is a small in-process simulation of a Couchbase cluster on the wire: S TCP
// listeners sharing one bucket, speaking the memcached binary protocol through gocbcore's own
// memd codec. It implements exactly what gocbcore v10.5.2 and go-dcp need (see DESIGN.md,
// Appendix A) and lets a test script every reply (status / delay / silence / drop) and observe
// every request with a timestamp.
package simnode

import (
	"encoding/binary"
	"encoding/json"
	"fmt"
	"net"
	"net/http"
	"sort"
	"strings"
	"sync"
	"time"

	"github.com/couchbase/gocbcore/v10/memd"
)

// ActionKind says how a scripted request is answered.
type ActionKind int

const (
	Default ActionKind = iota // normal handling
	Status                    // reply with Action.Status (no side effect)
	Silent                    // never reply
	Drop                      // close the connection
	Delay                     // normal handling after Action.Delay
)

type Action struct {
	Kind   ActionKind
	Status memd.StatusCode
	Delay  time.Duration
}

// Entry is one logged request.
type Entry struct {
	T       time.Duration // since cluster creation
	Node    int
	Dcp     bool
	Cmd     memd.CmdCode
	Vb      uint16
	Key     string
	Extras  []byte
	Value   []byte
	Opaque  uint32
	Reply   memd.StatusCode // status of the reply (valid if Replied)
	Replied bool
	RepT    time.Duration
	// OBSERVE_SEQNO replies
	ObsUUID, ObsPersist uint64
	ObsFailoverForm     bool // the OBSERVE_SEQNO reply used the hard-failover form
}

type FailoverEntry struct {
	UUID uint64
	Seq  uint64
}

type Doc struct {
	Body   []byte
	Xattr  map[string][]byte
	Cas    uint64
	Expiry uint32
}

// StreamReq is a decoded DCP_STREAM_REQ.
type StreamReq struct {
	T                                    time.Duration
	Vb                                   uint16
	Flags                                uint32
	Start, End, UUID, SnapStart, SnapEnd uint64
	Filter                               string
	Opaque                               uint32
	conn                                 *Conn
}

// StreamReply is the scripted answer to a stream request.
type StreamReply struct {
	Status     memd.StatusCode // StatusSuccess, StatusRollback, or an error
	RollbackTo uint64
	Failover   []FailoverEntry // for success; nil = the cluster's log for the vBucket
}

// Stream is an open vBucket stream on which the test pushes server events.
type Stream struct {
	Req  StreamReq
	c    *Cluster
	done bool
}

type Cluster struct {
	NumVb      int
	Replicas   int
	Nodes      []*Node
	BucketUUID string

	mu       sync.Mutex
	rev      int
	VbMap    [][]int // vb -> [active, r1, ...] server index or -1
	Docs     map[string]*Doc
	casCtr   uint64
	log      []*Entry
	t0       time.Time
	High     map[uint16]uint64
	Failover map[uint16][]FailoverEntry
	Persist  map[[2]int][2]uint64 // (vb, server) -> (uuid, persistSeq)
	// ObserveFailoverForm: a poll that names another vbUUID than the copy's current one is answered in the hard-failover
	// form (as a node does when the asked vbUUID is an older entry of its failover log)
	ObserveFailoverForm bool
	// NoClientCloseEnd: the node is a server below 5.5.0: it refuses the control send_stream_end_on_client_close_stream
	// and sends no STREAM_END after a close request (gocbcore then produces the end notification itself, on the close
	// acknowledgement)
	NoClientCloseEnd bool
	streams          map[uint16]*Stream
	reqs             []StreamReq
	closed           bool

	// Version is the implementationVersion served under /pools; BucketType / StorageBackend are served under
	// /pools/default/buckets/b (Layer C: the real dcp.NewDcp bootstraps over HTTP).
	Version        string
	BucketType     string
	StorageBackend string
	// PoolsMode scripts GET /pools: "" (200 + Version), "error" (500), "garbage" (200 + non-JSON)
	PoolsMode string
	controls  []DcpControl
	epoch     int
	connCtr   int

	// MgmtMode scripts the management endpoint: "" (200), "error" (500), "silent" (no answer).
	MgmtMode string
	mgmtHits int

	// Hook is consulted for every request (after logging) unless nil.
	Hook func(e *Entry) Action
	// OnStreamReq scripts stream-request answers; nil = success with the vBucket's failover log.
	OnStreamReq func(r StreamReq) StreamReply
	// OnStreamOpen is called (outside the lock) after a successful stream request was answered.
	OnStreamOpen func(s *Stream)
	// OnKVWrite is called for every successful KV mutation (key, vb) - closed-loop tests.
	OnKVWrite func(key string, vb uint16)
}

// DcpControl is one DCP_CONTROL request as received (per connection, in order).
type DcpControl struct {
	Node  int
	Conn  int
	Key   string
	Value string
}

// DcpControls returns every DCP_CONTROL request received so far.
func (c *Cluster) DcpControls() []DcpControl {
	c.mu.Lock()
	defer c.mu.Unlock()
	return append([]DcpControl(nil), c.controls...)
}

type Node struct {
	c        *Cluster
	Idx      int
	ln       net.Listener
	mgmtLn   net.Listener
	MgmtPort int
	Addr     string
	Port     int
	conns    map[*Conn]struct{}
}

type Conn struct {
	id  int
	mc  *memd.Conn
	nc  net.Conn
	wmu sync.Mutex
	Dcp bool
	n   *Node
}

func (c *Conn) write(p *memd.Packet) error {
	c.wmu.Lock()
	defer c.wmu.Unlock()
	return c.mc.WritePacket(p)
}

// New creates a cluster of `servers` nodes with numVb vBuckets and `replicas` replicas.
func New(servers, numVb, replicas int) *Cluster {
	c := &Cluster{
		NumVb: numVb, Replicas: replicas, BucketUUID: "simbucket-uuid", rev: 1, t0: time.Now(),
		Docs: map[string]*Doc{}, High: map[uint16]uint64{}, Failover: map[uint16][]FailoverEntry{},
		Persist: map[[2]int][2]uint64{}, streams: map[uint16]*Stream{},
	}
	for i := 0; i < servers; i++ {
		ln, err := net.Listen("tcp", "127.0.0.1:0")
		if err != nil {
			panic(err)
		}
		n := &Node{c: c, Idx: i, ln: ln, Addr: ln.Addr().String(), conns: map[*Conn]struct{}{}}
		n.Port = ln.Addr().(*net.TCPAddr).Port
		// trivial management endpoint (gocbcore's Ping of the mgmt service is a plain GET)
		if ml, err := net.Listen("tcp", "127.0.0.1:0"); err == nil {
			n.mgmtLn = ml
			n.MgmtPort = ml.Addr().(*net.TCPAddr).Port
			go func(n *Node) {
				_ = http.Serve(n.mgmtLn, http.HandlerFunc(func(w http.ResponseWriter, r *http.Request) {
					c.mu.Lock()
					mode := c.MgmtMode
					c.mgmtHits++
					c.mu.Unlock()
					switch {
					case strings.HasPrefix(r.URL.Path, "/pools"):
						c.servePools(n, w, r)
					case r.URL.Path != "" && r.URL.Path != "/":
						w.WriteHeader(http.StatusNotFound)
					case mode == "error":
						w.WriteHeader(http.StatusInternalServerError)
					case mode == "silent":
						<-r.Context().Done()
					default:
						_, _ = w.Write([]byte("{}"))
					}
				}))
			}(n)
		}
		c.Nodes = append(c.Nodes, n)
	}
	c.VbMap = make([][]int, numVb)
	for v := 0; v < numVb; v++ {
		row := make([]int, replicas+1)
		for r := 0; r <= replicas; r++ {
			if r < servers {
				row[r] = (v + r) % servers
			} else {
				row[r] = -1
			}
		}
		c.VbMap[v] = row
	}
	for _, n := range c.Nodes {
		go n.accept()
	}
	return c
}

// servePools: the management REST paths go-dcp and gocbcore's HTTP bootstrap use.
func (c *Cluster) servePools(n *Node, w http.ResponseWriter, r *http.Request) {
	c.mu.Lock()
	ver, bt, sb, mode := c.Version, c.BucketType, c.StorageBackend, c.PoolsMode
	cfg := c.config(n.Idx)
	c.mu.Unlock()
	if ver == "" {
		ver = "7.6.0-0000-enterprise"
	}
	if bt == "" {
		bt = "membase"
	}
	if sb == "" {
		sb = "couchstore"
	}
	switch {
	case r.URL.Path == "/pools":
		switch mode {
		case "error":
			w.WriteHeader(http.StatusInternalServerError)
		case "garbage":
			_, _ = w.Write([]byte("<html>not json</html>"))
		case "nofield": // a JSON document without the version field
			_, _ = w.Write([]byte(`{"isEnterprise":true,"pools":[]}`))
		case "unauthorized": // an error document with status 401
			w.WriteHeader(http.StatusUnauthorized)
			_, _ = w.Write([]byte(`{"message":"Unauthorized"}`))
		default:
			b, _ := json.Marshal(map[string]any{"implementationVersion": ver, "isEnterprise": true})
			_, _ = w.Write(b)
		}
	case r.URL.Path == "/pools/default/buckets/b":
		b, _ := json.Marshal(map[string]any{"name": "b", "bucketType": bt, "storageBackend": sb})
		_, _ = w.Write(b)
	case r.URL.Path == "/pools/default/b/b":
		_, _ = w.Write(cfg)
	case r.URL.Path == "/pools/default/bs/b":
		// streaming config: one block, then the connection stays open until the client goes away
		_, _ = w.Write(cfg)
		_, _ = w.Write([]byte("\n\n\n\n"))
		if f, ok := w.(http.Flusher); ok {
			f.Flush()
		}
		select {
		case <-r.Context().Done():
		case <-time.After(30 * time.Second):
		}
	default:
		w.WriteHeader(http.StatusNotFound)
	}
}

// HTTPAddrs returns the management endpoints (host:port) of the nodes.
func (c *Cluster) HTTPAddrs() []string {
	var a []string
	for _, n := range c.Nodes {
		a = append(a, fmt.Sprintf("http://127.0.0.1:%d", n.MgmtPort))
	}
	return a
}

func (c *Cluster) Addrs() []string {
	var a []string
	for _, n := range c.Nodes {
		a = append(a, n.Addr)
	}
	return a
}

// MgmtHits returns the number of requests the management endpoints received.
func (c *Cluster) MgmtHits() int {
	c.mu.Lock()
	defer c.mu.Unlock()
	return c.mgmtHits
}

func (c *Cluster) Since() time.Duration { return time.Since(c.t0) }

// Close shuts all listeners and connections.
func (c *Cluster) Close() {
	c.mu.Lock()
	c.closed = true
	c.mu.Unlock()
	for _, n := range c.Nodes {
		_ = n.ln.Close()
		if n.mgmtLn != nil {
			_ = n.mgmtLn.Close()
		}
		c.mu.Lock()
		for cn := range n.conns {
			_ = cn.nc.Close()
		}
		c.mu.Unlock()
	}
}

// Lock / Unlock give tests atomic access to the exported state maps.
func (c *Cluster) Lock()   { c.mu.Lock() }
func (c *Cluster) Unlock() { c.mu.Unlock() }

// Log returns a copy of the request log.
func (c *Cluster) Log() []Entry {
	c.mu.Lock()
	defer c.mu.Unlock()
	out := make([]Entry, len(c.log))
	for i, e := range c.log {
		out[i] = *e
	}
	return out
}

// ResetLog forgets logged requests (state is kept).
func (c *Cluster) ResetLog() {
	c.mu.Lock()
	c.log = nil
	c.reqs = nil
	c.mu.Unlock()
}

func (c *Cluster) StreamReqs() []StreamReq {
	c.mu.Lock()
	defer c.mu.Unlock()
	return append([]StreamReq(nil), c.reqs...)
}

// SetVbMap installs a new vBucket map and bumps the config revision.
func (c *Cluster) SetVbMap(m [][]int) {
	c.mu.Lock()
	c.VbMap = m
	c.rev++
	c.mu.Unlock()
}

func (c *Cluster) BumpRev() {
	c.mu.Lock()
	c.rev++
	c.mu.Unlock()
}

// BumpEpoch starts a new revision epoch (as an unsafe failover does); the revision counter restarts at rev, which
// may be lower than the last one of the previous epoch.
func (c *Cluster) BumpEpoch(rev int) {
	c.mu.Lock()
	c.epoch++
	c.rev = rev
	c.mu.Unlock()
}

func (c *Cluster) config(self int) []byte {
	var serverList []string
	var nodesExt, nodes []any
	for i, n := range c.Nodes {
		serverList = append(serverList, fmt.Sprintf("$HOST:%d", n.Port))
		e := map[string]any{"services": map[string]int{"kv": n.Port, "mgmt": n.MgmtPort}}
		if len(c.Nodes) > 1 {
			e["hostname"] = "127.0.0.1"
		}
		if i == self {
			e["thisNode"] = true
		}
		nodesExt = append(nodesExt, e)
		nodes = append(nodes, map[string]any{"hostname": fmt.Sprintf("$HOST:%d", n.MgmtPort), "ports": map[string]int{"direct": n.Port}})
	}
	cfg := map[string]any{
		"rev": c.rev, "revEpoch": 1 + c.epoch, "name": "b", "nodeLocator": "vbucket", "uuid": c.BucketUUID,
		"bucketCapabilities":     []string{"collections", "durableWrite", "dcp", "cbhello", "touch", "cccp", "nodesExt", "xattr"},
		"collectionsManifestUid": "0",
		"vBucketServerMap": map[string]any{
			"hashAlgorithm": "CRC", "numReplicas": c.Replicas, "serverList": serverList, "vBucketMap": c.VbMap,
		},
		"nodes": nodes, "nodesExt": nodesExt,
		"clusterCapabilitiesVer": []int{1, 0}, "clusterCapabilities": map[string]any{},
	}
	b, _ := json.Marshal(cfg)
	return b
}

func (n *Node) accept() {
	for {
		nc, err := n.ln.Accept()
		if err != nil {
			return
		}
		cn := &Conn{mc: memd.NewConn(nc), nc: nc, n: n}
		n.c.mu.Lock()
		if n.c.closed {
			n.c.mu.Unlock()
			_ = nc.Close()
			return
		}
		n.conns[cn] = struct{}{}
		n.c.connCtr++
		cn.id = n.c.connCtr
		n.c.mu.Unlock()
		go n.serve(cn)
	}
}

func (n *Node) serve(cn *Conn) {
	c := n.c
	defer func() {
		_ = cn.nc.Close()
		c.mu.Lock()
		delete(n.conns, cn)
		c.mu.Unlock()
	}()
	for {
		p, _, err := cn.mc.ReadPacket()
		if err != nil {
			return
		}
		if p.Magic != memd.CmdMagicReq {
			continue
		}
		e := &Entry{T: time.Since(c.t0), Node: n.Idx, Dcp: cn.Dcp, Cmd: p.Command, Vb: p.Vbucket, Key: string(p.Key),
			Extras: append([]byte(nil), p.Extras...), Value: append([]byte(nil), p.Value...), Opaque: p.Opaque}
		c.mu.Lock()
		c.log = append(c.log, e)
		hook := c.Hook
		c.mu.Unlock()
		act := Action{}
		if hook != nil {
			act = hook(e)
		}
		switch act.Kind {
		case Silent:
			continue
		case Drop:
			return
		case Status:
			n.reply(cn, e, &memd.Packet{Magic: memd.CmdMagicRes, Command: p.Command, Opaque: p.Opaque, Status: act.Status})
			continue
		case Delay:
			pp := p
			go func() {
				time.Sleep(act.Delay)
				n.handle(cn, pp, e)
			}()
			continue
		}
		n.handle(cn, p, e)
	}
}

func (n *Node) reply(cn *Conn, e *Entry, res *memd.Packet) {
	c := n.c
	c.mu.Lock()
	e.Reply, e.Replied, e.RepT = res.Status, true, time.Since(c.t0)
	c.mu.Unlock()
	_ = cn.write(res)
}

var helloOK = map[memd.HelloFeature]bool{
	memd.FeatureXattr: true, memd.FeatureXerror: true, memd.FeatureSelectBucket: true, memd.FeatureCollections: true,
	memd.FeatureAltRequests: true, memd.FeatureSeqNo: true, memd.FeatureJSON: true, memd.FeatureDatatype: true,
}

func (n *Node) handle(cn *Conn, p *memd.Packet, e *Entry) {
	c := n.c
	res := &memd.Packet{Magic: memd.CmdMagicRes, Command: p.Command, Opaque: p.Opaque, Status: memd.StatusSuccess}
	switch p.Command {
	case memd.CmdHello:
		var out []byte
		for i := 0; i+1 < len(p.Value); i += 2 {
			if helloOK[memd.HelloFeature(binary.BigEndian.Uint16(p.Value[i:]))] {
				out = append(out, p.Value[i], p.Value[i+1])
			}
		}
		res.Value = out
		n.reply(cn, e, res)
		cn.mc.EnableFeature(memd.FeatureCollections)
		cn.mc.EnableFeature(memd.FeatureAltRequests)
		return
	case memd.CmdGetErrorMap:
		res.Value = []byte(`{"version":1,"revision":1,"errors":{}}`)
	case memd.CmdSASLListMechs:
		res.Value = []byte("SCRAM-SHA512 SCRAM-SHA256 SCRAM-SHA1 PLAIN")
	case memd.CmdSASLAuth:
		switch {
		case string(p.Key) == "PLAIN":
		case strings.HasPrefix(string(p.Key), "SCRAM-SHA"):
			// client-first: n,,n=<user>,r=<nonce>. gocbcore does not verify the server signature (the SASL_STEP reply
			// completes the exchange), so any well-formed server-first message with one iteration will do.
			nonce := ""
			for _, f := range strings.Split(string(p.Value), ",") {
				if strings.HasPrefix(f, "r=") {
					nonce = f[2:]
				}
			}
			res.Status = memd.StatusAuthContinue
			res.Value = []byte("r=" + nonce + "c2ltbm9kZQ,s=c2ltbm9kZXNhbHQ=,i=1")
		default:
			res.Status = memd.StatusAuthError
		}
	case memd.CmdSASLStep:
	case memd.CmdDcpControl:
		c.mu.Lock()
		c.controls = append(c.controls, DcpControl{Node: n.Idx, Conn: cn.id, Key: string(p.Key), Value: string(p.Value)})
		old := c.NoClientCloseEnd
		c.mu.Unlock()
		if old && string(p.Key) == "send_stream_end_on_client_close_stream" {
			res.Status = memd.StatusInvalidArgs // a server that does not know the control (before 5.5.0)
		}
	case memd.CmdSelectBucket, memd.CmdNoop:
	case memd.CmdDcpOpenConnection:
		cn.Dcp = true
	case memd.CmdGetClusterConfig:
		c.mu.Lock()
		res.Value = c.config(n.Idx)
		c.mu.Unlock()
	case memd.CmdCollectionsGetManifest:
		res.Value = []byte(`{"uid":"0","scopes":[{"name":"_default","uid":"0","collections":[{"name":"_default","uid":"0"}]}]}`)
	case memd.CmdCollectionsGetID:
		res.Extras = make([]byte, 12)
	case memd.CmdDcpGetFailoverLog:
		c.mu.Lock()
		res.Value = encodeFailover(c.failoverOf(p.Vbucket))
		c.mu.Unlock()
	case memd.CmdGetAllVBSeqnos:
		c.mu.Lock()
		var v []byte
		for i := 0; i < c.NumVb; i++ {
			if len(c.VbMap[i]) == 0 || c.VbMap[i][0] != n.Idx {
				continue // a node reports its active vBuckets
			}
			var b [10]byte
			binary.BigEndian.PutUint16(b[0:], uint16(i))
			binary.BigEndian.PutUint64(b[2:], c.High[uint16(i)])
			v = append(v, b[:]...)
		}
		c.mu.Unlock()
		res.Value = v
	case memd.CmdObserveSeqNo:
		c.mu.Lock()
		holds := false
		if int(p.Vbucket) < len(c.VbMap) {
			for _, srv := range c.VbMap[p.Vbucket] {
				holds = holds || srv == n.Idx
			}
		}
		if !holds {
			// a node that holds no copy of the vBucket (any more) says so and attaches the current map; the client
			// applies it and asks the right node
			res.Status = memd.StatusNotMyVBucket
			res.Value = c.config(n.Idx)
			c.mu.Unlock()
			break
		}
		st := c.Persist[[2]int{int(p.Vbucket), n.Idx}]
		e.ObsUUID, e.ObsPersist = st[0], st[1]
		failoverForm := c.ObserveFailoverForm
		c.mu.Unlock()
		v := make([]byte, 27)
		binary.BigEndian.PutUint16(v[1:], p.Vbucket)
		binary.BigEndian.PutUint64(v[3:], st[0])
		binary.BigEndian.PutUint64(v[11:], st[1])
		binary.BigEndian.PutUint64(v[19:], st[1])
		if asked := obsAsked(p.Value); failoverForm && asked != 0 && st[0] != 0 && asked != st[0] {
			// the poll still names an older history branch of this copy: the "hard failover" answer form (format 1):
			// the copy's state on its NEW branch, plus the branch that was asked and the last seqno the copy has of it
			v = append(v, make([]byte, 16)...)
			v[0] = 1
			binary.BigEndian.PutUint64(v[27:], asked)
			last := st[1]
			if last > 0 {
				last--
			}
			binary.BigEndian.PutUint64(v[35:], last)
			e.ObsFailoverForm = true
		}
		res.Value = v
	case memd.CmdSet, memd.CmdAdd, memd.CmdReplace:
		c.kvSet(p, res)
	case memd.CmdGet:
		c.kvGet(p, res)
	case memd.CmdDelete:
		c.kvDelete(p, res)
	case memd.CmdSubDocMultiMutation:
		c.kvMutateIn(p, res)
	case memd.CmdSubDocMultiLookup:
		c.kvLookupIn(p, res)
	case memd.CmdDcpStreamReq:
		n.streamReq(cn, p, e)
		return
	case memd.CmdDcpCloseStream:
		n.closeStream(cn, p, e, res)
		return
	case memd.CmdDcpBufferAck:
		return
	default:
		res.Status = memd.StatusUnknownCommand
	}
	n.reply(cn, e, res)
	if res.Status == memd.StatusSuccess && c.OnKVWrite != nil {
		switch p.Command {
		case memd.CmdSet, memd.CmdAdd, memd.CmdReplace, memd.CmdSubDocMultiMutation, memd.CmdDelete:
			c.OnKVWrite(string(p.Key), p.Vbucket)
		}
	}
}

func (c *Cluster) failoverOf(vb uint16) []FailoverEntry {
	if f, ok := c.Failover[vb]; ok && len(f) > 0 {
		return f
	}
	return []FailoverEntry{{UUID: 0xabc000 + uint64(vb), Seq: 0}}
}

func encodeFailover(f []FailoverEntry) []byte {
	v := make([]byte, 16*len(f))
	for i, e := range f {
		binary.BigEndian.PutUint64(v[16*i:], e.UUID)
		binary.BigEndian.PutUint64(v[16*i+8:], e.Seq)
	}
	return v
}

// ---------- KV ----------

func (c *Cluster) kvSet(p, res *memd.Packet) {
	c.mu.Lock()
	defer c.mu.Unlock()
	d := c.Docs[string(p.Key)]
	if p.Command == memd.CmdAdd && d != nil {
		res.Status = memd.StatusKeyExists
		return
	}
	if p.Command == memd.CmdReplace && d == nil {
		res.Status = memd.StatusKeyNotFound
		return
	}
	if p.Cas != 0 && d != nil && d.Cas != p.Cas {
		res.Status = memd.StatusKeyExists
		return
	}
	c.casCtr++
	nd := &Doc{Body: append([]byte{}, p.Value...), Xattr: map[string][]byte{}, Cas: c.casCtr}
	if d != nil {
		nd.Xattr = d.Xattr
	}
	if len(p.Extras) >= 8 {
		nd.Expiry = binary.BigEndian.Uint32(p.Extras[4:])
	}
	c.Docs[string(p.Key)] = nd
	res.Cas = c.casCtr
}

func (c *Cluster) kvGet(p, res *memd.Packet) {
	c.mu.Lock()
	defer c.mu.Unlock()
	d := c.Docs[string(p.Key)]
	if d == nil {
		res.Status = memd.StatusKeyNotFound
		return
	}
	res.Extras = make([]byte, 4)
	res.Value = append([]byte{}, d.Body...)
	res.Cas = d.Cas
}

func (c *Cluster) kvDelete(p, res *memd.Packet) {
	c.mu.Lock()
	defer c.mu.Unlock()
	if c.Docs[string(p.Key)] == nil {
		res.Status = memd.StatusKeyNotFound
		return
	}
	delete(c.Docs, string(p.Key))
	c.casCtr++
	res.Cas = c.casCtr
}

func (c *Cluster) kvMutateIn(p, res *memd.Packet) {
	c.mu.Lock()
	defer c.mu.Unlock()
	var docFlags byte
	var expiry uint32
	switch len(p.Extras) {
	case 1:
		docFlags = p.Extras[0]
	case 4:
		expiry = binary.BigEndian.Uint32(p.Extras)
	case 5:
		expiry = binary.BigEndian.Uint32(p.Extras)
		docFlags = p.Extras[4]
	}
	d := c.Docs[string(p.Key)]
	if d == nil {
		if docFlags&0x01 == 0 && docFlags&0x02 == 0 {
			res.Status = memd.StatusKeyNotFound
			return
		}
		d = &Doc{Body: []byte("{}"), Xattr: map[string][]byte{}}
		c.Docs[string(p.Key)] = d
	} else if docFlags&0x02 != 0 { // ADD semantics
		res.Status = memd.StatusKeyExists
		return
	}
	if p.Cas != 0 && p.Cas != d.Cas {
		res.Status = memd.StatusKeyExists
		return
	}
	v := p.Value
	for len(v) >= 8 {
		op, flags := v[0], v[1]
		pl := int(binary.BigEndian.Uint16(v[2:]))
		vl := int(binary.BigEndian.Uint32(v[4:]))
		if len(v) < 8+pl+vl {
			res.Status = memd.StatusInvalidArgs
			return
		}
		path := string(v[8 : 8+pl])
		val := v[8+pl : 8+pl+vl]
		v = v[8+pl+vl:]
		switch {
		case flags&0x04 != 0:
			d.Xattr[path] = append([]byte{}, val...)
		case op == 0x01: // full-doc set
			d.Body = append([]byte{}, val...)
		case op == 0xc8: // dict upsert on the body, top-level key only
			m := map[string]json.RawMessage{}
			_ = json.Unmarshal(d.Body, &m)
			m[path] = append([]byte{}, val...)
			d.Body, _ = json.Marshal(m)
		}
	}
	if expiry != 0 {
		d.Expiry = expiry
	}
	c.casCtr++
	d.Cas = c.casCtr
	res.Cas = c.casCtr
}

func (c *Cluster) kvLookupIn(p, res *memd.Packet) {
	c.mu.Lock()
	defer c.mu.Unlock()
	d := c.Docs[string(p.Key)]
	if d == nil {
		res.Status = memd.StatusKeyNotFound
		return
	}
	v := p.Value
	var out []byte
	for len(v) >= 4 {
		pl := int(binary.BigEndian.Uint16(v[2:]))
		if len(v) < 4+pl {
			break
		}
		path := string(v[4 : 4+pl])
		flags := v[1]
		v = v[4+pl:]
		var val []byte
		ok := false
		if flags&0x04 != 0 {
			val, ok = d.Xattr[path]
		} else if path == "" {
			val, ok = d.Body, true
		} else {
			m := map[string]json.RawMessage{}
			_ = json.Unmarshal(d.Body, &m)
			var rv json.RawMessage
			rv, ok = m[path]
			val = rv
		}
		var hdr [6]byte
		if !ok {
			binary.BigEndian.PutUint16(hdr[0:], uint16(memd.StatusSubDocPathNotFound))
			res.Status = memd.StatusSubDocBadMulti
		}
		binary.BigEndian.PutUint32(hdr[2:], uint32(len(val)))
		out = append(out, hdr[:]...)
		out = append(out, val...)
	}
	res.Value = out
	res.Cas = d.Cas
}

// KVKeys returns the sorted keys of all documents.
func (c *Cluster) KVKeys() []string {
	c.mu.Lock()
	defer c.mu.Unlock()
	var ks []string
	for k := range c.Docs {
		ks = append(ks, k)
	}
	sort.Strings(ks)
	return ks
}

// obsAsked: the vbUUID an OBSERVE_SEQNO request names (8 bytes of value).
func obsAsked(v []byte) uint64 {
	if len(v) < 8 {
		return 0
	}
	return binary.BigEndian.Uint64(v)
}
