package simnode

import (
	"encoding/binary"
	"time"

	"github.com/couchbase/gocbcore/v10"
	"github.com/couchbase/gocbcore/v10/memd"
)

func (n *Node) streamReq(cn *Conn, p *memd.Packet, e *Entry) {
	c := n.c
	if len(p.Extras) < 48 {
		n.reply(cn, e, &memd.Packet{Magic: memd.CmdMagicRes, Command: p.Command, Opaque: p.Opaque, Status: memd.StatusInvalidArgs})
		return
	}
	r := StreamReq{
		T: time.Since(c.t0), Vb: p.Vbucket, Flags: binary.BigEndian.Uint32(p.Extras[0:]),
		Start: binary.BigEndian.Uint64(p.Extras[8:]), End: binary.BigEndian.Uint64(p.Extras[16:]),
		UUID: binary.BigEndian.Uint64(p.Extras[24:]), SnapStart: binary.BigEndian.Uint64(p.Extras[32:]),
		SnapEnd: binary.BigEndian.Uint64(p.Extras[40:]), Filter: string(p.Value), Opaque: p.Opaque, conn: cn,
	}
	c.mu.Lock()
	c.reqs = append(c.reqs, r)
	on := c.OnStreamReq
	c.mu.Unlock()
	rep := StreamReply{Status: memd.StatusSuccess}
	if on != nil {
		rep = on(r)
	}
	res := &memd.Packet{Magic: memd.CmdMagicRes, Command: p.Command, Opaque: p.Opaque, Status: rep.Status}
	switch rep.Status {
	case memd.StatusSuccess:
		c.mu.Lock()
		f := rep.Failover
		if f == nil {
			f = c.failoverOf(p.Vbucket)
		}
		s := &Stream{Req: r, c: c}
		c.streams[p.Vbucket] = s
		open := c.OnStreamOpen
		c.mu.Unlock()
		res.Value = encodeFailover(f)
		n.reply(cn, e, res)
		if open != nil {
			open(s)
		}
	case memd.StatusRollback:
		res.Value = make([]byte, 8)
		binary.BigEndian.PutUint64(res.Value, rep.RollbackTo)
		n.reply(cn, e, res)
	default:
		n.reply(cn, e, res)
	}
}

func (n *Node) closeStream(cn *Conn, p *memd.Packet, e *Entry, res *memd.Packet) {
	c := n.c
	c.mu.Lock()
	s := c.streams[p.Vbucket]
	if s != nil {
		delete(c.streams, p.Vbucket)
	}
	c.mu.Unlock()
	if s == nil {
		res.Status = memd.StatusKeyNotFound
		n.reply(cn, e, res)
		return
	}
	c.mu.Lock()
	old := c.NoClientCloseEnd
	c.mu.Unlock()
	n.reply(cn, e, res)
	if old {
		return
	}
	// send_stream_end_on_client_close_stream: the producer confirms with STREAM_END(closed)
	s.End(memd.StreamEndClosed)
}

// Stream returns the open stream of a vBucket (nil if none).
func (c *Cluster) Stream(vb uint16) *Stream {
	c.mu.Lock()
	defer c.mu.Unlock()
	return c.streams[vb]
}

func (s *Stream) send(p *memd.Packet) {
	p.Magic = memd.CmdMagicReq
	p.Opaque = s.Req.Opaque
	p.Vbucket = s.Req.Vb
	_ = s.Req.conn.write(p)
}

func (s *Stream) Marker(start, end uint64) {
	ex := make([]byte, 20)
	binary.BigEndian.PutUint64(ex[0:], start)
	binary.BigEndian.PutUint64(ex[8:], end)
	binary.BigEndian.PutUint32(ex[16:], 1)
	s.send(&memd.Packet{Command: memd.CmdDcpSnapshotMarker, Extras: ex})
}

// Doc carries the fields of a document event.
type DocEvent struct {
	Seq, Rev, Cas uint64
	Flags, Expiry uint32
	LockTime      uint32
	Datatype      uint8
	CollectionID  uint32
	Key, Value    []byte
	DeleteTime    uint32
}

func (s *Stream) Mutation(d DocEvent) {
	ex := make([]byte, 31)
	binary.BigEndian.PutUint64(ex[0:], d.Seq)
	binary.BigEndian.PutUint64(ex[8:], d.Rev)
	binary.BigEndian.PutUint32(ex[16:], d.Flags)
	binary.BigEndian.PutUint32(ex[20:], d.Expiry)
	binary.BigEndian.PutUint32(ex[24:], d.LockTime)
	s.send(&memd.Packet{Command: memd.CmdDcpMutation, Extras: ex, Key: d.Key, Value: d.Value, Cas: d.Cas, Datatype: d.Datatype, CollectionID: d.CollectionID})
}

func (s *Stream) Deletion(d DocEvent) {
	ex := make([]byte, 21)
	binary.BigEndian.PutUint64(ex[0:], d.Seq)
	binary.BigEndian.PutUint64(ex[8:], d.Rev)
	binary.BigEndian.PutUint32(ex[16:], d.DeleteTime)
	s.send(&memd.Packet{Command: memd.CmdDcpDeletion, Extras: ex, Key: d.Key, Value: d.Value, Cas: d.Cas, Datatype: d.Datatype, CollectionID: d.CollectionID})
}

func (s *Stream) Expiration(d DocEvent) {
	ex := make([]byte, 20)
	binary.BigEndian.PutUint64(ex[0:], d.Seq)
	binary.BigEndian.PutUint64(ex[8:], d.Rev)
	binary.BigEndian.PutUint32(ex[16:], d.DeleteTime)
	s.send(&memd.Packet{Command: memd.CmdDcpExpiration, Extras: ex, Key: d.Key, Cas: d.Cas, CollectionID: d.CollectionID})
}

func (s *Stream) SeqNoAdvanced(seq uint64) {
	ex := make([]byte, 8)
	binary.BigEndian.PutUint64(ex, seq)
	s.send(&memd.Packet{Command: memd.CmdDcpSeqNoAdvanced, Extras: ex})
}

// SystemEvent sends a collection/scope event. code: memd.StreamEvent*.
func (s *Stream) SystemEvent(seq uint64, code memd.StreamEventCode, manifestUID uint64, scopeID, collectionID uint32, key []byte) {
	ex := make([]byte, 13)
	binary.BigEndian.PutUint64(ex[0:], seq)
	binary.BigEndian.PutUint32(ex[8:], uint32(code))
	ex[12] = 0
	var v []byte
	switch code {
	case memd.StreamEventCollectionCreate, memd.StreamEventCollectionDelete:
		v = make([]byte, 16)
		binary.BigEndian.PutUint64(v[0:], manifestUID)
		binary.BigEndian.PutUint32(v[8:], scopeID)
		binary.BigEndian.PutUint32(v[12:], collectionID)
	case memd.StreamEventCollectionFlush:
		v = make([]byte, 12)
		binary.BigEndian.PutUint64(v[0:], manifestUID)
		binary.BigEndian.PutUint32(v[8:], collectionID)
	case memd.StreamEventScopeCreate, memd.StreamEventScopeDelete:
		v = make([]byte, 12)
		binary.BigEndian.PutUint64(v[0:], manifestUID)
		binary.BigEndian.PutUint32(v[8:], scopeID)
	case memd.StreamEventCollectionChanged:
		v = make([]byte, 16)
		binary.BigEndian.PutUint64(v[0:], manifestUID)
		binary.BigEndian.PutUint32(v[8:], collectionID)
	}
	s.send(&memd.Packet{Command: memd.CmdDcpEvent, Extras: ex, Key: key, Value: v})
}

// End terminates the stream with the given status.
func (s *Stream) End(status memd.StreamEndStatus) {
	s.c.mu.Lock()
	if s.c.streams[s.Req.Vb] == s {
		delete(s.c.streams, s.Req.Vb)
	}
	s.c.mu.Unlock()
	ex := make([]byte, 4)
	binary.BigEndian.PutUint32(ex, uint32(status))
	s.send(&memd.Packet{Command: memd.CmdDcpStreamEnd, Extras: ex})
}

// ---------- agents ----------

func security() gocbcore.SecurityConfig {
	return gocbcore.SecurityConfig{
		Auth:           gocbcore.PasswordAuthProvider{Username: "u", Password: "p"},
		AuthMechanisms: []gocbcore.AuthMechanism{gocbcore.PlainAuthMechanism},
	}
}

// NewAgent bootstraps a real gocbcore KV agent against the cluster. Under heavy machine load gocbcore's
// bootstrap occasionally reports an error of its (unused) HTTP config poller; the bootstrap is retried.
func (c *Cluster) NewAgent() (a *gocbcore.Agent, err error) {
	for i := 0; i < 6; i++ {
		if a, err = c.newAgent(); err == nil {
			return a, nil
		}
		time.Sleep(time.Duration(20*(i+1)) * time.Millisecond)
	}
	return nil, err
}

func (c *Cluster) newAgent() (*gocbcore.Agent, error) {
	agent, err := gocbcore.CreateAgent(&gocbcore.AgentConfig{
		BucketName: "b", SeedConfig: gocbcore.SeedConfig{MemdAddrs: c.Addrs()}, SecurityConfig: security(),
		IoConfig:           gocbcore.IoConfig{UseCollections: true},
		KVConfig:           gocbcore.KVConfig{ConnectTimeout: 5 * time.Second},
		ConfigPollerConfig: gocbcore.ConfigPollerConfig{CccpPollPeriod: 50 * time.Millisecond, CccpMaxWait: time.Second},
	})
	if err != nil {
		return nil, err
	}
	ch := make(chan error, 1)
	if _, err = agent.WaitUntilReady(time.Now().Add(10*time.Second), gocbcore.WaitUntilReadyOptions{
		ServiceTypes: []gocbcore.ServiceType{gocbcore.MemdService},
	}, func(_ *gocbcore.WaitUntilReadyResult, err error) { ch <- err }); err != nil {
		return nil, err
	}
	if err := <-ch; err != nil {
		_ = agent.Close()
		return nil, err
	}
	return agent, nil
}

// NewDcpAgent bootstraps a real gocbcore DCP agent against the cluster (retried like NewAgent).
func (c *Cluster) NewDcpAgent(name string) (a *gocbcore.DCPAgent, err error) {
	for i := 0; i < 6; i++ {
		if a, err = c.newDcpAgent(name); err == nil {
			return a, nil
		}
		time.Sleep(time.Duration(20*(i+1)) * time.Millisecond)
	}
	return nil, err
}

func (c *Cluster) newDcpAgent(name string) (*gocbcore.DCPAgent, error) {
	dcp, err := gocbcore.CreateDcpAgent(&gocbcore.DCPAgentConfig{
		BucketName: "b", SeedConfig: gocbcore.SeedConfig{MemdAddrs: c.Addrs()}, SecurityConfig: security(),
		IoConfig:           gocbcore.IoConfig{UseCollections: true},
		KVConfig:           gocbcore.KVConfig{ConnectTimeout: 5 * time.Second},
		DCPConfig:          gocbcore.DCPConfig{BufferSize: 16 << 20, UseExpiryOpcode: true},
		EnableCCCPPoller:   true, // (go-dcp itself seeds its DCP agent over HTTP and follows the streaming bucket config)
		ConfigPollerConfig: gocbcore.ConfigPollerConfig{CccpPollPeriod: 50 * time.Millisecond, CccpMaxWait: time.Second},
	}, name, memd.DcpOpenFlagProducer)
	if err != nil {
		return nil, err
	}
	ch := make(chan error, 1)
	if _, err = dcp.WaitUntilReady(time.Now().Add(10*time.Second), gocbcore.WaitUntilReadyOptions{},
		func(_ *gocbcore.WaitUntilReadyResult, err error) { ch <- err }); err != nil {
		return nil, err
	}
	if err := <-ch; err != nil {
		_ = dcp.Close()
		return nil, err
	}
	return dcp, nil
}
