HOOK_COMMITS = ["33a37d7"]
FIX_COMMITS = ["547ab85", "bf5a7b0", "e00c6fc"]
NOTES = ("All checks are property-based tests / fuzz targets over the real go-dcp code built from /repo's working tree "
         "(build tag verif). Exit 2 = inconclusive (build/infrastructure/budget), never a pass. See DESIGN.md.")
NOT_APPLICABLE = {}
META = {
    "C09": dict(
        technique="exhaustive enumeration + rapid property-based testing against a partition validity predicate",
        text="Every (N,T) pair with 1<=T<=N<=1024 is enumerated in the thorough tier (quick: N<=256, 512, 1024) and every "
             "member's set inspected against the partition predicate (non-empty, contiguous, ascending, disjoint, exact cover, "
             "sizes differ by at most 1, pure); member selection goes through the real static VBucketDiscovery. The space the "
             "property quantifies over is finite and is covered completely, which is the strongest this technique can give.",
        note="Trusts the Go compiler/runtime; static membership only for Get() (other membership types relay numbers, see C10).",
    ),
    "C17": dict(
        technique="rapid property-based testing against a documented-default table, exact-rational oracle and textual-substitution oracle; native fuzz of the size parser",
        text="Generated configurations (any subset of options explicitly set, env overrides, override maps, size spellings, placeholder "
             "layouts) are pushed through the real ApplyDefaults / Get* / ResolveUnionIntOrStringValue / newDcpConfig and compared with "
             "independent oracles written from README's configuration table. Sampling, not proof: tens of thousands (quick) to millions "
             "(thorough) of cases, each non-trivial class measured.",
        note="Oracle table hand-copied from README §Configuration and config/dcp_test.go; explicit zero values are treated as unset; "
             "size magnitudes limited to where float64 == exact arithmetic; logging.level default not covered.",
    ),
    "C18": dict(
        technique="exhaustive pair grid + rapid triples / round trips + native fuzz against a lexicographic tuple model",
        text="All ordered pairs of an 896-tuple grid around the three gates are enumerated in every tier (trichotomy, antisymmetry, "
             "agreement with tuple order, gate monotonicity and switch points); transitivity on rapid triples with generated near-ties; "
             "format->parse round trip; malformed strings by rapid and coverage-guided fuzzing must return tuple-or-error.",
        note="Gate expressions of dcp.go are replicated in the check (newDcp needs a live cluster); the serial-close gate is additionally "
             "observed behaviourally through stream.NewStream. Wire-level DCP_CONTROL gating is not observed (no Layer C).",
    ),
    "C01": dict(
        technique="rapid stateful op-list generation against a settled-position reference model; crash injection at every step and inside multi-vBucket saves",
        text="Generated histories of deliveries, in-order/delayed/batched/withheld acks, ok/rejected/in-flight saves and crashes (an in-flight save "
             "applies any prefix of its per-vBucket writes in a generated order) run against the real stream, checkpoint and observers; at every "
             "durable write the written seqno must be the resume position or an event settled before that save began, and after every crash the "
             "restarted stream must be requested below the first unsettled event, which must be re-delivered. Search, not proof; the known "
             "finding F1 (absorbed event overtaking a withheld ack) is excluded by construction, counted and replayed each run.",
        note="Layer-A fakes (client/store/consumer) and the harness's reading of gocbcore's callback order are trusted; schedules inside the library "
             "that the harness does not own are only sampled (DESIGN §7). File backend variant not covered by this unit (whole-state writes).",
    ),
    "C04": dict(
        technique="rapid stateful op-lists (any ack order, repetitions, rebalance, old-session acks) + concurrent per-vBucket ackers against a max-settled model",
        text="After every acknowledgement the tracked position (GetOffsets, TrackOffset stream, next save) must equal max(resume, settled) and "
             "never move back; out-of-range acks must leave no trace. Concurrency across vBuckets is exercised with one goroutine per vBucket.",
        note="Same-vBucket acks are serial (stated by the property); interleavings of different-vBucket acks are sampled by the Go scheduler, not enumerated.",
    ),
    "C05": dict(
        technique="rapid stateful op-lists with store-fault injection and in-flight save windows against a durable-progress model; periodic ticker and Commit variants",
        text="Every save outcome is checked: success => D_t0(v) <= stored(v) <= M_t1(v); a skipped save is a violation if advanced progress is not "
             "durable; failures forget nothing; no write when nothing changed. Two defects found this way were repaired (fix: commits bf5a7b0, "
             "547ab85); their shrunk replays are re-run on every check.",
        note="'timeout' of a store call is modelled as a rejected save (the Couchbase backend maps a deadline to an error); real-time ticker unit waits up to 5 s (typical 4 ms).",
    ),
    "C06": dict(
        technique="rapid stateful op-lists over snapshot layouts with tuple-membership oracle (offset must equal one event's own 4-tuple); invalid-server injection",
        text="Every delivered offset, TrackOffset argument and persisted document must be a member of the finite set of per-event tuples announced "
             "by the harness's server model (excludes mixtures of two events/snapshots) and satisfy start<=seq<=end; an event outside its snapshot "
             "must stop the client and never be delivered.",
        note="vbUUID is the first failover entry handed to SetVbUUID by the fake client exactly as client.go does; wire-level check of that hand-over is in C08.",
    ),
    "C02": dict(
        technique="rapid property-based testing: field-by-field comparison of OpenStream arguments / DCP_STREAM_REQ extras with the persisted tuple; Save->Load round trips; native fuzz of the JSON document",
        text="The real checkpoint.Load + openAllStreams run on interface-level fakes for every combination of auto-reset, mode, backend and stored "
             "subset with full-range uint64 fields; the real client.OpenStream and the real Couchbase xattr metadata run over real gocbcore "
             "agents against the simulated node, where the wire extras and the KV write set are observed. Sampling over a very large input "
             "space with boundary classes; not exhaustive.",
        note="simnode is my model of the memcached/DCP/sub-document protocol as gocbcore v10.5.2 speaks it (trusted). 'custom' backend = the in-memory fake.",
    ),
    "C03": dict(
        technique="rapid generation of concurrent per-vBucket event sequences against an independent delivery-filter model (sequence equality + field fidelity)",
        text="Up to 8 vBuckets are fed concurrently through the real observers/stream; the delivered list per vBucket must equal the filter model "
             "as a sequence and every field must be the server's. Reserved-prefix and skipUntil boundaries are generated densely.",
        note="Layer A emulates gocbcore's decode-and-dispatch; catch-up filtering after a rollback is C08's. Concurrency across vBuckets is sampled by the Go scheduler.",
    ),
    "C12": dict(
        technique="rapid stateful op-lists with stream-end fault injection over the full cause alphabet + finite-mode scenarios against an active-stream / reopen model",
        text="Every end cause at every position of generated histories; transient => exactly one reopen from the settled position, others final; "
             "active count and stop channel checked in both directions after every end; finite mode stops exactly after each vBucket's sampled end.",
        note="The stream-level stop channel is observed (Dcp.Start's return is exercised in C13). Reopen retries use the library's hard-coded 1 s sleep: only a small share of cases inject a refused reopen.",
    ),
    "C16": dict(
        technique="rapid stateful histories with scrape operations; decoded Collect() output compared with the settled-position / membership model",
        text="The real metric collector over the real stream and the real VBucketDiscovery (dynamic membership via the event bus) is scraped at "
             "generated points incl. before open and inside a rebalance, with server high seqnos placed below/at/above the tracked positions.",
        note="HTTP layer (fiber/prometheus registry) not exercised; /states/offset serves the same GetOffsets() map C04 checks. persist_seq_no, latency and agent-queue gauges are not asserted.",
    ),
}
