HOOK_COMMITS = ["33a37d7"]
FIX_COMMITS = ["547ab85", "bf5a7b0", "e00c6fc", "c4f8c04", "8b0ff5b", "86b6ba0", "c986467", "4cc4014", "efa9ff9", "d0c2726", "769bfdb", "765a49c", "25dbe31", "1f34e85"]
NOTES = ("All checks are property-based tests / fuzz targets over the real go-dcp code built from /repo's working tree "
         "(build tag verif). Exit 2 = inconclusive (build/infrastructure/budget), never a pass. See DESIGN.md.")
NOT_APPLICABLE = {}
META = {
    "C09": dict(
        technique="exhaustive enumeration + rapid property-based testing against a partition validity predicate; membership histories on one discovery object; leader-numbered groups with RPC fault injection; generated membership-event placements (closing / pending / reopening) on a real stream with a live-stream-set oracle; static members numbered through the configuration defaults / environment overrides",
        text="Every (N,T) pair with 1<=T<=N<=1024 is enumerated in the thorough tier (quick: N<=256, 512, 1024) and every "
             "member's set inspected against the partition predicate (non-empty, contiguous, ascending, disjoint, exact cover, "
             "sizes differ by at most 1, pure); member selection goes through the real static VBucketDiscovery. The space the "
             "property quantifies over is finite and is covered completely, which is the strongest this technique can give.",
        note="Trusts the Go compiler/runtime; Get() is exercised with static, dynamic and kubernetesHa membership (the Couchbase mechanism's numbering is C10's).",
    ),
    "C17": dict(
        technique="rapid property-based testing against a documented-default table, exact-rational oracle and textual-substitution oracle; native fuzz of the size parser",
        text="Generated configurations (any subset of options explicitly set, env overrides, override maps, size spellings, placeholder "
             "layouts) are pushed through the real ApplyDefaults / Get* / ResolveUnionIntOrStringValue / newDcpConfig and compared with "
             "independent oracles written from README's configuration table. Sampling, not proof: tens of thousands (quick) to millions "
             "(thorough) of cases, each non-trivial class measured.",
        note="Oracle table hand-copied from README §Configuration and config/dcp_test.go; explicit zero values are treated as unset; "
             "size magnitudes limited to where float64 == exact arithmetic; logging.level default not covered.",
    ),
    "C18": dict(
        technique="exhaustive pair grid + rapid triples / round trips + native fuzz against a lexicographic tuple model; rapid-generated versions and bucket kinds served by a simulated cluster to the real dcp.NewDcp, negotiated DCP_CONTROL keys and close pattern read off the node",
        text="All ordered pairs of an 896-tuple grid around the three gates are enumerated in every tier (trichotomy, antisymmetry, "
             "agreement with tuple order, gate monotonicity and switch points); transitivity on rapid triples with generated near-ties; "
             "format->parse round trip; malformed strings by rapid and coverage-guided fuzzing must return tuple-or-error.",
        note="The gate expressions are evaluated by the library itself in the wire unit (real newDcp over HTTP bootstrap + SCRAM on the simulated "
             "cluster; real Start()/Close() for the serial-close gate); the replicated expressions of the grid unit only add density. TLS is outside.",
    ),
    "C01": dict(
        technique="rapid stateful op-list generation against a settled-position reference model; crash injection at every step, inside multi-vBucket saves and inside the file backend's write (torn file, child process)",
        text="Generated histories of deliveries, in-order/delayed/batched/withheld acks, ok/rejected/in-flight saves and crashes (an in-flight save "
             "applies any prefix of its per-vBucket writes in a generated order) run against the real stream, checkpoint and observers; at every "
             "durable write the written seqno must be the resume position or an event settled before that save began, and after every crash the "
             "restarted stream must be requested below the first unsettled event, which must be re-delivered. Search, not proof; the known "
             "finding F1 (absorbed event overtaking a withheld ack) is excluded by construction, counted and replayed each run.",
        note="Layer-A fakes (client/store/consumer) and the harness's reading of gocbcore's callback order are trusted; schedules inside the library "
             "that the harness does not own are only sampled (DESIGN §7). The file backend is covered by unit TornFile (crash inside the file write) and by the C02 / C05 file histories.",
    ),
    "C04": dict(
        technique="rapid stateful op-lists (any ack order, repetitions, rebalance, old-session acks) + concurrent per-vBucket ackers against a max-settled model",
        text="After every acknowledgement the tracked position (GetOffsets, TrackOffset stream, next save) must equal max(resume, settled) and "
             "never move back; out-of-range acks must leave no trace. Concurrency across vBuckets is exercised with one goroutine per vBucket.",
        note="Same-vBucket acks are serial (stated by the property); interleavings of different-vBucket acks are sampled by the Go scheduler, not enumerated.",
    ),
    "C05": dict(
        technique="rapid stateful op-lists with store-fault injection and in-flight save windows against a durable-progress model; periodic ticker and Commit variants",
        text="Every save outcome is checked: success => D_t0(v) <= stored(v) <= M_t1(v); a skipped save is a violation if advanced progress is not "
             "durable; failures forget nothing; no write when nothing changed. Overlapping saves (a Save() queued behind one in flight) are "
             "generated as well. Three defects found this way were repaired (fix: commits bf5a7b0, 547ab85, c986467); their shrunk replays are "
             "re-run on every check.",
        note="'timeout' of a store call is modelled as a rejected save (the Couchbase backend maps a deadline to an error); real-time ticker unit waits up to 5 s (typical 4 ms).",
    ),
    "C06": dict(
        technique="rapid stateful op-lists over snapshot layouts with tuple-membership oracle (offset must equal one event's own 4-tuple); invalid-server injection",
        text="Every delivered offset, TrackOffset argument and persisted document must be a member of the finite set of per-event tuples announced "
             "by the harness's server model (excludes mixtures of two events/snapshots) and satisfy start<=seq<=end; an event outside its snapshot "
             "must stop the client and never be delivered.",
        note="vbUUID is the first failover entry handed to SetVbUUID by the fake client exactly as client.go does; wire-level check of that hand-over is in C08.",
    ),
    "C02": dict(
        technique="rapid property-based testing: field-by-field comparison of OpenStream arguments / DCP_STREAM_REQ extras with the persisted tuple; Save->Load round trips; native fuzz of the JSON document",
        text="The real checkpoint.Load + openAllStreams run on interface-level fakes for every combination of auto-reset, mode, backend and stored "
             "subset with full-range uint64 fields; the real client.OpenStream and the real Couchbase xattr metadata run over real gocbcore "
             "agents against the simulated node, where the wire extras and the KV write set are observed. Sampling over a very large input "
             "space with boundary classes; not exhaustive. The file backend additionally runs under the history engine "
             "(saves with idle and dirty vBuckets, crash, restart): the file must hold the last value handed over for every assigned vBucket. "
             "Read-only metadata mode is additionally driven through the real Dcp.Start() with an injected and with the file backend.",
        note="simnode is my model of the memcached/DCP/sub-document protocol as gocbcore v10.5.2 speaks it (trusted). 'custom' backend = the in-memory fake.",
    ),
    "C03": dict(
        technique="rapid generation of concurrent per-vBucket event sequences against an independent delivery-filter model (sequence equality + field fidelity); stateful histories with rebalances and deliveries while a rebalance completes",
        text="Up to 8 vBuckets are fed concurrently through the real observers/stream; the delivered list per vBucket must equal the filter model "
             "as a sequence and every field must be the server's. Reserved-prefix and skipUntil boundaries are generated densely; a third of the "
             "vBuckets stream after a rollback (catch-up filter), a quarter of the others end with a transient cause and are resumed.",
        note="Layer A emulates gocbcore's decode-and-dispatch; the rollback negotiation on the wire is C08's. Concurrency across vBuckets is sampled by the Go scheduler.",
    ),
    "C12": dict(
        technique="rapid stateful op-lists with stream-end fault injection over the full cause alphabet + finite-mode scenarios + shutdown-by-cancel with a transient end during it, against an active-stream / reopen model",
        text="Every end cause at every position of generated histories; transient => exactly one reopen from the settled position, others final; "
             "active count and stop channel checked in both directions after every end; finite mode stops exactly after each vBucket's sampled end. "
             "Histories include rebalances and STREAM_END from inside CloseStream; a stress unit attacks the finish-token hand-over across "
             "sessions (defect found there repaired, fix: commit 4cc4014).",
        note="The stream-level stop channel is observed (Dcp.Start's return is exercised in C13). Reopen retries use the library's hard-coded 1 s sleep: only a small share of cases inject a refused reopen.",
    ),
    "C16": dict(
        technique="rapid stateful histories with scrape operations; decoded Collect() output compared with the settled-position / membership model",
        text="The real metric collector over the real stream and the real VBucketDiscovery (dynamic membership via the event bus) is scraped at "
             "generated points incl. before open and inside a rebalance, with server high seqnos placed below/at/above the tracked positions.",
        note="A share of the histories goes through the real HTTP API (fiber + prometheus registry, GET /metrics and GET /states/offset in a child process); persist_seq_no, latency and agent-queue gauges are not asserted.",
    ),
    "C07": dict(
        technique="exhaustive enumeration of replica tables + rapid schedules of threshold reports against a real observer gate fed with every event kind + rapid report sequences on a simulated multi-node cluster with request-count synchronisation",
        text="(a) the min-rule is checked on every table of 1..4 copies over a 20-entry alphabet (168k tables, exhaustive) and on sampled full-range "
             "tables; (b) the real gate is driven by concurrent feeder/reporter goroutines with a Lamport-style necessary condition that cannot "
             "false-alarm on scheduling; (c) the real rollbackMitigation polls OBSERVE_SEQNO on a 4-server simulated cluster (0..3 replicas, "
             "unassigned replicas, vbUUID flips, regressions, transient TMPFAIL, config revision bumps); single-copy steps are synchronised by "
             "request count, which makes the oracle exact and two-sided; cluster map revisions incl. a replica moving to another node are followed "
             "(the harness waits until the library has started over).",
        note="simnode's OBSERVE_SEQNO/cluster-map model and gocbcore are trusted; liveness clauses are bounded waits (>= 400x the poll interval) re-run once in a fresh environment before being reported.",
    ),
    "C08": dict(
        technique="rapid property-based testing on the wire: generated failover logs / rollback points / post-rollback streams against an independent branch-selection and catch-up model; rollback at session start or at a re-request inside the session, with and without rollback mitigation polling the simulated node",
        text="The real client.OpenStream + openStreamWithRollback run over gocbcore against the simulated node, under the real stream, checkpoint "
             "and observer; both DCP_STREAM_REQ packets are decoded at the node and compared with the model, and the consumer's view is "
             "compared with the catch-up filter model.",
        note="simnode is the trusted server model; R and the failover log are generated independently (a real server constrains them more).",
    ),
    "C11": dict(
        technique="rapid-generated notification bursts placed by barriers (close / delay / reopen) in child processes, trace oracle (bracket grammar, counts, ranges, offsets, timing lower bound) + schedule stress; stateful rebalance histories with a live-stream-set oracle; generated assignment / leader hand-over sequences through the real serviceDiscovery and event bus onto a real stream (interruption-count oracle)",
        text="The harness owns the schedule at CloseStream, OpenStream and the lifecycle callbacks and measures the placements inside the delay; "
             "the library's own goroutine race (finish-token waiter vs. reopen), which it does not own, is attacked statistically by thousands "
             "of zero-delay rebalances under scheduling pressure (static and dynamic membership). Three defects found here were repaired "
             "(fix: commits e00c6fc, c4f8c04, 86b6ba0).",
        note="API path (GET /rebalance, PUT /membership/info) is represented by the direct call / bus publication it makes; timing-placed cases that arrive late are discarded and counted.",
    ),
    "C13": dict(
        technique="rapid-generated (lifecycle state x component configuration x history) cases, each a child process running the real Start()/Close(); crash / hang / leftover activity observed",
        text="Close() or SIGINT is delivered at barriers: idle, consumer inside ConsumeEvent, an event parked in the rollback-mitigation gate, save "
             "blocked in the store (later ok / failing), with "
             "auto/manual checkpointing, health check, HTTP API and real rollback-mitigation polling (simulated cluster). The known finding "
             "close_in_rebalance_window (crash / hang when Close arrives while a rebalance has the stream closed) is excluded by construction, "
             "counted, and replayed on every run. Further dimensions: server below 5.5.0 (serial close), Couchbase heart-beat membership "
             "on the simulated cluster (incl. Close while a monitor round is in flight), a server-initiated stream end during Close; after "
             "a quiet window no goroutine may still execute library code. Three defects found by the thorough tier under load were repaired "
             "(fix: commits efa9ff9, d0c2726, 769bfdb) and are re-run deterministically (Start();Stop() at the component API, held reads).",
        note="Durability is asserted only where the stream is open at Close; quiet-window checks allow one interval of grace per component.",
    ),
    "C14": dict(
        technique="rapid property-based testing of key construction on the wire (independent right-to-left decoder), history engine with internal-key events, and a closed-loop simulation with feedback",
        text="All KV writes of the real cbMetadata and cbMembership are observed at the simulated node; injectivity is checked with an independent "
             "decoder over hostile group names; dotted names must stop the process (child); the closed loop streams every checkpoint write back "
             "and requires the write rate to reach zero.",
        note="simnode routes and reports keys as gocbcore sent them; the closed loop's quiescence is a bounded real-time wait (12 quiet ticks within 4 s + 200 ticks).",
    ),
    "C15": dict(
        technique="fault-class x configuration generation, each case a child process running the real dcp.Start(); exit status / stderr / call log oracle with a control group",
        text="Every guard of the start-up path is hit with single and multiple faults on generated subsets of vBuckets (incl. a store that answers for "
             "only part of the assignment and corrupt / foreign file dumps); a control group of "
             "fault-free configurations must start, so the check cannot pass by 'everything dies'.",
        note="Interface-level fakes; Couchbase-backend load failures are covered on the wire in C20.",
    ),
    "C19": dict(
        technique="exhaustive enumeration of the 2^5 round patterns + generated round sequences / Stop placements, each a child process with a scripted Ping; real Dcp.Start() stopped by Close / signal / stream ends with a ping-after-stop oracle; generated overlapping Stop() calls from several goroutines around an in-flight ping",
        text="The fail-stop is a panic on a library goroutine, so every case is a process; ping timestamps, exit status and Stop() latency are "
             "compared with the statement. The select race 'tick vs. cancel' is provoked with a 100 us interval.",
        note="One-sided timing bounds with >= 10 % slack around the library's hard-coded 1 s retry wait.",
    ),
    "C20": dict(
        technique="rapid-generated completion/deadline orders on a fake PendingOp + per-request fault injection (status / delay / silence / drop) on the simulated node for every operation wrapper, outcome compared with the node's own reply log; returned sequence-number maps compared with the node's values at the moment of return",
        text="Each wrapper is called over real gocbcore agents while the node answers its requests according to a generated behaviour; the "
             "returned error is compared with what the node actually confirmed (its reply log), and return times with the deadline. One "
             "defect found this way (GetVBucketSeqNos ignoring the callback error) was repaired (fix: commit 8b0ff5b). The checkpoint read of "
             "cbMetadata.Load runs in a child process against a silent / dropping node and must end (value, error or fail-stop) within its deadline.",
        note="Wrappers with hard-coded 60 s deadlines are exercised with prompt / error / drop only (silence would cost a minute per case); cbMetadata.Load's fail-stop on errors is C15's; membership operations use the same helpers.",
    ),
    "C10": dict(
        technique="rapid-generated join/leave histories over real membership instances on a simulated bucket (child processes), leader/follower numbering with fake RPC clients, generated registration orders through the real RPC server / client, PUT sequences through the real HTTP API; numbering validity predicate at quiescence",
        text="The numbering is checked as a validity predicate (same size, distinct numbers, join order) at every quiescent point of generated "
             "histories, for the Couchbase heart-beat mechanism end to end on the wire, for the leader-assigned mechanism through the real "
             "serviceDiscovery on both sides (incl. transiently failing assignment RPCs and followers restarting under their name), and for the "
             "static / dynamic relays through the real API.",
        note="Monitor-round interleavings are sampled by timers, not owned; convergence is a bounded wait re-run once (discarded_timing otherwise). "
             "Kubernetes lease election and StatefulSet ordinal discovery need an API server / hostname control and are not exercised.",
    ),
}
