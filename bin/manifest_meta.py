HOOK_COMMITS = ["33a37d7"]
NOTES = ("All checks are property-based tests / fuzz targets over the real go-dcp code built from /repo's working tree "
         "(build tag verif). Exit 2 = inconclusive (build/infrastructure/budget), never a pass. See DESIGN.md.")
NOT_APPLICABLE = {}
META = {
    "C09": dict(
        technique="exhaustive enumeration + rapid property-based testing against a partition validity predicate",
        text="Every (N,T) pair with 1<=T<=N<=1024 is enumerated in the thorough tier (quick: N<=256, 512, 1024) and every "
             "member's set inspected against the partition predicate (non-empty, contiguous, ascending, disjoint, exact cover, "
             "sizes differ by at most 1, pure); member selection goes through the real static VBucketDiscovery. The space the "
             "property quantifies over is finite and is covered completely, which is the strongest this technique can give.",
        note="Trusts the Go compiler/runtime; static membership only for Get() (other membership types relay numbers, see C10).",
    ),
    "C17": dict(
        technique="rapid property-based testing against a documented-default table, exact-rational oracle and textual-substitution oracle; native fuzz of the size parser",
        text="Generated configurations (any subset of options explicitly set, env overrides, override maps, size spellings, placeholder "
             "layouts) are pushed through the real ApplyDefaults / Get* / ResolveUnionIntOrStringValue / newDcpConfig and compared with "
             "independent oracles written from README's configuration table. Sampling, not proof: tens of thousands (quick) to millions "
             "(thorough) of cases, each non-trivial class measured.",
        note="Oracle table hand-copied from README §Configuration and config/dcp_test.go; explicit zero values are treated as unset; "
             "size magnitudes limited to where float64 == exact arithmetic; logging.level default not covered.",
    ),
    "C18": dict(
        technique="exhaustive pair grid + rapid triples / round trips + native fuzz against a lexicographic tuple model",
        text="All ordered pairs of an 896-tuple grid around the three gates are enumerated in every tier (trichotomy, antisymmetry, "
             "agreement with tuple order, gate monotonicity and switch points); transitivity on rapid triples with generated near-ties; "
             "format->parse round trip; malformed strings by rapid and coverage-guided fuzzing must return tuple-or-error.",
        note="Gate expressions of dcp.go are replicated in the check (newDcp needs a live cluster); the serial-close gate is additionally "
             "observed behaviourally through stream.NewStream. Wire-level DCP_CONTROL gating is not observed (no Layer C).",
    ),
}
