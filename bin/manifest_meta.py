HOOK_COMMITS = ["33a37d7"]
NOTES = ("All checks are property-based tests / fuzz targets over the real go-dcp code built from /repo's working tree "
         "(build tag verif). Exit 2 = inconclusive (build/infrastructure/budget), never a pass. See DESIGN.md.")
NOT_APPLICABLE = {}
META = {
    "C09": dict(
        technique="exhaustive enumeration + rapid property-based testing against a partition validity predicate",
        text="Every (N,T) pair with 1<=T<=N<=1024 is enumerated in the thorough tier (quick: N<=256, 512, 1024) and every "
             "member's set inspected against the partition predicate (non-empty, contiguous, ascending, disjoint, exact cover, "
             "sizes differ by at most 1, pure); member selection goes through the real static VBucketDiscovery. The space the "
             "property quantifies over is finite and is covered completely, which is the strongest this technique can give.",
        note="Trusts the Go compiler/runtime; static membership only for Get() (other membership types relay numbers, see C10).",
    ),
}
