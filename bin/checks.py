# Table of checks: property id -> units (Go tests in /verif/props), budgets per tier, evidence texts.
# kind: "rapid" (case-count driven, sharded by PRNG value), "enum" (exhaustive enumeration sharded by index),
#       "plain" (fixed scenario set).

def rapid(test, q, t, qs=4, ts=16, **kw):
    d = dict(test=test, kind="rapid", checks=dict(quick=q, thorough=t), shards=dict(quick=qs, thorough=ts))
    d.update(kw)
    return d


def enum(test, qs=4, ts=16, **kw):
    d = dict(test=test, kind="enum", shards=dict(quick=qs, thorough=ts))
    d.update(kw)
    return d


def fuzz(test, secs, **kw):
    # quick: replay of the seed corpus only; thorough: coverage-guided campaign of `secs` seconds
    d = dict(test=test, kind="fuzz", fuzztime=secs, shards=dict(quick=1, thorough=1))
    d.update(kw)
    return d


def plain(test, **kw):
    d = dict(test=test, kind="plain", shards=dict(quick=1, thorough=1))
    d.update(kw)
    return d


HIST_ASSUME = ["all events of one vBucket are fed by one goroutine at a time (gocbcore read loop)",
               "a consumer acknowledges the events of one vBucket in delivery order (delayed/batched/withheld generated; out-of-order only in C04)",
               "server histories are valid DCP: seqnos strictly increase per vBucket, every event lies in the last announced snapshot",
               "Layer-A fakes of couchbase.Client / metadata.Metadata / models.Consumer are the trusted base; the fake store writes per vBucket like the Couchbase backend"]

CHECKS = {
    "C10": dict(
        level="exploration",
        rule="(a) Couchbase heart-beat variant: histories of 2..7 joins / departures (a departure = Close(): graceful leave and silent death are "
             "the same event for the others) over up to 6 real NewCBMembership instances on one simulated bucket (heartbeat 20 ms, monitor 30 "
             "ms, tolerance 1.5 s), separated by quiescence; a child process per history. At each quiescent point every live member's last "
             "announcement and GetInfo() must be (rank in join order)/(number of live members); announcements only on change; all writes under "
             "the instance prefix. Slow convergence is re-run once and otherwise counted as discarded_timing. (b) leader-assigned variant: real "
             "serviceDiscovery as leader, 0..7 fake follower clients (join times incl. ties, ping failing from round 1/2) forwarding to real "
             "follower-side serviceDiscovery objects, 2 (quick) / 3 (thorough) hard-coded 5 s rounds, all cases concurrent: leader 1/(n+1), "
             "followers 2.. in join order, distinct, failed followers dropped and no longer addressed, announce only on change; in groups with otherwise stable membership "
             "the assignment RPC to a follower fails transiently in generated rounds (also the last one) and follower processes restart "
             "under their name (same or later join time) between two rounds - every live process must hold its number at the end. (c) static "
             "membership relays the configured numbers; PUT /membership/info through the real HTTP API + real dynamic membership: last value "
             "wins, repeated values are not announced. non-trivial = (a) >= 3 joins and a non-last member leaving, (b) >= 2 followers and a "
             "ping failure / failed RPC / restart, (c) a repeated PUT",
        assumptions=["membership operations are separated by quiescence and join times are distinct (as the property states)",
                     "the order in which members run their monitor rounds is whatever the timers give (sampled, not owned)",
                     "kubernetesStatefulSet (reads os.Hostname) and the Kubernetes lease itself are not reachable offline; only the numbering logic downstream of them is exercised"],
        units=[rapid("TestC10_Couchbase", 1, 1, 4, 8), rapid("TestC10_Leader", 1, 1, 2, 8), rapid("TestC10_Relay", 300, 20000, 1, 4), rapid("TestC10_RegisterRPC", 300, 20000, 2, 8), rapid("TestC10_Handover", 3000, 200000, 2, 8)],
        min_share=dict(any={"leader_rpc_failure": ["leader_cases", 0.02], "leader_follower_restart": ["leader_cases", 0.015]}),
    ),
    "C20": dict(
        level="fault_enumeration",
        rule="(a) AsyncOp with a fake PendingOp: completion clearly before / around / clearly after / never relative to deadlines of 1..60 ms, and "
             "dispatch errors; (b) 15 wrappers on the wire (UpsertXattrs, GetXattrs, CreateDocument, UpdateDocument, DeleteDocument, Get, "
             "CreatePath, cbMetadata.Save/Clear, Ping, GetFailOverLogs, GetVBucketSeqNos, GetCollectionIDs, OpenStream, CloseStream) over real "
             "gocbcore agents against the simulated node, whose answer per matching request is generated: prompt, one of 7 error statuses, "
             "delayed to 40 % / 150 % of the deadline, silence, connection drop (for all requests of the call or only the n-th); deadlines 120.."
             "300 ms where configurable; wrappers with hard-coded 5 s / 60 s deadlines get prompt / error / drop (silence only in thorough). "
             "Oracle: returns within deadline + slack; nil error only if the node sent a success reply for the call's request; never nil when "
             "no request was confirmed; healthy node => nil; no panic; goroutines return to the baseline. non-trivial = any non-prompt behaviour",
        assumptions=["simnode's per-request scripting is the trusted fault injector", "statuses that gocbcore retries (TMPFAIL, BUSY) surface as a timeout at the deadline, which is an error as required"],
        units=[rapid("TestC20_AsyncOp", 400, 20000, 8, 16), rapid("TestC20_Wire", 480, 20000, 16, 16), plain("TestC20_Fixed"), plain("TestC20_CheckpointRead"), rapid("TestC20_SeqNosComplete", 60, 3000, 2, 8)],
    ),
    "C11": dict(
        level="exploration",
        rule="child process per case. direct mode: real stream on interface-level fakes, 1..3 bursts of 1..5 notifications, each a direct "
             "stream.Rebalance() call with its own membership value (fake discovery = latest value), placed by barriers during close (inside "
             "CloseStream), during the delay (10..40 % of it, measured; cases whose placement came too late are discarded and counted), while "
             "reopening (inside OpenStream: starts a new burst by the property's definition), or after; optional STREAM_END(closed) from inside "
             "CloseStream; events fed while closed. bus mode: real dcp.Start() with dynamic membership, notifications published on the event bus "
             "(zero delay). Oracle over the trace: per burst exactly one stop pair and one start pair, callbacks match the bracket grammar "
             "BRS (BSStop ASStop)? ARS BRE BSStart ASStart ARE, reopen not earlier than the delay after the burst's last notification, "
             "reopened range = most recent membership value, requested offsets = stored checkpoints, nothing delivered while closed, client never "
             "stops or dies. Plus a stress unit: thousands of zero-delay rebalances under scheduling pressure must never close the stop channel "
             "(schedule not owned by the harness). non-trivial = a burst of >= 2 notifications in >= 2 different states",
        assumptions=["a notification repeating the membership in effect is filtered by the publishers (IsChanged) - checked with the publishers in C10",
                     "placements inside the delay are trusted only if the follower really arrived before the reopen began (else discarded_timing)"],
        units=[rapid("TestC11_Rebalance", 1, 1, 4, 16), plain("TestC11_Stress"), plain("TestC11_Fixed"), rapid("TestC11_ReopenHistory", 600, 40000), rapid("TestC11_FollowMembership", 200, 6000, 8, 16), rapid("TestC11_LeaderHandover", 200, 6000, 4, 16), rapid("TestC11_CouchbaseSwap", 1, 1, 2, 8)],
    ),
    "C13": dict(
        level="fault_enumeration",
        rule="every case runs the real dcp.Start()/Close() (VerifNewDcp hook) in a child process and delivers Close() - or a real SIGINT - in a "
             "generated lifecycle state reached through barriers: idle after ready; consumer blocked inside ConsumeEvent; a save blocked inside "
             "the store that later succeeds or fails; inside a rebalance right after the stream was closed / during the delay / while the "
             "reopen is blocked in OpenStream; x checkpoint auto|manual x health check on|off x HTTP API on|off x rollback mitigation on (real "
             "client + real polling on an in-process 3-node simulated cluster) | off x preceding deliveries/acks. Oracle: the child neither "
             "crashes nor hangs, Start() returns within 20 s (typical: ms), with auto checkpointing the durable store covers every position "
             "settled before Close (states with an open stream), CloseStream for every open vBucket, DcpClose/Close once, no ConsumeEvent after "
             "Start() returned, and - after one interval of grace - no checkpoint write, ping, stream request or OBSERVE_SEQNO in a quiet "
             "window of 3x(intervals + rebalance delay). non-trivial = any state other than idle",
        assumptions=["a 'slow' store / consumer / OpenStream call returns after <= 60 ms (a store that never returns is outside 'bounded time')",
                     "in rebalance-window states the durability clause is not asserted: the stream forgets unsaved positions when a rebalance closes it (they are re-delivered)",
                     "rollback mitigation on => health check off (the simulated node has no management endpoint for Ping)"],
        units=[rapid("TestC13_Shutdown", 1, 1, 4, 16), plain("TestC13_KnownFindings"), plain("TestC13_StartStop"), plain("TestC13_Fixed"), rapid("TestC13_SerialCloseReal", 24, 600, 4, 16)],
    ),
    "C15": dict(
        level="fault_enumeration",
        rule="every case runs the real dcp.Start() (VerifNewDcp hook, interface-level fakes) in a child process: generated bucket size, group shape "
             "and per-vBucket checkpoint/high-seqno relation {no document, below, equal, above}, auto-reset earliest/latest, and one fault class "
             "{checkpoint above high seqno, Metadata.Load error, seqno query error, failover-log error on a subset (latest reset), OpenStream "
             "error on a subset, unknown membership type, unknown metadata type, unknown leader-election type, re-open failing 5 times after a "
             "transient end, a transient stream end of an already open vBucket WHILE the start-up is still requesting the others (re-open "
             "succeeds / keeps failing), a store answering for only part of the assignment, corrupt / foreign file dumps, several at once} or "
             "none (control group). Oracle: fault => the process terminates abnormally with the library's "
             "error before signalling readiness, nothing delivered, no stream ever requested from a seqno beyond the server's; control => ready, "
             "every assigned vBucket requested, events delivered, Close stops it. A dying control case is reported as exit 2 (harness / unrelated "
             "regression), never as a violation. non-trivial = a fault case with >= 2 assigned vBuckets or a fault on a strict subset",
        assumptions=["Layer-A fakes are the trusted base; the Couchbase-backend 'checkpoint cannot be loaded' path is exercised in C20 on the simulated node",
                     "bounded retries on re-open use the library's hard-coded 1 s sleep (one class, few cases)"],
        units=[rapid("TestC15_FailFast", 1, 1, 4, 16)],
        min_share=dict(any={"control_group_started": ["cases", 0.05], "end_during_open_reopened": ["cases", 0.01]}),
    ),
    "C19": dict(
        level="fault_enumeration",
        rule="every case runs the real couchbase.NewHealthCheck (interval 10 ms) in a child process with a scripted Ping: ALL 32 success/failure "
             "assignments of a round's five pings are enumerated (exhaustive), plus generated sequences of 1..3 rounds (<= 6 failures in total, "
             "each costs the library's hard-coded 1 s retry wait; children sleep concurrently), Stop() before the first tick / inside the "
             "retry wait at offsets 0..980 ms / after the rounds, repeated Start and repeated Stop; the rounds starting with three failures also with "
             "slow pings (350 / 700 ms per ping: a round longer than five retry waits), sequences with 0/120/400 ms pings. Oracle: the process dies with the ping error "
             "iff some round has five consecutive failures; a round issues exactly (first success index + 1) pings, retries >= 1 s apart; Stop() "
             "returns in < 0.9 s even at the start of a retry wait; no ping in a 1.5 s quiet window after Stop() returned; <= 1 ping per tick "
             "after repeated Start. non-trivial = a round with a failure (exhaustive unit), >= 2 rounds or a Stop inside a retry wait (sequences)",
        assumptions=["the first call is Start (Stop before Start is outside the property's domain)", "timing bounds are one-sided with >= 10% slack on the library's 1 s constant"],
        units=[enum("TestC19_RoundsExhaustive", 4, 4), rapid("TestC19_Sequences", 1, 1, 2, 8), rapid("TestC19_ShutdownPaths", 1, 1, 2, 8), rapid("TestC19_OverlappingStops", 24, 600, 2, 8)],
    ),
    "C01": dict(
        level="fault_enumeration",
        rule="rapid op-lists (1..80 ops quick, ..300 thorough) over 1..6 (16) vBuckets: deliver(kind,gap,snapshot layout) / ack(next<=n, in order) / "
             "save ok|rejected(after j per-vBucket writes) / savebegin..saveend (ops interleaved while the store call is blocked) / crash (in-flight "
             "save applies j of its writes in a generated order) followed by a restart on the same durable store / savequeue (a second Save behind one in "
             "flight) / transient and final stream ends (reopen from the settled position, unacknowledged events delivered again) / rebalance, "
             "executed against the real "
             "stream+checkpoint+observers; oracle 1 at every durable write, oracle 2 + re-delivery at every crash. Every prefix of a shrunk history is "
             "itself a generated history, so every step is a crash point. non-trivial = a crash with >=1 delivered-but-unacknowledged event "
             "outstanding and >=1 durable write before it; distinct by hash of the op-list",
        assumptions=HIST_ASSUME,
        units=[rapid("TestC01_History", 6000, 400000), plain("TestC01_KnownFindings"), rapid("TestC01_RollbackRestart", 1500, 200000), rapid("TestC01_TornFile", 400, 20000)],
        min_share=dict(any={"crash_mid_save": ["histories", 0.10], "ack_delayed_across_save": ["histories", 0.20], "crash_outstanding_after_write": ["histories", 0.10],
                            "end_transient_after_events": ["histories", 0.10],
                            "rollback_restart_checkpointed_event_not_resent": ["rollback_restart_cases", 0.2]}),
    ),
    "C02": dict(
        level="exploration",
        rule="rapid: (a) Layer A open: auto-reset x dcp mode x backend {custom, real file, read-only wrapper over each} x assigned range x "
             "subset of vBuckets with a stored document (plus foreign vBuckets' documents) x document fields in the full uint64 range with "
             "boundary classes (0,1,2^32+-1,2^53+-1,2^63+-1,2^64-1; start<=seq<=end NOT required) x high-seqno vector >= stored seq x failover "
             "logs of 1..3 entries -> every Client.OpenStream offset compared field by field; read-only mode additionally acks+saves+closes and "
             "requires the wrapped store untouched. (a') histories of deliveries / acks / saves / crashes on the history engine with the REAL file backend behind the real checkpoint.Save: every reopen must start from what the last save persisted for every vBucket, including vBuckets idle since the previous save. (b) Save->Load round trips through the real file backend, the real Couchbase xattr backend "
             "on the simulated node (only-dirty writes observed as KV ops, two generations), and read-only wrappers (no KV write reaches the "
             "node). (c) real client.OpenStream on the simulated node: DCP_STREAM_REQ extras (start, end, vbuuid, snapshot) and the collection "
             "filter compared with the offset. (d) checkpoint JSON document encode/decode identity (rapid + native fuzz). non-trivial = a field "
             ">= 2^53 (beyond float64 exactness) and, for (a), a strict non-empty subset of vBuckets with documents",
        assumptions=["high seqno >= stored seqno (the opposite is C15's fail-stop)", "file backend: all assigned vBuckets or none have a document (one file for all)",
                     "simnode's KV / sub-document / DCP_STREAM_REQ handling is the trusted model of the server"],
        units=[rapid("TestC02_Open", 12000, 1000000), rapid("TestC02_FileHistory", 3000, 200000), rapid("TestC02_RoundTrip", 2400, 100000), rapid("TestC02_Wire", 1600, 100000),
               rapid("TestC02_JSON", 10000, 1000000), fuzz("FuzzC02Doc", 120), rapid("TestC02_ReadOnlyDcp", 240, 20000, 8, 16)],
        min_share=dict(any={"latest_reset_applies": ["open_cases", 0.08], "read_only": ["open_cases", 0.15], "backend_file": ["open_cases", 0.2]}),
    ),
    "C03": dict(
        level="exploration",
        rule="rapid: 1..8 vBuckets fed concurrently (one feeder goroutine each) with generated sequences of 0..60 events: mutation / deletion / "
             "expiration / 6 system-event kinds / seqno-advanced / OSO markers; keys empty, binary, reserved prefixes and partial / shifted "
             "prefixes; CAS full-range plus values within +-1 s / +-1 ns of skipUntil; collection ids configured / unlisted / 0; revNo, flags, "
             "expiry, lockTime, datatype, deleteTime full-range; single/multi/back-to-back snapshots; skipUntil nil / whole second / with "
             "nanoseconds / extreme; a third of the vBuckets are streamed 'after a server-requested rollback' (observer.SetCatchup(F) as "
             "client.go does, F = a generated event's seqno -1/0/+1, incl. F at a snapshot start); a quarter of the others end with a transient "
             "cause after a generated event, are requested again by the library and resumed by the harness after the requested position. Oracle: per vBucket the delivered list "
             "equals, as a sequence, the input minus reserved-prefix keys minus events whose CAS-second is before skipUntil minus events at or "
             "below F; every field, collection name, event time and offset compared with what was sent. "
             "non-trivial = >=2 vBuckets, >=1 delivered and >=1 filtered event, >=2 snapshots on some vBucket",
        assumptions=HIST_ASSUME[:1] + [HIST_ASSUME[2], "Layer A emulates gocbcore's decode-and-dispatch (dcpcomponent.go); the wire path is exercised in C08/C02 on the simulated node"],
        units=[rapid("TestC03_Delivery", 6000, 500000), rapid("TestC03_RebalanceHistory", 1500, 100000)],
        min_share=dict(any={"filtered_skip_until": ["cases", 0.15], "filtered_reserved_key": ["cases", 0.3], "multi_snapshot": ["cases", 0.5],
                            "filtered_catchup": ["cases", 0.25], "catchup_at_snapshot_start": ["cases", 0.05],
                            "stream_ended_and_requested_again": ["cases", 0.2]}),
    ),
    "C04": dict(
        level="exploration",
        rule="rapid op-lists on the Layer-A history engine: per vBucket the delivered events are acknowledged in any order with repetitions "
             "(ackidx), in order (ack), a rebalance to a nearby generated range in the middle (real stream.Rebalance with 1 ms delay), then "
             "acknowledgements of old-session contexts for vBuckets inside and outside the new range, also one while the stream is closed; plus a "
             "concurrent unit: one goroutine per vBucket acknowledging its own permutation simultaneously. Oracle after every ack: tracked seq = "
             "max(resume, settled); TrackOffset per vBucket never decreases; offsets API lists only owned vBuckets with the model's position; an "
             "out-of-range ack causes no TrackOffset / offset / dirty mark / later document; the final save writes the tracked positions. "
             "non-trivial = an ack below the current position and an out-of-range ack in the history (every concurrent case counts)",
        assumptions=HIST_ASSUME + ["acknowledgements of one vBucket are issued one at a time (stated by the property)",
                                   "acks fired while the stream is closed inside a rebalance: only 'no crash' is asserted (assigned range undefined there)"],
        units=[rapid("TestC04_History", 5000, 300000), rapid("TestC04_FileHistory", 1500, 100000), rapid("TestC04_Concurrent", 2000, 100000)],
        min_share=dict(any={"ack_below_position": ["histories", 0.3], "ack_out_of_range": ["histories", 0.1], "ack_old_in_range": ["histories", 0.06]}),
    ),
    "C05": dict(
        level="fault_enumeration",
        rule="rapid op-lists on the Layer-A history engine (real stream+checkpoint): deliveries incl. 25% non-document / internal-key events, "
             "in-order acks, save ok | rejected after j per-vBucket writes | savebegin..saveend windows with ops landing during the blocked store "
             "call; oracle after every save: D_t0(v) <= stored(v) <= M_t1(v) for success, nothing required but nothing forgotten after failure "
             "(checked at the next success), a save with nothing new performs no per-vBucket write, a skipped save is a violation when advanced "
             "progress is not durable. non-trivial = (failed save later followed by a successful one) or (ack/non-document event during a store "
             "call followed by a successful save); the same kind of histories on the real file (whole-state) backend, the file read back "
             "after every save that happened (the furthest settled position of every advanced vBucket of the session must be in it); "
             "distinct by hash of the op-list",
        assumptions=HIST_ASSUME + ["'before the dump' is not separable from 'before the call' from outside: the harness orders ops before the Save call, during the blocked store call, or after it returned"],
        units=[rapid("TestC05_History", 6000, 400000), rapid("TestC05_FileHistory", 1500, 100000), rapid("TestC05_CouchbaseBackend", 120, 6000, 8, 16), rapid("TestC05_Periodic", 40, 600, 4, 16), plain("TestC05_Fixed")],
        min_share=dict(any={"save_ok_after_failure": ["histories", 0.10], "ack_during_store": ["histories", 0.10], "save_in_flight": ["histories", 0.2]}),
    ),
    "C06": dict(
        level="exploration",
        rule="rapid op-lists on the Layer-A history engine: single-item / multi-item / back-to-back snapshots, markers starting at last or last+1, "
             "sessions resumed mid-snapshot after a crash (server re-announces a range), seqno-advanced replacing the snapshot, late acks (event of "
             "snapshot k acknowledged after later markers), saves at every point, failovers (the server's failover log of a vBucket gets a new newest "
             "entry; the next stream request is answered on the new branch), and (1.2% of deliveries) an invalid server event outside its "
             "announced snapshot. Oracle on every delivered Offset, every TrackOffset argument and every persisted document: start<=seq<=end and "
             "the 4-tuple is a member of the set {resume tuple} U {(stream vbUUID, seq, announced snapshot) of one event}; a stream requested from a stored checkpoint must be requested from such a "
             "tuple of that vBucket (not a mixture of two branches / events); an outside event is never "
             "delivered and stops the client (panic on the feeding goroutine = process stop in production). non-trivial = an ack issued after >=2 "
             "later markers of that vBucket and a successful save in the history",
        assumptions=HIST_ASSUME,
        units=[rapid("TestC06_History", 6000, 400000), rapid("TestC06_RollbackBranch", 1500, 200000), rapid("TestC06_AheadCheckpoint", 1, 1, 2, 8)],
        min_share=dict(any={"ack_after_2_later_markers": ["histories", 0.2], "outside_snapshot": ["histories", 0.05], "backlog_resent": ["histories", 0.1],
                            "reload_after_failover": ["histories", 0.05]}),
    ),
    "C12": dict(
        level="fault_enumeration",
        rule="rapid op-lists on the Layer-A history engine with `end` ops: every cause of the alphabet {socket closed, backfill failed, state "
             "changed, too slow, disconnected (also wrapped with %w), stream closed, filter empty, lost privileges, generic, clean end} injected "
             "through Observer.End on any assigned vBucket at any point between deliveries/acks/saves, repeated ends of one vBucket, a small share "
             "with the first reopen attempt refused (library retries after 1 s). Oracle: transient => exactly one successful OpenStream(vb) from "
             "the latest settled position (seq == model, tuple member), later events delivered; other => no reopen; active count == assigned - "
             "finally ended after every end; stop channel closed iff all ended (both directions). non-trivial = a transient end after events, a "
             "final end, and a vBucket ending twice in one history",
        assumptions=HIST_ASSUME + ["ends injected inside Close are outside the property's domain and not generated",
                                   "a server does not send two final ends for one stream (each final end is the last event of that vBucket)"],
        units=[rapid("TestC12_History", 4000, 200000, 16, 16), rapid("TestC12_Finite", 1500, 60000), plain("TestC12_StaleToken")],
        min_share=dict(any={"end_transient_after_events": ["histories", 0.3], "client_stopped": ["histories", 0.03], "vb_ended_twice": ["histories", 0.2]}),
    ),
    "C14": dict(
        level="exploration",
        rule="rapid: (a) 1..4 distinct group names (arbitrary unicode, colons, the literal ':checkpoint:', digits, empty, prefix look-alikes) x 1..4 "
             "vBucket ids in 0..65535 saved through the real cbMetadata on the simulated node: every KV write key is under '_connector:cbgo:', "
             "decodes right-to-left to exactly its (group, vb), no key shared by two pairs, recognised by helpers.IsMetadata in all three "
             "event structs, and loads back per group; dotted group names at any position are rejected fail-stop (child process, Load and Save); "
             "membership register / index / heartbeat writes of a real NewCBMembership are all under '<prefix><group>:instance:'. (b) history "
             "engine with many internal-key / txn events: never delivered, position advances, no per-vBucket write unless an ack / non-document "
             "event flagged it. (c) closed loop: metadata bucket == source bucket, the node streams every KV write back as a mutation of the "
             "key's vBucket, periodic checkpointing every 3..8 ms, a burst of 1..12 user events: writes must stop (12 quiet ticks) and stay "
             "<= 3 KV ops per user event. non-trivial = (a) >=2 groups incl. one with ':' or digits, (b) internal-key event and a successful "
             "save, (c) a checkpoint write fed back on an assigned vBucket",
        assumptions=["group names are valid UTF-8 of <= 60 bytes (Couchbase keys are limited to 250 bytes)",
                     "simnode maps a key to its vBucket exactly as gocbcore routed the request (the request's vbucket field)"] + HIST_ASSUME[:3],
        units=[rapid("TestC14_Keys", 1200, 100000), rapid("TestC14_DottedGroup", 32, 1500, 8, 16), rapid("TestC14_MembershipKeys", 64, 3000, 8, 16),
               rapid("TestC14_FilterHistory", 4000, 200000), rapid("TestC14_ClosedLoop", 64, 3000, 8, 16)],
        min_share=dict(any={"feedback_on_assigned_vb": ["closed_loop_cases", 0.5]}),
    ),
    "C16": dict(
        level="exploration",
        rule="rapid histories (deliveries of all kinds, in/out-of-order acks, saves, rebalances to generated group shapes announced through the "
             "real dynamic membership + real VBucketDiscovery) with scrape ops at any point: before the first open, between any two ops, while "
             "the stream is closed inside a rebalance, at the end. Each scrape sets the server's high seqnos relative to the tracked positions "
             "(-3,-1,0,+1,+2,+7,+1000 per vBucket) or makes the seqno query fail. Collect() output of the real metric collector is decoded "
             "(client_model) and compared with the model: per-vBucket seq/start/end gauges, lag = max(0, high-tracked), total lag = sum, "
             "deletion/expiration counters exact, mutation counter within [user, user+internal-key], member number, group size, vBucket count, "
             "range, active streams, rebalance count; no foreign vBucket reported. non-trivial = a vBucket with high < tracked and a scrape after "
             "a rebalance",
        assumptions=HIST_ASSUME + ["'accepted' mutations are read conservatively: library-internal-key mutations may or may not be counted",
                                   "GET /states/offset is served from the same GetOffsets() map that C04 checks at every step (HTTP layer not exercised in quick)"],
        units=[rapid("TestC16_Metrics", 4000, 300000)],
        min_share=dict(any={"high_below_tracked": ["histories", 0.3], "scrape_after_rebalance": ["histories", 0.2], "scrape_while_closed": ["histories", 0.1], "scraped_through_http_api": ["histories", 0.005]}),
    ),
    "C17": dict(
        level="exploration",
        rule="rapid: (a) config.Dcp with a generated subset (density itself drawn) of 46 options explicitly set to non-zero values from "
             "per-type alphabets + the two env overrides unset/int/non-int -> ApplyDefaults vs a hand-written (setter,getter,documented "
             "default) table, untouched explicit values, idempotence, env precedence; (b) override maps for couchbase metadata / "
             "membership / leader election with any subset of keys vs inheritance/default table; (c) size strings <int>[.,<1-3 digits>]"
             "<blanks><kb|mb|gb in all case variants> and plain int64 strings vs trunc(number*1024^k) in exact rationals (magnitudes "
             "bounded so float64 provably agrees); (d) YAML files with 0..3 ${VAR} placeholders (set/empty/unset, repeated, adjacent, "
             "quoted and bare) through newDcpConfig vs textual substitution; native fuzz of the size parser. non-trivial: (a) >=3 set and "
             ">=1 unset option, (b) >=3 overridden keys, (c) unit not all-lower and fraction present, (d) a variable occurring >=2 times",
        assumptions=["explicit zero values mean 'unset' (outside the property's domain)",
                     "size strings restricted to magnitudes where exact and float64 arithmetic provably agree (DESIGN C17)",
                     "placeholder values contain no '$', '\\' or '\"'; bare (unquoted) style only with YAML-plain-safe values",
                     "logging.level default not checked (applied only when no logger is installed)"],
        units=[
            rapid("TestC17_Defaults", 12000, 1000000),
            rapid("TestC17_Derived", 12000, 1000000),
            rapid("TestC17_Sizes", 30000, 3000000),
            rapid("TestC17_Placeholders", 6000, 300000),
            fuzz("FuzzC17Size", 120),
        ],
    ),
    "C18": dict(
        level="exploration",
        rule="all ordered pairs over a 896-tuple grid around the gates 5.5.0/6.5.0/7.2.0 (component = gate-1, gate, gate+1, 0, large) "
             "enumerated completely: trichotomy, antisymmetry, agreement with lexicographic tuple order, gate monotonicity and switch "
             "points; rapid triples (near-ties generated by nudging one component) for transitivity; rapid format->parse round trip over "
             "5 string forms; malformed strings (rapid + native fuzz) must yield tuple or error, never panic; WIRE: the real dcp.NewDcp "
             "bootstraps against the simulated cluster (HTTP config + SCRAM), which serves a generated version string (gates and their "
             "neighbours in every component, lexicographic traps, 3..5-field forms, unreadable strings / failing endpoint) and bucket info "
             "(couchstore / magma / ephemeral); the version the client reports, the DCP_CONTROL keys the node received (enable_expiry_opcode, "
             "change_streams) and - for a quarter of the cases, after Start()+Close() - the pattern of DCP_CLOSE_STREAM requests (one at a "
             "time in ascending order vs. overlapping, replies delayed 25 ms, re-examined with 250 ms before reporting) are compared with "
             "the tuple order. non-trivial pair = tuples "
             "differ but share the major; triple = pairwise different; string = has a non-zero build field; malformed = contains . or -",
        assumptions=["version components are non-negative ints (Atoi range)", "edition strings contain no '.'",
                     "gate expressions are evaluated by the library itself in the wire unit (real newDcp / NewStream); the replicated expressions of the grid unit only add density",
                     "simnode (HTTP /pools, /pools/default/buckets, streaming bucket config, SCRAM, DCP_CONTROL log) and gocbcore are trusted"],
        units=[
            enum("TestC18_PairGridExhaustive", 8, 16),
            rapid("TestC18_Triples", 40000, 2000000),
            rapid("TestC18_ParseRoundTrip", 20000, 1000000),
            rapid("TestC18_Malformed", 20000, 1000000),
            fuzz("FuzzC18Parse", 60),
            rapid("TestC18_WireGates", 480, 40000, 8, 16),
            rapid("TestC18_SerialClose", 300, 20000, 4, 16),
        ],
        min_share=dict(any={"wire_serial_close": ["wire_cases", 0.015], "wire_parallel_close": ["wire_cases", 0.08],
                            "wire_change_streams_on": ["wire_cases", 0.04], "wire_expiry_off": ["wire_cases", 0.15]}),
    ),
    "C07": dict(
        level="exploration",
        rule="(a) min-rule: ALL replica tables of 1..4 copies over the alphabet {absent, never-reported (0,0), 3 vbUUIDs x seqnos {0,1,2,7,2^40,"
             "2^64-1}} enumerated through the real getMinSeqNo against the rule written from the statement (all absent -> 0, vbUUID disagreement "
             "among present copies -> 0, else minimum), plus rapid tables with full-range seqnos; (b) gate: real observer with mitigation enabled "
             "(poll 1 ms), a feeder goroutine (plays gocbcore's read loop, blocks in the gate) vs. a generated sequence of threshold reports (any "
             "order, repeats, zeros, decreasing, pauses 0..1.5 ms) and an optional Close at a generated point: an event reaches the listener only "
             "if a non-zero threshold >= its seqno had been issued before (Lamport-style: max issued is published before the call), the threshold "
             "never decreases and equals the max, every covered event is delivered within 2 s (no lost wake-up), Close releases waiters without "
             "delivery; (c) integration on a 3-node simulated cluster with the real rollbackMitigation polling OBSERVE_SEQNO: an event is consumed "
             "only after every listed copy replied persist >= seq under one vbUUID; steps also bump the cluster map revision or MOVE a replica "
             "to a node that holds no copy yet (the harness waits until the library has started over - it re-reads the failover logs then), "
             "plus a directed 'move trap' (replicas ahead of the active copy, one of them moves, the active's report rises exactly when the "
             "library starts over under the new map, the moved copy answers slowly; half of them with production-like poll spacing). "
             "non-trivial = (a) >=2 present copies, (b) an event that had to "
             "wait, (c) a lagging replica or vbUUID disagreement window",
        assumptions=["(b),(c) use real time: bounds are >= 400x the poll interval; the harness publishes 'max issued' before calling SetPersistSeqNo, so the check is a necessary condition and cannot false-alarm on scheduling",
                     "simnode's OBSERVE_SEQNO / cluster-map handling is the trusted server model (a node that holds no copy of the vBucket answers NOT_MY_VBUCKET with the current map; both agents follow map changes by CCCP polling)",
                     "a report change made in the same instant as a map change is NOT generated: it would race with the library's last poll rounds under the old map, where the old copy legitimately still counts"],
        units=[enum("TestC07_MinRuleExhaustive", 8, 16), rapid("TestC07_MinRuleRapid", 20000, 2000000), rapid("TestC07_Gate", 600, 40000, 8, 16),
               rapid("TestC07_Integration", 48, 3000, 8, 16, shrinktime="20s"), rapid("TestC07_StartupWakeup", 120, 6000, 4, 16, shrinktime="20s"), plain("TestC07_Fixed")],
        min_share=dict(any={"event_had_to_wait": ["gate_cases", 0.3], "closed_mid_run": ["gate_cases", 0.1],
                            "replica_moved_with_active_report": ["integration_cases", 0.02], "config_bump": ["integration_cases", 0.04]}),
    ),
    "C08": dict(
        level="exploration",
        rule="rapid on Layer B (real client.go over gocbcore on the simulated node + real stream/checkpoint/observer): failover logs of 1..6 entries "
             "(newest first, non-increasing starts, equal starts, oldest 0), checkpoint F at snapshot start/middle/end with a known or unknown "
             "vbUUID, rollback point R in [0,F] dense around every entry start (+-1), R=0, R=F, finite/infinite end, collection filters, "
             "post-rollback stream from the new branch: none / only <=F / exactly F / straddling F / only >F with system events and seqno-advanced "
             "among them; second request answered success / error / ROLLBACK again. Oracle: exactly two DCP_STREAM_REQ, the 2nd with start=R, "
             "vbuuid of the newest log entry with start<=R, snapshot [R,R], same end and filter; no event <=F shown, every document event >F "
             "shown once in order, offsets carry failover[0] of the second response; failing 2nd request => OpenStream returns an error. "
             "non-trivial = log >= 2 entries, R strictly inside an older branch, events on both sides of F",
        assumptions=["simnode (memcached/DCP protocol as gocbcore v10.5.2 speaks it) is the trusted server model", "the server streams seqnos > R in increasing order inside announced snapshots"],
        units=[rapid("TestC08_Rollback", 3000, 1000000)],
        min_share=dict(any={"r_in_older_branch": ["cases", 0.15], "event_exactly_F": ["cases", 0.05], "second_error": ["cases", 0.05]}),
    ),
    "C09": dict(
        level="exploration",
        rule="exhaustive enumeration of (N,T), 1<=T<=N, every member inspected (quick: N in 1..256,512,1024; "
             "thorough: N in 1..1024 complete) through helpers.ChunkSlice, all (T, member) for N in {64,128,1024} "
             "through the real stream.NewVBucketDiscovery(static).Get(), plus rapid-sampled (N,T,member) with "
             "neighbour adjacency; plus membership histories on ONE discovery object (dynamic membership, 1..12 changes incl. same "
             "group size with another member number and unchanged info re-published; every answer compared with a fresh object's); plus leader-numbered groups (kubernetesHa: real service discovery on leader and "
             "followers, real membership and discovery object per member, fake RPC link with generated ping failures, failed assignment "
             "RPCs and restarted followers; 2-3 monitor rounds of the library's hard-coded 5 s) whose members' sets must partition the "
             "bucket at the end; non-trivial = N not divisible by T (histories: a renumbering with the "
             "same group size); enumerated cases are distinct by construction, sampled ones by hash",
        assumptions=["T<=N and member number in 1..T as the property states (callers: config validation is the user's)"],
        units=[
            enum("TestC09_ChunkExhaustive"),
            enum("TestC09_DiscoveryExhaustive"),
            rapid("TestC09_Rapid", 20000, 400000),
            rapid("TestC09_DiscoveryHistory", 3000, 200000),
            rapid("TestC09_LeaderGroup", 1, 1, 2, 8),
            rapid("TestC09_CouchbaseGroup", 1, 1, 2, 8),
            rapid("TestC09_StreamFollowsMembership", 200, 6000, 8, 16),
            rapid("TestC09_FollowerTakesAssignments", 200, 10000, 4, 16),
            rapid("TestC09_StaticConfigSources", 300, 6000, 1, 4)],
        min_share=dict(any={"renumbered_same_group_size": ["discovery_histories", 0.2]}),
    ),
}

# Dimensions added after the seeded-change rounds 2-4 (DESIGN 13.1): appended to the rule texts above.
_MORE = {
    "C01": "Later additions: a third of the histories run with checkpoint.autoReset=latest (the crash oracle skips the documented start of a "
           "group without any checkpoint); transient / final stream ends and rebalances inside the histories (an event is identified by its "
           "seqno: one acknowledgement of either delivery settles it); unit RollbackRestart on the wire: the restart is answered with a "
           "ROLLBACK and the re-stream may omit the checkpointed seqno - everything above the checkpoint must be delivered again. Round 5: unit TornFile (file backend, child process per history: the last step is a crash inside the file write of a save, leaving an empty file or a prefix; the restart must refuse to start or resume at/before the first unsettled event). Round 7: a quarter of the histories with skipUntil and documents carrying an old CAS among newer ones (dropped, never settled). Round 8: a quarter of the histories with a listener that panics on one or two documents before acknowledging them. Round 10: events sent on the re-requested streams from inside AfterStreamStart of a rebalance (as in C03/C04); a document sent there that the consumer was never shown is unsettled: a durable checkpoint at or beyond it is a violation.",
    "C02": "Later additions: histories on the real file backend (every assigned vBucket's last value is in the file; restart resumes from it); "
           "read-only metadata mode through the real Dcp.Start() with injected and file backends, incl. a second session in the same process "
           "after another member advanced the stored checkpoints. Round 5: the collection-aware sequence-number query answers a generated share of the vBucket's high seqno (the plain query, which Load must use, answers the high seqno). Round 9: file backend with stored documents while the process is out of file descriptors at Open() (RLIMIT_NOFILE lowered around the call): fail-stop on the read error or the stored position, never a reset one.",
    "C04": "Later additions: failovers and transient stream ends (re-request on the new branch) inside the histories, so that late acknowledgements "
           "of old-branch events meet a position settled on the new branch. Round 5: unit FileHistory (file backend: Load returns every vBucket in the file, rebalances only shrink the range, late acknowledgements of lost vBuckets must leave the stale entry where it is). Round 7: skipUntil + old-CAS documents; events delivered AND settled from inside AfterStreamStart of a rebalance.",
    "C05": "Later additions: savequeue (a Save issued while one is in flight); the same histories on the file backend with the file read back after "
           "every save; unit CouchbaseBackend: real cbMetadata on the simulated node, which rejects a generated subset of ONE save's per-vBucket "
           "writes (the others complete before / after) - after the next undisturbed save every acknowledged position must be on the node. Round 5: failovers and transient stream ends in the save histories (late acknowledgements of the previous history branch). Round 7: rebalances with an explicit save from inside BeforeStreamStop. Round 9: kinds of save failure (rejected / context.DeadlineExceeded bare and wrapped / gocbcore.ErrTimeout). Round 10: acknowledge + Commit from inside AfterStreamStart of a rebalance (the session is still opening).",
    "C06": "Later additions: transient stream ends (the re-request tuple is judged like every other offset handed out); unit RollbackBranch on the "
           "wire: after a server-requested rollback every delivered offset carries the vbUUID of the branch named by the second response. Round 6: unit AheadCheckpoint (child process on C15's checkpoint-above scenarios: whatever is requested is the stored tuple or nothing). Round 7: a quarter of the histories start with auto-reset latest on vBuckets that hold events and failed over 0-3 times before. Round 8: stale events of an older snapshot (below the start of the one announced last). Round 9: stored documents carrying another bucketUuid than the streamed bucket's (a fifth of the histories of every history unit).",
    "C08": 'Later additions: none to the generator before round 5; the executor is shared with C01 RollbackRestart and C06 RollbackBranch. Round 5: Mid (the session starts normally, its stream ends with a transient cause and the re-request inside the running session is answered with the rollback) and Mitig (rollback mitigation on: real OBSERVE_SEQNO polling of the simulated node, everything persisted and reported once, quiet afterwards). Round 7: Immediate (the events follow the success response of the re-request directly, from the node\'s stream-open callback). Round 8: the checkpoint the rollback session leaves behind (saved at its end) is not below F. Round 9: a failover of the vBucket between the sessions start and the rollback answer (the rollback point judged against the log the node has then). Round 10: with a rollback answering a request inside the session, 1-4 documents above F shown and not acknowledged before the stream ended (the new branch re-uses their seqnos).',
    "C10": "Later additions: leadership is taken through the real handler (stream.NewLeaderElection(...).OnBecomeLeader) with a generated number of "
           "followers registered before the callback runs. Round 5: unit RegisterRPC (real RPC server and clients on localhost: registrations arrive in a generated order, followers register again; the leader's list - from which the monitor numbers the followers - stays in join order). Round 6: unit Handover (assignments and leader hand-overs on a follower-side service discovery: announcements = assignments with repeats removed); Couchbase unit: swap (an instance document expires while another instance registers within one monitor round). Round 7: relay unit: 0-3 numberings announced on a fresh dynamic membership before the first GetInfo. Round 8: the leader unit puts the partition rule on top of the numbering (real discovery object per member, 64 / 128 / 1024 vBuckets). Round 10: couchbase unit op Stall (last op): the node refuses one member's heart-beat writes while its process lives; the others renumber, the dropped member fail-stops (accepted outcome) - it does not go on holding its number.",
    "C11": "Later additions: mode busdelay (real Dcp, bus publications during close / delay / reopen with the configured delay); gate variant of "
           "direct mode (rollback mitigation polling a simulated cluster, an event parked in the gate when the first burst begins). Round 5: unit ReopenHistory (history engine, oracle C11: after every rebalance the live stream set is the whole range of the latest membership; a transient end of a freshly requested stream from inside AfterStreamStart). Round 6: units FollowMembership (executor of C09's StreamFollowsMembership with C11's clause) and CouchbaseSwap. Round 7: reopen histories in which the server ends the last stream for good (finite end / filter empty) while the rebalance closes the others - the client goes on. Round 8: application handlers of the lifecycle callbacks that take 5-30 ms (generated callback, weighted towards AfterRebalanceStart under dynamic membership); every callback records when it returned, and within a cycle each one must be emitted after the one before it has returned. Round 9: unit LeaderHandover (real follower-side serviceDiscovery + event bus + stream; assignments and leader hand-overs; a repetition of the numbering in effect - also by a new leader - causes no close/reopen). Round 10: Stream.Save() (Dcp.Commit) from the AfterRebalanceStart / BeforeRebalanceEnd / BeforeStreamStart callbacks of the closed window of a rebalance must return without panicking.",
    "C12": "Later additions: rebalances and STREAM_END from inside CloseStream in the histories; a transient end injected from the AfterStreamStart "
           "callback of a rebalance's reopen; finite mode with immediate acknowledgement and transient ends at the sampled end. Round 5: a third of the histories end with a shutdown by cancel during which the server ends another vBucket's stream with a transient cause (no new request, active count as expected). Round 6: active count and client liveness inside the 1 s retry pause of a refused re-request, with every other vBucket ending for good meanwhile. Round 7: a fifth of the histories on the file backend with a file listing every vBucket. Round 8: unit Finite with checkpoint.autoReset default / earliest / latest and a group that has never stored a checkpoint (with latest every vBucket starts at its current end = the sampled end). Round 9: the re-request after a transient end carries the end bound the session opened the vBucket with (open end / sampled high seqno). Round 10: when the first re-request after a transient end is refused, pending events are acknowledged inside the retry pause (half of the refused cases): the retry starts from the position settled then.",
    "C13": "Later additions: server 5.0.0 (serial close); Couchbase heart-beat membership (incl. Close while a monitor round is in flight); a "
           "server-initiated stream end during Close; pings that start failing shortly before Close (Close inside the retry wait of a failing "
           "health round); after the quiet window no goroutine may execute library code; units StartStop (Start();Stop() back to back at the "
           "checkpoint schedule's and the rollback mitigation's own API) and Fixed (replays of the three repaired shutdown defects). Round 5: a stream ended for good before Close() whose close request is answered no-such-stream; the client stopping by itself because every stream ended. Round 6: a scrape in flight at Close (API on); unit SerialCloseReal (real client on a node that behaves like a server below 5.5.0: 0-3 rebalances, then Close - F16); F14 / F16 replays in Fixed.",
    "C14": "Later additions: library-internal keys arrive as mutation / deletion / expiration; the connector's own documents configured in the "
           "streamed bucket / another bucket / a file. Round 5: in half of the histories reserved-key events also arrive while an earlier document event of the vBucket is unacknowledged. Round 6: a quarter of the histories in finite mode over events the server already holds (reserved-key tails). Round 7: failovers and transient stream ends in the filter histories. Round 8: groups with names of 40-205 bytes that share their first 40-193 bytes (boundary-weighted 187-190) and differ only at the end; membership keys for names up to 188 bytes (the longest whose heart-beat key fits 250 bytes).",
    "C15": "Later additions: fault classes end_during_open, partial_load, file_dump {partial, corrupt, isdir, notdir}, seq_omit (a successful "
           "sequence-number query without an entry for an assigned vBucket). Round 5: fault class rebalance_fault (fault-free start-up; load or sequence-number failure at the reopen of a rebalance). Round 7: the kind of error the refused re-requests fail with (plain / socket closed / state changed / too slow / disconnected / backfill failed). Round 9: type values written in a configuration file as ${VAR} placeholders whose variable is not set (read through newDcpConfig, quoted and unquoted).",
    "C16": "Later additions: scrapes from inside the lifecycle callbacks ASStop / BSStop / ARS / BRE / BSStart of a rebalance; a third of the "
           "histories with dcp.listener.skipUntil (dropped events are not 'accepted'); a share of the histories scrapes through the real HTTP API "
           "(child process: GET /metrics parsed from the exposition text instead of Collect(), GET /states/offset compared with the tracked positions). Round 5: transient stream ends and failovers in the histories (active-stream gauge after a re-request). Round 6: non-dynamic membership types with rebalances triggered twice within the (80 ms) delay. Round 8: a scrape between the arrival of new membership information and the reaction of the stream (half of the rebalances): member number, group size and range are those the stream still streams with. Round 9: in a scrape whose sequence-number query failed a VALID lag sample must still equal max(0, high - tracked).",
    "C17": "Later additions: zero-padded numbers in plain and unit spellings. Round 5: every boolean spelling for the metadata secureConnection override, main setting both ways. Round 6: empty-string overrides. Round 7: environment values containing dollar signs.",
    "C18": "Later additions: a version text the parser itself rejects, a reply without the field, an error document: the client must not start. Round 6: unit SerialClose (interface-level client with asynchronous end notifications: below 5.5.0 the next close is not issued before the previous stream's end reached its observer; from 5.5.0 on closes overlap); the wire unit's node refuses send_stream_end_on_client_close_stream below 5.5.0. Round 7: the serial unit varies dcp mode (finite) and checkpoint type. Round 10: version strings with zero-padded components (widths 2/4/5), denoting the same decimal numbers.",
    "C19": "Later additions: slow pings (a round longer than five retry waits); failure kinds plain error / deadline exceeded / canceled / "
           "(partial result, error). Round 5: unit ShutdownPaths (real Dcp.Start in a child process stopped by Close / signal / the end of every stream: no ping after Start returned). Round 6: production-like intervals (2.5-5 s): Stop() shortly after a round that recovered, and the round after it. Round 8: unit OverlappingStops (in-process, 14 checkers per case): 1-4 Stop() calls from different goroutines, the first while a ping is in flight with a tick queued behind it; a ping that begins after ANY of them has returned is a violation. Round 9: failure kinds include gocbcore.ErrAuthenticationFailure / ErrBucketNotFound / ErrShutdown / ErrTimeout (wrapped).",
    "C20": "Later additions: unit CheckpointRead (cbMetadata.Load in a child process against silent / erroring nodes and attribute-less documents); "
           "after every wire case with a late or missing reply no closure of the wrappers may be blocked on a gocbcore goroutine. Round 5: unit SeqNosComplete (64..1024 vBuckets, 1-3 nodes, back-to-back GetVBucketSeqNos calls; the result holds every vBucket with the node's value at the moment of return). Round 6: SeqNosComplete with one node answering TMPFAIL 0-150 ms after the others (the call must fail). Round 7: op OpenStreamAfterRollback (first request answered ROLLBACK, the generated behaviour applies to the re-request). Round 9: op MetadataSaveAgain (one metadata object: a save the node refuses, then the generated behaviour on a byte-identical second save).",
    "C03": "Later additions (round 5): unit RebalanceHistory (history engine with oracle C03 and rebalances; 1-3 events delivered on the re-requested streams from inside AfterStreamStart, while the rebalance is still completing).",
    "C07": "Later additions (round 5): the gate unit feeds every event kind (deletion, expiration, system events, seqno-advanced) and records every kind at the listener. Round 6: the simulated node answers polls that name another vbUUID in OBSERVE_SEQNO's hard-failover form (half of the cases) + directed suffix (the active copy replaced by one on a new branch); unit StartupWakeup (quiet vBucket, checkpoint load slower than the poll interval: the first dispatch must not be lost - F15) and its Fixed replay. Round 7: catch-up positions (stream reopened after a rollback) in the gate unit. Round 8: snapshot type bits (memory / disk / checkpoint / history) on the markers of the gate unit. Round 10: unit Gate: after k reports the stream is requested again inside the session with the same observer and the answer names the same or another vbUUID (SetVbUUID): the threshold does not go down, what it covers is delivered.",
    "C09": "Later additions (round 5): unit StreamFollowsMembership (real stream + real discovery object; 2-5 membership events placed idle / while closing / while the reopen is pending / at the start of / inside the reopen through lifecycle callbacks; the live stream set ends up as the partition of the last info). Round 6: events placed while the AfterRebalanceEnd callback of the previous rebalance runs; leader groups report a gap whatever the numbering check says. Round 7: a quarter of the follow cases on the file backend with a file listing every vBucket. Round 8: unit FollowerTakesAssignments (real RPC server and Handler.Rebalance on the follower; its leader handle is assigned / lost between pushes). Round 9: unit StaticConfigSources (member number / group size through ApplyDefaults from the configuration struct and / or the environment overrides, absent or stale file values under an override).",
}
for _k, _v in _MORE.items():
    CHECKS[_k]["rule"] += " " + _v
