# Table of checks: property id -> units (Go tests in /verif/props), budgets per tier, evidence texts.
# kind: "rapid" (case-count driven, sharded by PRNG value), "enum" (exhaustive enumeration sharded by index),
#       "plain" (fixed scenario set).

def rapid(test, q, t, qs=4, ts=16, **kw):
    d = dict(test=test, kind="rapid", checks=dict(quick=q, thorough=t), shards=dict(quick=qs, thorough=ts))
    d.update(kw)
    return d


def enum(test, qs=4, ts=16, **kw):
    d = dict(test=test, kind="enum", shards=dict(quick=qs, thorough=ts))
    d.update(kw)
    return d


CHECKS = {
    "C09": dict(
        level="exploration",
        rule="exhaustive enumeration of (N,T), 1<=T<=N, every member inspected (quick: N in 1..256,512,1024; "
             "thorough: N in 1..1024 complete) through helpers.ChunkSlice, all (T, member) for N in {64,128,1024} "
             "through the real stream.NewVBucketDiscovery(static).Get(), plus rapid-sampled (N,T,member) with "
             "neighbour adjacency; non-trivial = N not divisible by T; enumerated cases are distinct by "
             "construction, sampled ones by hash of (N,T,m)",
        assumptions=["T<=N and member number in 1..T as the property states (callers: config validation is the user's)"],
        units=[
            enum("TestC09_ChunkExhaustive"),
            enum("TestC09_DiscoveryExhaustive"),
            rapid("TestC09_Rapid", 20000, 400000),
        ],
    ),
}
